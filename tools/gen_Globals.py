#!/usr/bin/env python3
"""Translator for C15: inventory of every object with static storage duration in the
library translation units of the CURRENT source tree -> coq/gen/GenGlobals.v

 * the list of translation units (with their -I/-D flags, incl. the 8/12/16-bit
   multi-compiled ones and simd/x86_64/jsimd.c) and of the .asm files is read from
   the ninja build of the `simd` flavour (targets jpeg-static turbojpeg-static);
 * every TU is dumped with `clang -Xclang -ast-dump=json -fsyntax-only` (in
   parallel, nothing cached) and every VarDecl with static storage duration is
   classified: const (top-level, after arrays) / thread-local / mutable, with every
   syntactic write site and every place a non-const pointer to it leaves the
   expression (call argument, stored, returned, initialiser);
 * calls of process-global libc functions (getenv, setenv, strerror, ...) and of
   their header wrappers (GETENV_S, PUTENV_S) with enclosing function, first
   string-literal argument and innermost if-condition; callers of env writers;
 * .asm: every label/data directive in a SECTION other than SEG_TEXT/SEG_CONST.

usage: gen_Globals.py <repo> [--json]
exits non-zero with a message when a construct it reads is gone."""
import hashlib, json, os, re, subprocess, sys
from concurrent.futures import ProcessPoolExecutor

sys.setrecursionlimit(20000)
VERIF = os.path.dirname(os.path.dirname(os.path.abspath(__file__)))
REPO = sys.argv[1] if len(sys.argv) > 1 else "/repo"
REPO_REAL = os.path.realpath(REPO)

LIBC_GLOBAL = {"putenv", "setenv", "unsetenv", "clearenv", "_putenv_s", "getenv", "secure_getenv", "getenv_s",
               "strerror", "setlocale", "rand", "srand", "random", "srandom", "strtok", "localtime", "gmtime",
               "asctime", "ctime", "signal", "tmpnam", "atexit", "exit", "abort"}
DEST_WRITERS = {"memcpy", "memset", "memmove", "strcpy", "strncpy", "strcat", "strncat", "sprintf", "snprintf",
                "vsprintf", "vsnprintf", "fread", "fgets", "bzero", "bcopy", "getenv_s", "strerror_s", "strerror_r"}
DEST_WRITERS |= {"__builtin_" + n for n in list(DEST_WRITERS)} | {"__builtin___%s_chk" % n for n in list(DEST_WRITERS)}
DEST_WRITERS |= {"__%s_chk" % n for n in ("memcpy", "memset", "memmove", "strcpy", "strncpy", "strcat", "strncat",
                                        "sprintf", "snprintf", "vsprintf", "vsnprintf")}
ERR_FIELDS = {"isInstanceError", "errStr", "warning"}     # members of tjinstance (src/turbojpeg.c)
CHARISH = re.compile(r"^(const |volatile )*(unsigned char|signed char|char)( const| volatile)*$")


def die(msg):
    sys.exit("gen_Globals: " + msg)


def build_root():
    b = os.environ.get("VERIF_BUILD")
    if b:
        return b
    if REPO_REAL == "/repo":
        return os.path.join(VERIF, "build")
    return os.path.join(VERIF, "build", "alt-" + hashlib.sha1(REPO_REAL.encode()).hexdigest()[:10])


def rel(path):
    p = os.path.realpath(path) if path else ""
    if p.startswith(REPO_REAL + "/"):
        return p[len(REPO_REAL) + 1:]
    return path or ""


# ----------------------------------------------------------------- type strings
def strip_dims(t):
    return re.sub(r"(\s*\[[^\]]*\])+\s*$", "", t.strip())


def is_const_type(t):
    """is an object of type t immutable at the top level (after arrays)?"""
    t = strip_dims(t)
    if "(*" in t:      # pointer to function / pointer to array
        m = re.search(r"\(\*+\s*([A-Za-z_ ]*?)\s*(\[[^\]]*\])*\)", t)
        return bool(m and re.search(r"\bconst\b", m.group(1)))
    j = t.rfind("*")
    if j >= 0:
        return re.search(r"\bconst\b", t[j + 1:]) is not None
    return re.search(r"\bconst\b", t) is not None


def pointee_is_const(t):
    t = t.strip()
    if "(*" in t:
        return False
    j = t.rfind("*")
    if j < 0:
        return False
    return is_const_type(t[:j])


def qt(node):
    ty = node.get("type") or {}
    return ty.get("desugaredQualType") or ty.get("qualType") or ""


def either_const(node):
    ty = node.get("type") or {}
    return any(is_const_type(x) for x in (ty.get("desugaredQualType"), ty.get("qualType")) if x)


# ----------------------------------------------------------------- one TU
class TU:
    def __init__(self, src, flags):
        self.src, self.flags = src, flags
        self.file, self.line = "", 0
        self.decl = {}          # VarDecl id -> key tuple
        self.vars = {}          # key -> info
        self.uses = []          # (key, category, how, file, fn, line)
        self.alias = {}         # local VarDecl id -> (key, local name)
        self.alias_uses = []    # (key, fn, local, how)
        self.libc = []          # (callee, file, fn, arg, guard)
        self.calls = []         # (callee, file, fn)
        self.fnsum = {}         # fn -> [byte_lvalues, byte_ptr_args]
        self.fieldw = set()     # (fn, field, how): writes of the per-instance error-state fields
        self.trees = {}         # fn -> (is_static, tree) structured call tree (only for src/turbojpeg*.c)
        self.fn = ""
        self.text = {}

    # --- clang elides file/line when unchanged: replay the printer's state
    def _bare(self, l):
        if "file" in l:
            self.file = l["file"]
        if "line" in l:
            self.line = l["line"]
        return (self.file, self.line, l.get("offset"))

    def upd(self, l):
        if not l:
            return (self.file, self.line, None)
        if "spellingLoc" in l or "expansionLoc" in l:
            res = None
            for k, v in l.items():
                if k in ("spellingLoc", "expansionLoc"):
                    r = self._bare(v)
                    if k == "expansionLoc":
                        res = r
            return res or (self.file, self.line, None)
        return self._bare(l)

    def node_loc(self, n):
        """must be called exactly once per node, in document order"""
        res = None
        if "loc" in n:
            res = self.upd(n["loc"])
        if "range" in n:
            b = self.upd(n["range"].get("begin"))
            e = self.upd(n["range"].get("end"))
            n["_b"], n["_e"] = b, e
            if res is None or not n.get("loc"):
                res = b
        n["_loc"] = res or (self.file, self.line, None)
        return n["_loc"]

    def srctext(self, b, e):
        """source text between two expansion locations in the same file"""
        try:
            if b[0] != e[0] or b[2] is None or e[2] is None:
                return ""
            if b[0] not in self.text:
                self.text[b[0]] = open(b[0], "rb").read()
            s = self.text[b[0]][b[2]:e[2] + 40]
            return s.decode("utf-8", "replace")
        except OSError:
            return ""

    # ------------------------------------------------------------ traversal
    def run(self, root):
        for d in root.get("inner", []):
            self.node_loc(d)
            k = d.get("kind")
            if k == "VarDecl":
                self.global_var(d)
                self.fn = ""
                for i, c in enumerate(d.get("inner", [])):
                    self.visit(c, [(d, i)])
            elif k == "FunctionDecl":
                self.fn = d.get("name", "?")
                for i, c in enumerate(d.get("inner", [])):
                    if isinstance(c, dict) and c.get("kind") == "CompoundStmt":
                        self.fnsum.setdefault(self.fn, [0, 0])
                        self.visit(c, [(d, i)])
                        if os.path.basename(self.src) == "turbojpeg.c":
                            self.trees[self.fn] = (d.get("storageClass") == "static", self.tree(c), sorted(self.assigned_names(c)))
                    else:
                        self.skim(c)
                self.fn = ""
            else:
                for c in d.get("inner", []):
                    self.skim(c)

    def skim(self, n):
        """keep the location state in step for subtrees we do not analyse"""
        if not isinstance(n, dict):
            return
        if "loc" in n or "range" in n:
            self.node_loc(n)
        for c in n.get("inner", []):
            self.skim(c)

    def global_var(self, d):
        sc = d.get("storageClass")
        f, line, _ = d["_loc"]
        name = d.get("name", "?")
        if sc == "extern" and "init" not in d:
            self.decl[d["id"]] = ("ext", "", "", name)
            return
        key = ("int", rel(f), "", name) if sc == "static" else ("ext", "", "", name)
        self.decl[d["id"]] = key
        prev = self.vars.get(key)
        info = dict(name=name, file=rel(f), fn="", link="static" if sc == "static" else "extern", type=qt(d),
                    const=either_const(d), tls=("tls" in d), line=line)
        if prev is None or ("init" in d):
            self.vars[key] = info

    def local_static(self, d):
        f, line, _ = d["_loc"]
        name = d.get("name", "?")
        key = ("loc", rel(f), self.fn, name)
        self.decl[d["id"]] = key
        self.vars[key] = dict(name=name, file=rel(f), fn=self.fn, link="local", type=qt(d), const=either_const(d),
                              tls=("tls" in d), line=line)

    def visit(self, n, path):
        if not isinstance(n, dict):
            return
        if "loc" in n or "range" in n:
            self.node_loc(n)
        else:
            n["_loc"] = (self.file, self.line, None)
        k = n.get("kind")
        if k == "VarDecl":
            sc = n.get("storageClass")
            if sc == "static" or "tls" in n:
                self.local_static(n)
            elif sc == "extern":
                self.decl[n["id"]] = ("ext", "", "", n.get("name", "?"))
        elif k == "DeclRefExpr":
            rd = n.get("referencedDecl") or {}
            if rd.get("kind") == "VarDecl":
                rid = rd.get("id")
                if rid in self.decl:
                    cat, how = self.classify(path, n)
                    f, line, _ = n["_loc"]
                    self.uses.append((self.decl[rid], cat, how, rel(f), self.fn, line))
                elif rid in self.alias:
                    cat, how = self.classify(path, n, alias=True)
                    key, lname = self.alias[rid]
                    self.alias_uses.append((key, self.fn, lname, how if cat != "read" else "read-value"))
        elif k == "CallExpr":
            self.call(n, path)
            name = self.callee_name(n)
            if name in DEST_WRITERS and len(n.get("inner", [])) > 1:
                m = self.strip(n["inner"][1])
                if m.get("kind") == "MemberExpr" and m.get("name") in ERR_FIELDS:
                    self.fieldw.add((self.fn, m.get("name"), "dest:" + name))
        elif k in ("BinaryOperator", "CompoundAssignOperator") and (n.get("opcode") == "=" or k == "CompoundAssignOperator") and n.get("inner"):
            m = self.strip(n["inner"][0])
            if m.get("kind") == "MemberExpr" and m.get("name") in ERR_FIELDS:
                v = self.strip(n["inner"][1]) if len(n["inner"]) > 1 else {}
                self.fieldw.add((self.fn, m.get("name"), v.get("value", "?") if v.get("kind") == "IntegerLiteral" else "?"))
        if k in ("UnaryOperator", "ArraySubscriptExpr") and n.get("valueCategory") == "lvalue":
            if (k != "UnaryOperator" or n.get("opcode") == "*") and CHARISH.match(qt(n)) and self.fn in self.fnsum:
                self.fnsum[self.fn][0] += 1
        inner = n.get("inner", [])
        for i, c in enumerate(inner):
            path.append((n, i))
            self.visit(c, path)
            path.pop()

    def tree(self, n):
        """structured call tree: ("call", name) | ("seq", [..]) | ("if", guard_text, [branches]) | ("loop", body)"""
        if not isinstance(n, dict):
            return ("seq", [])
        k = n.get("kind")
        inner = [c for c in n.get("inner", []) if isinstance(c, dict)]
        if k == "CallExpr":
            args = [self.tree(c) for c in inner[1:]]
            return ("seq", args + [("call", self.callee_name(n))])
        if k == "IfStmt":
            cond = self.tree(inner[0]) if inner else ("seq", [])
            g = ""
            if inner and "_b" in inner[0] and "_e" in inner[0] and not self.has_effect(inner[0]):
                g = self.cond_text(inner[0]) + "##" + ",".join(sorted(self.names_in(inner[0])))
            return ("seq", [cond, ("if", g, [self.tree(c) for c in inner[1:]])])
        if k in ("ForStmt",):
            # init / cond / inc / body: assignments in the header are loop bookkeeping
            return ("loop", ("seq", [self.tree(c) for c in inner]))
        if k in ("WhileStmt", "DoStmt"):
            return ("loop", ("seq", [self.tree(c) for c in inner]))
        if k in ("SwitchStmt",):
            cond = self.tree(inner[0]) if inner else ("seq", [])
            return ("seq", [cond, ("if", "", [("loop", ("seq", [self.tree(c) for c in inner[1:]]))])])
        if k in ("ConditionalOperator",):
            return ("seq", [self.tree(inner[0]), ("if", "", [self.tree(c) for c in inner[1:]])])
        if k == "BinaryOperator" and n.get("opcode") in ("&&", "||"):
            return ("seq", [self.tree(inner[0]), ("if", "", [self.tree(c) for c in inner[1:]])])
        return ("seq", [self.tree(c) for c in inner])

    def cond_text(self, cond):
        t = self.srctext(cond["_b"], cond["_e"])
        depth, out = 0, ""
        for ch in t:
            if ch == "(":
                depth += 1
            elif ch == ")":
                if depth == 0:
                    break
                depth -= 1
            out += ch
        return " ".join(out.split())

    def has_effect(self, n):
        if not isinstance(n, dict):
            return False
        k = n.get("kind")
        if k in ("CallExpr", "CompoundAssignOperator") or (k == "BinaryOperator" and n.get("opcode") == "=") or \
           (k == "UnaryOperator" and n.get("opcode") in ("++", "--")):
            return True
        return any(self.has_effect(c) for c in n.get("inner", []))

    def names_in(self, n, out=None):
        out = set() if out is None else out
        if isinstance(n, dict):
            if n.get("kind") == "DeclRefExpr":
                out.add((n.get("referencedDecl") or {}).get("name", "?"))
            for c in n.get("inner", []):
                self.names_in(c, out)
        return out

    def assigned_names(self, n, out=None, in_for_header=False):
        """variables assigned in a function body outside for-loop headers"""
        out = set() if out is None else out
        if not isinstance(n, dict):
            return out
        k = n.get("kind")
        tgt = None
        if k == "CompoundAssignOperator" or (k == "BinaryOperator" and n.get("opcode") == "="):
            tgt = self.strip(n["inner"][0]) if n.get("inner") else None
        elif k == "UnaryOperator" and n.get("opcode") in ("++", "--"):
            tgt = self.strip(n["inner"][0]) if n.get("inner") else None
        if tgt is not None and not in_for_header:
            # the base variable of the assigned lvalue (x, x[i], x.f): a write through a pointer (*p, p->f) is not an
            # assignment to p
            b = tgt
            while b.get("kind") in ("ArraySubscriptExpr", "MemberExpr", "ParenExpr", "ImplicitCastExpr") and b.get("inner"):
                if b.get("kind") == "MemberExpr" and b.get("isArrow"):
                    b = {}
                    break
                b = b["inner"][0]
            if b.get("kind") == "DeclRefExpr":
                out.add((b.get("referencedDecl") or {}).get("name", "?"))
        inner = [c for c in n.get("inner", []) if isinstance(c, dict)]
        if k == "ForStmt" and inner:
            for c in inner[:-1]:
                self.assigned_names(c, out, True)
            self.assigned_names(inner[-1], out, in_for_header)
        else:
            for c in inner:
                self.assigned_names(c, out, in_for_header)
        return out

    @staticmethod
    def strip(e):
        while isinstance(e, dict) and e.get("kind") in ("ImplicitCastExpr", "ParenExpr", "CStyleCastExpr") and e.get("inner"):
            e = e["inner"][0]
        return e if isinstance(e, dict) else {}

    @staticmethod
    def callee_name(call):
        c = call["inner"][0] if call.get("inner") else {}
        while c.get("kind") in ("ImplicitCastExpr", "ParenExpr", "CStyleCastExpr") and c.get("inner"):
            c = c["inner"][0]
        if c.get("kind") == "DeclRefExpr":
            return (c.get("referencedDecl") or {}).get("name", "<indirect>")
        return "<indirect>"

    def guard_of(self, path):
        """source text of the innermost enclosing if-condition (the node must be in its then/else part)"""
        for i in range(len(path) - 1, -1, -1):
            p, idx = path[i]
            if p.get("kind") == "IfStmt" and idx >= 1 and p.get("inner"):
                cond = p["inner"][0]
                if "_b" in cond and "_e" in cond:
                    t = self.srctext(cond["_b"], cond["_e"])
                    # cut at the closing parenthesis of the condition
                    depth, out = 0, ""
                    for ch in t:
                        if ch == "(":
                            depth += 1
                        elif ch == ")":
                            if depth == 0:
                                break
                            depth -= 1
                        out += ch
                    return " ".join(out.split())
                return "?"
        return ""

    def call(self, n, path):
        name = self.callee_name(n)
        f, line, _ = n["_loc"]
        self.calls.append((name, rel(f), self.fn))
        if self.fn in self.fnsum:
            for a in n.get("inner", [])[1:]:
                if isinstance(a, dict) and self.is_byte_pointer_handover(a):
                    self.fnsum[self.fn][1] += 1
        if name in LIBC_GLOBAL or name in ("GETENV_S", "PUTENV_S"):
            arg = ""
            for a in n.get("inner", [])[1:]:
                s = self.find_string(a)
                if s is not None:
                    arg = s
                    break
            self.libc.append((name, rel(f), self.fn, arg, self.guard_of(path + [(n, 0)])))

    def is_byte_pointer_handover(self, a):
        t = qt(a).strip()
        t = re.sub(r"\s*(const|restrict|volatile|__restrict)\s*$", "", t).strip()
        if not t.endswith("*") or "(*" in t:
            return False
        if not CHARISH.match(t[:-1].strip()):
            return False
        b = a
        while b.get("kind") in ("ImplicitCastExpr", "ParenExpr", "CStyleCastExpr") and b.get("inner"):
            b = b["inner"][0]
        if b.get("kind") in ("StringLiteral", "PredefinedExpr"):
            return False
        key = self.decl.get((b.get("referencedDecl") or {}).get("id"))
        if key and self.vars.get(key, {}).get("const"):
            return False      # a static const char[] (FUNCTION_NAME) is not a byte-buffer hand-over
        return True

    def find_string(self, a):
        if a.get("kind") == "StringLiteral":
            v = a.get("value", "")
            return v[1:-1] if len(v) >= 2 and v[0] == '"' else v
        for c in a.get("inner", []):
            if isinstance(c, dict):
                r = self.find_string(c)
                if r is not None:
                    return r
        return None

    # ---------------------------------------------------- use classification
    def classify(self, path, ref, alias=False):
        """climb from a DeclRefExpr to the construct that consumes it.
        returns (category, how): read | write | escape | constalias | nouse"""
        state = "lv"
        cur = ref
        in_initlist = False
        i = len(path)
        while i > 0:
            i -= 1
            par, idx = path[i]
            k = par.get("kind")
            if state == "lv":
                if k == "ParenExpr":
                    pass
                elif k == "MemberExpr":
                    if par.get("isArrow"):
                        return ("escape", "unknown:arrow-on-lvalue")
                elif k == "ImplicitCastExpr":
                    ck = par.get("castKind")
                    if ck == "LValueToRValue":
                        return ("read", "read")
                    elif ck == "ArrayToPointerDecay":
                        state = "ptr"
                    elif ck == "NoOp":
                        pass
                    elif ck == "ToVoid":
                        return ("nouse", "void")
                    else:
                        return ("escape", "unknown:cast-" + str(ck))
                elif k == "UnaryOperator":
                    op = par.get("opcode")
                    if op == "&":
                        state = "ptr"
                    elif op in ("++", "--"):
                        return ("write", "incdec")
                    elif op == "__extension__":
                        pass
                    else:
                        return ("escape", "unknown:unary" + str(op))
                elif k == "BinaryOperator":
                    if par.get("opcode") == "=" and idx == 0:
                        return ("write", "assign")
                    return ("escape", "unknown:binop-on-lvalue")
                elif k == "CompoundAssignOperator":
                    if idx == 0:
                        return ("write", "compound-assign")
                    return ("escape", "unknown:compound-rhs-lvalue")
                elif k == "UnaryExprOrTypeTraitExpr":
                    return ("nouse", "sizeof")
                elif k == "CStyleCastExpr":
                    if par.get("castKind") == "ToVoid":
                        return ("nouse", "void")
                    if par.get("castKind") == "LValueToRValue":
                        return ("read", "read")
                    return ("escape", "unknown:cstyle-" + str(par.get("castKind")))
                else:
                    return ("escape", "unknown:lv-in-" + str(k))
            else:  # state == "ptr": cur is a pointer into the object
                ptype = qt(cur)
                if k == "ParenExpr":
                    pass
                elif k in ("ImplicitCastExpr", "CStyleCastExpr"):
                    ck = par.get("castKind")
                    if ck in ("NoOp", "BitCast"):
                        pass
                    elif ck in ("PointerToBoolean", "ToVoid"):
                        return ("nouse", "test")
                    else:
                        return ("escape", "cast-" + str(ck))
                elif k == "BinaryOperator":
                    op = par.get("opcode")
                    if op in ("+", "-"):
                        if "*" not in qt(par):
                            return ("nouse", "ptrdiff")
                    elif op in ("==", "!=", "<", ">", "<=", ">=", "&&", "||"):
                        return ("nouse", "compare")
                    elif op == ",":
                        if idx == 0:
                            return ("nouse", "comma")
                    elif op == "=":
                        if idx == 1:
                            if pointee_is_const(qt(par)):
                                return ("constalias", "stored-const")
                            lhs = par["inner"][0]
                            return ("escape", "stored:" + self.lhs_name(lhs))
                        return ("escape", "unknown:ptr-lhs")
                    else:
                        return ("escape", "unknown:ptr-binop" + str(op))
                elif k == "ConditionalOperator":
                    if idx == 0:
                        return ("nouse", "test")
                elif k == "UnaryOperator":
                    op = par.get("opcode")
                    if op == "*":
                        state = "lv"
                    elif op == "!":
                        return ("nouse", "test")
                    elif op == "__extension__":
                        pass
                    else:
                        return ("escape", "unknown:ptr-unary" + str(op))
                elif k == "ArraySubscriptExpr":
                    state = "lv"
                elif k == "MemberExpr":
                    if par.get("isArrow"):
                        state = "lv"
                    else:
                        return ("escape", "unknown:dot-on-ptr")
                elif k == "CallExpr":
                    if idx == 0:
                        return ("escape", "unknown:called")
                    name = self.callee_name(par)
                    pre = "addr-" if (alias and cur.get("kind") == "UnaryOperator") else ""
                    if name in DEST_WRITERS and idx == 1:
                        return ("write", "dest-arg:" + name)
                    if pointee_is_const(ptype):
                        return ("constalias", "const-arg%d:%s" % (idx - 1, name))
                    return ("escape", "%sarg%d:%s" % (pre, idx - 1, name))
                elif k == "AtomicExpr":
                    # __atomic_* / __c11_atomic_* builtins on the object: the first operand is the object accessed
                    return ("write", "atomic-rmw") if idx == 0 else ("escape", "atomic-operand")
                elif k == "InitListExpr":
                    in_initlist = True
                elif k == "VarDecl":
                    t = ptype if in_initlist else qt(par)
                    if pointee_is_const(t):
                        return ("constalias", "init-const:" + par.get("name", "?"))
                    if par.get("storageClass") == "static" or self.fn == "":
                        return ("escape", "init-static:" + par.get("name", "?"))
                    if not alias:
                        rid = (ref.get("referencedDecl") or {}).get("id")
                        self.alias[par["id"]] = (self.decl[rid], par.get("name", "?"))
                    return ("escape", "init-local:" + par.get("name", "?"))
                elif k == "CompoundLiteralExpr":
                    return ("constalias", "literal-const") if pointee_is_const(ptype) else ("escape", "compound-literal")
                elif k == "ReturnStmt":
                    return ("constalias", "return-const") if pointee_is_const(ptype) else ("escape", "returned")
                elif k in ("IfStmt", "WhileStmt", "ForStmt", "DoStmt", "CompoundStmt", "SwitchStmt"):
                    return ("nouse", "discarded")
                else:
                    return ("escape", "unknown:ptr-in-" + str(k))
            cur = par
        return ("escape", "unknown:top")

    def lhs_name(self, e):
        while e.get("kind") in ("ParenExpr", "ImplicitCastExpr", "CStyleCastExpr") and e.get("inner"):
            e = e["inner"][0]
        if e.get("kind") == "MemberExpr":
            return e.get("name", "?")
        if e.get("kind") == "DeclRefExpr":
            return (e.get("referencedDecl") or {}).get("name", "?")
        return e.get("kind", "?")


def analyse(job):
    src, flags = job
    cmd = ["clang", "-Xclang", "-ast-dump=json", "-fsyntax-only", "-w"] + flags + [src]
    p = subprocess.run(cmd, stdout=subprocess.PIPE, stderr=subprocess.PIPE)
    if p.returncode != 0:
        return {"error": "clang failed on %s: %s" % (src, p.stderr.decode("utf-8", "replace")[-400:])}
    root = json.loads(p.stdout)
    del p
    tu = TU(src, flags)
    tu.run(root)
    variant = "".join(sorted(x for x in flags if x.startswith("-DBITS_IN_JSAMPLE")))[18:] or "8"
    return {"src": rel(src), "variant": variant, "flags": [x for x in flags if x.startswith("-D")],
            "vars": [[list(k), v] for k, v in tu.vars.items()],
            "uses": [[list(u[0])] + list(u[1:]) for u in tu.uses],
            "alias_uses": [[list(u[0])] + list(u[1:]) for u in tu.alias_uses],
            "libc": tu.libc, "calls": tu.calls, "fnsum": tu.fnsum, "fieldw": sorted(tu.fieldw),
            "trees": tu.trees}


# ----------------------------------------------------------------- asm
def asm_scan(asm_jobs):
    seen, out_sections, writable, const_labels = set(), {}, [], {}
    inc_dirs = set()
    for src, incs in asm_jobs:
        inc_dirs.update(incs)

    def scan(path, top):
        section = None
        try:
            lines = open(path, errors="replace").read().split("\n")
        except OSError:
            return
        for ln in lines:
            code = ln.split(";", 1)[0]
            if re.match(r"\s*%(define|macro|endmacro|if|ifdef|ifndef|elif|elifdef|else|endif|undef|assign|xdefine)\b", code):
                continue
            m = re.match(r'\s*%include\s+"([^"]+)"', code)
            if m:
                for d in [os.path.dirname(path)] + sorted(inc_dirs):
                    q = os.path.join(d, m.group(1))
                    if os.path.exists(q):
                        if (top, os.path.realpath(q)) not in seen:
                            seen.add((top, os.path.realpath(q)))
                            scan(q, top)
                        break
                continue
            m = re.match(r"\s*(?:section|segment)\s+(\S+)", code, re.I)
            if m:
                section = m.group(1)
                out_sections.setdefault(rel(top), [])
                if section not in out_sections[rel(top)]:
                    out_sections[rel(top)].append(section)
                continue
            if section == "SEG_CONST":
                m = re.match(r"\s*EXTN\(([A-Za-z_][\w]*)\)\s*:", code)
                if m:
                    const_labels[m.group(1)] = rel(top)
            if section is not None and section not in ("SEG_TEXT", "SEG_CONST") and not section.startswith(".note"):
                m = re.match(r"\s*(?:EXTN\()?([A-Za-z_.$?][\w.$?]*)\)?\s*:", code)
                m2 = re.match(r"\s*(?:\S+\s+)?(times|db|dw|dd|dq|do|resb|resw|resd|resq|reso|GLOBAL_DATA)\b", code)
                if m:
                    writable.append((rel(top), section, m.group(1)))
                elif m2:
                    writable.append((rel(top), section, "<" + m2.group(1) + ">"))
    for src, _ in asm_jobs:
        out_sections.setdefault(rel(src), [])
        scan(src, src)
    # SEG_CONST must be a read-only section for ELF
    inc = os.path.join(REPO, "simd", "nasm", "jsimdext.inc")
    try:
        t = open(inc).read()
    except OSError:
        die("simd/nasm/jsimdext.inc not found")
    m = re.search(r"%elifdef ELF(.*?)%elifdef", t, re.S)
    if not m:
        die("jsimdext.inc: ELF branch of the SEG_* definitions not found")
    defs = re.findall(r"%define\s+SEG_CONST\s+(\S+)([^\n]*)", m.group(1))
    if not defs or any(d[0] != ".rodata" for d in defs):
        die("jsimdext.inc: SEG_CONST is no longer .rodata for ELF: %r" % (defs,))
    return out_sections, writable, const_labels


# ----------------------------------------------------------------- main
def coq_str(s):
    return '"' + str(s).replace('"', '""') + '"'


def main():
    want_json = "--json" in sys.argv
    root = build_root()
    env = dict(os.environ, VERIF_REPO=REPO, VERIF_BUILD=root)
    p = subprocess.run([os.path.join(VERIF, "tools", "buildlib.sh"), "simd"], env=env, stdout=subprocess.PIPE,
                       stderr=subprocess.PIPE)
    lib = os.path.join(root, "lib-simd")
    if p.returncode != 0 or not os.path.exists(os.path.join(lib, "build.ninja")):
        die("cannot configure/build the working tree: " + p.stderr.decode("utf-8", "replace")[-300:])
    p = subprocess.run(["ninja", "-C", lib, "-t", "commands", "jpeg-static", "turbojpeg-static"], stdout=subprocess.PIPE,
                       stderr=subprocess.PIPE)
    if p.returncode != 0:
        die("ninja -t commands failed: " + p.stderr.decode()[-300:])
    cjobs, asm_jobs = {}, []
    for line in p.stdout.decode().split("\n"):
        toks = line.split()
        if not toks:
            continue
        if toks[-1].endswith(".c") and "-c" in toks:
            flags = [t for t in toks if t.startswith("-I") or t.startswith("-D") or t.startswith("-U")]
            flags = [("-I" + os.path.join(lib, t[2:]) if t.startswith("-I") and not t[2:].startswith("/") else t) for t in flags]
            cjobs[(toks[-1], tuple(flags))] = cjobs.get((toks[-1], tuple(flags)), 0) + 1
        elif toks[-1].endswith(".asm"):
            incs = [t[2:].strip('"') for t in toks if t.startswith("-I")]
            asm_jobs.append((toks[-1], incs))
    if len(cjobs) < 50:
        die("only %d C compile commands found in the ninja build (expected the libjpeg/turbojpeg TUs)" % len(cjobs))
    if not any(s.endswith("simd/x86_64/jsimd.c") for s, _ in cjobs):
        die("simd/x86_64/jsimd.c is not among the compiled translation units")
    if not any(s.endswith("src/turbojpeg.c") for s, _ in cjobs):
        die("src/turbojpeg.c is not among the compiled translation units")
    jobs = sorted(cjobs, key=lambda j: (-os.path.getsize(j[0]), j))
    with ProcessPoolExecutor(max_workers=min(16, (os.cpu_count() or 4))) as ex:
        results = list(ex.map(analyse, [(s, list(f)) for s, f in jobs], chunksize=1))
    for r in results:
        if "error" in r:
            die(r["error"])

    # ---- merge
    vars_, uses, alias_uses, libc, calls, fnsum = {}, {}, {}, set(), set(), {}
    fieldw = set()
    trees = {}
    ext_defs = {}
    for r, job in zip(results, jobs):
        mult = cjobs[job]
        for k, v in r["vars"]:
            k = tuple(k)
            if k not in vars_:
                vars_[k] = dict(v, objs=set())
            else:
                # conservative merge over variants
                vars_[k]["const"] = vars_[k]["const"] and v["const"]
                vars_[k]["tls"] = vars_[k]["tls"] and v["tls"]
            vars_[k]["objs"].add((r["src"], tuple(r["flags"])))
        for u in r["uses"]:
            uses.setdefault(tuple(u[0]), set()).add(tuple(u[1:]))
        for u in r["alias_uses"]:
            alias_uses.setdefault(tuple(u[0]), set()).add(tuple(u[1:]))
        for l in r["libc"]:
            libc.add(tuple(l))
        for c in r["calls"]:
            calls.add(tuple(c))
        for fw in r["fieldw"]:
            fieldw.add(tuple(fw))
        for f, tr in r["trees"].items():
            trees[f] = tr
        for f, s in r["fnsum"].items():
            old = fnsum.get(f)
            fnsum[f] = [max(s[0], old[0]), max(s[1], old[1])] if old else list(s)
    # references to extern declarations without a definition in any TU: libc objects (stderr, ...)
    foreign = {}
    for k in list(uses):
        if k not in vars_:
            foreign[k] = uses.pop(k)
    asm_sections, asm_writable, asm_const = asm_scan(asm_jobs)
    libc_objs = []
    for k in sorted(foreign):
        name = k[3]
        us = foreign[k]
        if name in asm_const:
            vars_[k] = dict(name=name, file=asm_const[name], fn="", link="asm", type="SEG_CONST label", const=True, tls=False,
                            line=0, objs={(asm_const[name], ())})
        elif name in ("stderr", "stdout", "stdin"):
            for u in sorted(us):
                libc.add((name, u[2], u[3], "", ""))
        else:
            vars_[k] = dict(name=name, file="<undefined>", fn="", link="extern", type="?", const=False, tls=False, line=0,
                            objs={("<undefined>", ())})
            uses[k] = us
    entries = []
    for k in sorted(vars_, key=lambda k: (vars_[k]["file"], vars_[k]["fn"], vars_[k]["name"])):
        v = vars_[k]
        us = sorted(uses.get(k, ()), key=lambda u: (u[2], u[3], u[4], u[1]))
        writes = [u for u in us if u[0] == "write"]
        escapes = [u for u in us if u[0] == "escape"]
        if v["tls"]:
            c = "Tls"
        elif v["const"]:
            c = "Const"
        elif writes:
            c = ("MutableWritten", writes + escapes)
        elif escapes:
            c = ("AddressEscapes", escapes)
        else:
            c = "MutableNeverWritten"
        entries.append((k, v, c, us))

    # env writers' callers (one level above the functions that contain an env-writing site)
    WR = ("setenv", "putenv", "unsetenv", "clearenv", "_putenv_s", "PUTENV_S")
    libc_l = sorted(libc)
    writer_fns = sorted({l[2] for l in libc_l if l[0] in WR and not l[1].endswith(".h")})
    writer_callers = sorted({(c[2], c[0]) for c in calls if c[0] in writer_fns})

    escs = []
    for k, v, c, us in entries:
        if isinstance(c, tuple) and c[0] == "AddressEscapes":
            au = sorted(alias_uses.get(k, ()))
            callees = []
            for (_fn, _l, how) in au:
                m = re.match(r"(?:addr-)?arg\d+:(.+)$", how)
                if m and m.group(1) not in [x[0] for x in callees]:
                    s = fnsum.get(m.group(1))
                    callees.append((m.group(1), s[0] if s else -1, s[1] if s else -1))
            escs.append(dict(name=v["name"], file=v["file"], fn=v["fn"], direct=[u[1] for u in us if u[0] != "nouse"],
                             alias=[(l, how) for (_fn, l, how) in au],
                             fn_bytes=(fnsum.get(v["fn"]) or [-1, -1])[0], callees=callees))

    if want_json:
        json.dump({"entries": [dict(key=list(k), info={a: b for a, b in v.items() if a != "objs"}, nobj=len(v["objs"]),
                                    cls=c if isinstance(c, str) else c[0],
                                    sites=[] if isinstance(c, str) else [list(x) for x in c[1]]) for k, v, c, us in entries],
                   "libc": libc_l, "writer_callers": writer_callers, "asm_writable": asm_writable,
                   "asm_sections": asm_sections, "escapes": escs, "n_tus": len(jobs),
                   "foreign": {"/".join(k): sorted(v) for k, v in foreign.items()}}, sys.stdout, indent=1, default=list)
        return

    def site(u):
        return "mk_site %s %s %d %s" % (coq_str(u[2]), coq_str(u[3]), u[4] or 0, coq_str(u[1]))
    o = []
    o.append("(* GENERATED by tools/gen_Globals.py from the clang ASTs of %d library translation units and %d .asm files"
             " of the current tree -- do not edit *)" % (len(jobs), len(asm_jobs)))
    o.append("From Coq Require Import List ZArith String.\nFrom LJT Require Import model.Globals model.DestFlow.\nImport ListNotations.")
    o.append("Local Open Scope string_scope.\nLocal Open Scope Z_scope.\n")
    o.append("Definition n_translation_units : Z := %d." % len(jobs))
    o.append("Definition n_asm_files : Z := %d.\n" % len(asm_jobs))
    o.append("Definition inventory : list gvar := [")
    rows = []
    for k, v, c, us in entries:
        if isinstance(c, str):
            cs = c
        else:
            cs = "(%s [%s])" % (c[0], "; ".join(site(u) for u in c[1]))
        tus = sorted(set(os.path.basename(o[0]) + ".o" for o in v["objs"]))
        rows.append("  mk_gvar %s %s %s %s %s %d [%s] %s" % (coq_str(v["name"]), coq_str(v["file"]), coq_str(v["fn"]),
                                                             coq_str(v["link"]), coq_str(v["type"]), len(v["objs"]),
                                                             "; ".join(coq_str(t) for t in tus), cs))
    o.append(";\n".join(rows) + "\n].\n")
    o.append("(* functions writing the thread-local objects: (object, file, function, number of write sites) *)")
    o.append("Definition tls_writers : list (string * string * string * Z) := [")
    cnt = {}
    for k, v, c, us in entries:
        if c == "Tls":
            for u in us:
                if u[0] == "write":
                    cnt[(v["name"], u[2], u[3])] = cnt.get((v["name"], u[2], u[3]), 0) + 1
    rows = ["  (%s, %s, %s, %d)" % (coq_str(a), coq_str(b), coq_str(c_), n) for (a, b, c_), n in sorted(cnt.items())]
    o.append(";\n".join(rows) + "\n].\n")
    o.append("Definition libc_sites : list libc_site := [")
    o.append(";\n".join("  mk_libc %s %s %s %s %s" % tuple(coq_str(x) for x in l) for l in libc_l) + "\n].\n")
    o.append("(* (caller, callee) for every call of a function that contains an environment-writing site *)")
    o.append("Definition env_writer_callers : list (string * string) := [")
    o.append(";\n".join("  (%s, %s)" % (coq_str(a), coq_str(b)) for a, b in writer_callers) + "\n].\n")
    if not any(f[0] == "set_instance_error" for f in fieldw) or not any(f[1] == "isInstanceError" and f[2] == "0" for f in fieldw):
        die("src/turbojpeg.c: the per-instance error state (isInstanceError / errStr, set_instance_error) is no longer written the way the model assumes")
    o.append("(* writes of the per-instance error-state members of tjinstance: (function, member, value | dest:callee) *)")
    o.append("Definition errstate_writes : list (string * string * string) := [")
    o.append(";\n".join("  (%s, %s, %s)" % tuple(coq_str(x) for x in f) for f in sorted(fieldw)) + "\n].\n")
    o.append("(* callers of the functions that record a libjpeg-level message *)")
    o.append("Definition errstate_calls : list (string * string) := [")
    ec = sorted({(c[2], c[0]) for c in calls if c[0] in ("set_instance_error", "my_output_message") and c[2]})
    o.append(";\n".join("  (%s, %s)" % (coq_str(a), coq_str(b)) for a, b in ec) + "\n].\n")

    # ---- destination set before the first emit: structured call trees of the TurboJPEG functions that (transitively) emit
    EMIT0 = {"jpeg_start_compress", "jpeg_write_scanlines", "jpeg12_write_scanlines", "jpeg16_write_scanlines", "jpeg_write_raw_data",
             "jpeg12_write_raw_data", "jpeg_finish_compress", "jpeg_write_coefficients", "jpeg_write_marker", "jpeg_write_m_header",
             "jpeg_write_m_byte", "jpeg_write_icc_profile", "jpeg_write_tables", "jcopy_markers_execute"}
    DEST = "jpeg_mem_dest_tj"

    def calls_of(tr):
        if tr[0] == "call":
            return [tr[1]]
        if tr[0] == "loop":
            return calls_of(tr[1])
        return [c for x in tr[-1] for c in calls_of(x)]
    emitters = set(EMIT0)
    changed = True
    while changed:
        changed = False
        for f, (st, tr, asg) in trees.items():
            if f not in emitters and any(c in emitters for c in calls_of(tr)):
                emitters.add(f)
                changed = True
    if not any(c == DEST for f, (st, tr, asg) in trees.items() for c in calls_of(tr)):
        die("src/turbojpeg.c: no call of jpeg_mem_dest_tj found in the TurboJPEG translation unit")
    gids = {}

    def coq_tree(tr, asg):
        if tr[0] == "call":
            c = tr[1]
            if c == DEST:
                return "NCall 1"
            if c in EMIT0:
                return "NCall 2"
            if c in emitters:
                return "NCallF %s" % coq_str(c)
            return "NCall 0"
        if tr[0] == "loop":
            return "NLoop (%s)" % coq_tree(tr[1], asg)
        kids = [coq_tree(x, asg) for x in tr[-1]]
        if tr[0] == "if":
            g = 0
            if tr[1]:
                text, names = tr[1].split("##")
                if not (set(names.split(",")) & set(asg)):
                    g = gids.setdefault(text, len(gids) + 1)
            if all(k in ("NSeq []", "NCall 0") or k.startswith("NIf 0 []") for k in kids):
                return "NSeq []"
            return "NIf %d [%s]" % (g, "; ".join(kids))
        kids = [k for k in kids if k not in ("NSeq []", "NCall 0")]
        if len(kids) == 1:
            return kids[0]
        return "NSeq [%s]" % "; ".join(kids)
    # callees first
    order, seen = [], set()

    def visit_f(f):
        if f in seen or f not in trees:
            return
        seen.add(f)
        for c in calls_of(trees[f][1]):
            if c in emitters and c in trees:
                visit_f(c)
        order.append(f)
    for f in sorted(trees):
        if f in emitters:
            visit_f(f)
    o.append("(* structured call trees of the functions of src/turbojpeg.c (+ turbojpeg-mp.c) that can emit JPEG bytes, callees first *)")
    o.append("Definition emit_trees : list (string * node) := [")
    o.append(";\n".join("  (%s, %s)" % (coq_str(f), coq_tree(trees[f][1], trees[f][2])) for f in order) + "\n].\n")
    o.append("Definition emit_guards : list (Z * string) := [%s].\n" % "; ".join("(%d, %s)" % (v, coq_str(k)) for k, v in sorted(gids.items(), key=lambda x: x[1])))
    o.append("Definition escapes : list escape_info := [")
    rows = []
    for e in escs:
        rows.append("  mk_esc %s %s %s [%s] [%s] %s [%s]" % (
            coq_str(e["name"]), coq_str(e["file"]), coq_str(e["fn"]),
            "; ".join(coq_str(h) for h in e["direct"]),
            "; ".join("(%s, %s)" % (coq_str(a), coq_str(b)) for a, b in e["alias"]),
            ("(%d)" % e["fn_bytes"]),
            "; ".join("(%s, %s, %s)" % (coq_str(n), "(%d)" % a, "(%d)" % b) for n, a, b in e["callees"])))
    o.append(";\n".join(rows) + "\n].\n")
    o.append("(* labels / data directives of .asm files in a section other than SEG_TEXT / SEG_CONST (= .rodata for ELF) *)")
    o.append("Definition asm_writable_data : list (string * string * string) := [")
    o.append(";\n".join("  (%s, %s, %s)" % tuple(coq_str(x) for x in w) for w in asm_writable) + "\n].\n")
    o.append("Definition asm_sections : list (string * list string) := [")
    o.append(";\n".join("  (%s, [%s])" % (coq_str(f), "; ".join(coq_str(s) for s in ss)) for f, ss in sorted(asm_sections.items())) + "\n].")
    print("\n".join(o))


if __name__ == "__main__":
    main()
