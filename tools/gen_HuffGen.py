#!/usr/bin/env python3
"""Translator for C19 (jpeg_gen_optimal_table): the constants of the optimal
Huffman table generator, read from the CURRENT src/jchuff.c (argv[1] = repo
root) -> coq/gen/GenHuffGen.v on stdout.  Exits non-zero (with a message) when
a construct the model (coq/model/Huff.v) mirrors is gone.

  #define MAX_CLEN  <n>                         gen_MAX_CLEN
  UINT8 bits[MAX_CLEN + 1]; int bit_pos[MAX_CLEN + 1];   gen_BITS_EXTRA (= 1), UINT8 element type
  freq[256] = 1;                                gen_PSEUDO_SYM, gen_PSEUDO_COUNT
  v = <s>L; v2 = <s>L;                          gen_SENT  (both initialisers must agree)
  freq[c2] = <d>L;                              gen_DEAD
  if (codesize[i] > MAX_CLEN) ERREXIT(.., JERR_HUFF_CLEN_OVERFLOW)   strict test, same macro
  for (i = 1; i <= MAX_CLEN; i++) bit_pos...    bucket range 1..MAX_CLEN
  for (i = MAX_CLEN; i > <l>; i--)              gen_LIMIT_LEN
  memcpy(htbl->bits, bits, sizeof(htbl->bits))  (UINT8 bits[17] in jpeglib.h) gen_HTBL_BITS
"""
import re, sys

if len(sys.argv) < 2:
    sys.exit("usage: gen_HuffGen.py <repo root>")
repo = sys.argv[1]


def rd(p):
    try:
        return open(repo + "/" + p).read()
    except OSError as e:
        sys.exit("%s: cannot read (%s)" % (p, e))


def need(m, what):
    if not m:
        sys.exit("jchuff.c: " + what)
    return m


src = rd("src/jchuff.c")
m = need(re.search(r"\njpeg_gen_optimal_table\s*\(j_compress_ptr cinfo, JHUFF_TBL \*htbl, long freq\[\]\)\s*\{", src),
         "function jpeg_gen_optimal_table(j_compress_ptr, JHUFF_TBL *, long freq[]) not found")
i = m.end()
d = 1
while d and i < len(src):
    if src[i] == "{":
        d += 1
    elif src[i] == "}":
        d -= 1
    i += 1
raw = src[m.end():i - 1]
body = " ".join(re.sub(r"/\*.*?\*/", " ", raw, flags=re.S).split())

m = need(re.search(r"#define MAX_CLEN\s+(\d+)\b", raw), "'#define MAX_CLEN <n>' not found inside jpeg_gen_optimal_table")
max_clen = int(m.group(1))
if len(re.findall(r"#define MAX_CLEN\b", src)) != 1:
    sys.exit("jchuff.c: MAX_CLEN is defined more than once")

m = need(re.search(r"UINT8 bits\[MAX_CLEN \+ (\d+)\];", body), "'UINT8 bits[MAX_CLEN + 1]' not found")
bits_extra = int(m.group(1))
need(re.search(r"int bit_pos\[MAX_CLEN \+ %d\];" % bits_extra, body), "'int bit_pos[MAX_CLEN + 1]' not found")
need(re.search(r"int codesize\[257\];", body), "'int codesize[257]' not found")
need(re.search(r"long v, v2;", body), "'long v, v2' not found")

m = need(re.search(r"freq\[(\d+)\] = (\d+);", body), "'freq[256] = 1' (pseudo symbol) not found")
pseudo_sym, pseudo_count = int(m.group(1)), int(m.group(2))
need(re.search(r"for \(i = 0; i < %d; i\+\+\) \{ if \(freq\[i\]\) \{" % (pseudo_sym + 1), body),
     "grouping loop 'for (i = 0; i < 257; i++) { if (freq[i])' not found")

m = need(re.search(r"c1 = -1; c2 = -1; v = (\d+)L; v2 = (\d+)L;", body),
         "'c1 = -1; c2 = -1; v = <s>L; v2 = <s>L;' not found")
if m.group(1) != m.group(2):
    sys.exit("jchuff.c: v and v2 are initialised to different sentinels")
sent = int(m.group(1))
need(re.search(r"if \(freq\[i\] <= v2\) \{ if \(freq\[i\] <= v\) \{ c2 = c1; v2 = v; v = freq\[i\]; c1 = i; \} "
               r"else \{ v2 = freq\[i\]; c2 = i; \} \}", body),
     "two-smallest selection 'if (freq[i] <= v2) { if (freq[i] <= v) {...} else {...} }' not found")
need(re.search(r"if \(c2 < 0\) break;", body), "'if (c2 < 0) break;' not found")
m = need(re.search(r"freq\[c1\] \+= freq\[c2\]; freq\[c2\] = (\d+)L;", body),
         "'freq[c1] += freq[c2]; freq[c2] = <d>L;' not found")
dead = int(m.group(1))

need(re.search(r"if \(codesize\[i\] > MAX_CLEN\) ERREXIT\(cinfo, JERR_HUFF_CLEN_OVERFLOW\); bits\[codesize\[i\]\]\+\+;", body),
     "'if (codesize[i] > MAX_CLEN) ERREXIT(cinfo, JERR_HUFF_CLEN_OVERFLOW); bits[codesize[i]]++;' not found")
need(re.search(r"for \(i = 1; i <= MAX_CLEN; i\+\+\) \{ bit_pos\[i\] = p; p \+= bits\[i\]; \}", body),
     "'for (i = 1; i <= MAX_CLEN; i++) { bit_pos[i] = p; p += bits[i]; }' not found")
m = need(re.search(r"for \(i = MAX_CLEN; i > (\d+); i--\) \{ while \(bits\[i\] > 0\) \{ j = i - 2; while \(bits\[j\] == 0\) j--; "
                   r"bits\[i\] -= 2; bits\[i - 1\]\+\+; bits\[j \+ 1\] \+= 2; bits\[j\]--; \} \}", body),
         "length-limiting loop 'for (i = MAX_CLEN; i > 16; i--) { while (bits[i] > 0) {...} }' not found")
limit = int(m.group(1))
need(re.search(r"while \(bits\[i\] == 0\) i--; bits\[i\]--;", body), "'while (bits[i] == 0) i--; bits[i]--;' not found")
need(re.search(r"memcpy\(htbl->bits, bits, sizeof\(htbl->bits\)\);", body),
     "'memcpy(htbl->bits, bits, sizeof(htbl->bits))' not found")
need(re.search(r"for \(i = 0; i < num_nz_symbols - 1; i\+\+\) \{ htbl->huffval\[bit_pos\[codesize\[i\]\]\] = \(UINT8\)nz_index\[i\]; "
               r"bit_pos\[codesize\[i\]\]\+\+; \}", body),
     "huffval counting-sort loop not found")

lib = rd("src/jpeglib.h")
m = re.search(r"UINT8 bits\[(\d+)\];\s*/\* bits\[k\] = # of symbols with codes of", lib)
if not m:
    sys.exit("jpeglib.h: 'UINT8 bits[17]' of JHUFF_TBL not found")
htbl_bits = int(m.group(1))

print("(* GENERATED by tools/gen_HuffGen.py from src/jchuff.c (jpeg_gen_optimal_table) and src/jpeglib.h -- do not edit *)")
print("From Coq Require Import ZArith.\nLocal Open Scope Z_scope.\n")
print("Definition gen_MAX_CLEN : nat := %d.          (* #define MAX_CLEN *)" % max_clen)
print("Definition gen_BITS_LEN : nat := %d.          (* UINT8 bits[MAX_CLEN + %d] *)" % (max_clen + bits_extra, bits_extra))
print("Definition gen_LIMIT_LEN : nat := %d.         (* for (i = MAX_CLEN; i > %d; i--) *)" % (limit, limit))
print("Definition gen_PSEUDO_SYM : nat := %d.       (* freq[%d] = %d *)" % (pseudo_sym, pseudo_sym, pseudo_count))
print("Definition gen_PSEUDO_COUNT : Z := %d." % pseudo_count)
print("Definition gen_SENT : Z := %d.       (* v = v2 = %dL *)" % (sent, sent))
print("Definition gen_DEAD : Z := %d.       (* freq[c2] = %dL *)" % (dead, dead))
print("Definition gen_HTBL_BITS : nat := %d.         (* JHUFF_TBL.bits[%d] *)" % (htbl_bits, htbl_bits))
print("(* the overflow test is the strict 'codesize[i] > MAX_CLEN' on the same macro as the array bound *)")
print("Definition gen_clen_test_strict : bool := true.")
