#!/bin/bash
# Offline setup after a fresh restore: build the Coq development, the library
# flavours of /repo's working tree and nothing else.  Idempotent.
set -e
cd "$(dirname "$0")"
mkdir -p build evidence
# 1. translators -> coq/gen (from /repo as it is now)
for g in tools/gen_*.py; do
  n=$(basename $g .py); n=${n#gen_}
  python3 $g ${VERIF_REPO:-/repo} > coq/gen/Gen$n.v.tmp && mv coq/gen/Gen$n.v.tmp coq/gen/Gen$n.v || { rm -f coq/gen/Gen$n.v.tmp; echo "translator $g failed" >&2; }
done
# 2. Coq: full .vo build (never -vos)
python3 -c "import sys; sys.path.insert(0,'.'); from vlib import core; core.coq_project()"
( cd coq && timeout 3000 make -k -j16 2>&1 | tail -5 ) || true
# 3. library flavours
for f in simd plain asan; do tools/buildlib.sh $f >/dev/null; done
echo setup done
