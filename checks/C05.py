"""C05 -- SIMD and scalar code paths give bit-identical results.

1. translator   : gen_SimdConst (FIX()/SCALEBITS of the C colour files, F_* equ / PW_ PD_ rows of the
                  .asm kernels, rounding constants of jcsample/jdsample, DCT FIX_* vs F_*, jsimd.c gates,
                  per-file multiset of constant/immediate uses)
2. proofs       : coq/props/C05.v (constant agreement, rgb->ycc algebraic, ycc->rgb, merged, down/fancy
                  upsampling for every row length, quantiser for every divisor, gates)
3. kernel level : harness/c05.c `kernel` under JSIMD_FORCESSE2=1 and default (AVX2): every case is run
                  through the jsimd_* dispatcher AND the static C function of src/*.c (included into the
                  harness); explicit cases are also run through the extracted lane-wise model
                  (ml/C05_driver): model-asm = SIMD kernel and model-C = C function, line by line.
4. codec level  : harness/c05.c `codec` three times (JSIMD_FORCENONE=1, JSIMD_FORCESSE2=1, default):
                  JPEG bytes and decoded pixels must be identical -- the property-level oracle.
"""
import json
import os
from vlib import core
from vlib.core import sh2

SRCS = ["c05.c", "c05_k_ccolor.c", "c05_k_dcolor.c", "c05_k_dmerge.c", "c05_k_csample.c", "c05_k_dsample.c", "c05_k_quant.c", "c05_k_huff.c", "c05_k_phuff.c"]
ENVS = {"none": {"JSIMD_FORCENONE": "1"}, "sse2": {"JSIMD_FORCESSE2": "1"}, "avx2": {}}
CLEAN = {"JSIMD_FORCENONE": "", "JSIMD_FORCESSE2": "", "JSIMD_FORCEAVX2": "", "JSIMD_NOHUFFENC": ""}
# J_COLOR_SPACE values of the extended RGB layouts + JCS_RGB (= 2)
ALL_CS = [6, 7, 8, 9, 10, 11, 12, 13, 14, 15, 2]
SUBSAMP = ["444", "422", "420", "gray", "440", "411", "441"]
LOW_KINDS = (3, 4, 7, 8)
ROWCONST_KINDS = (9, 10)      # horizontal stripes, contrast >= 128, all channels equal: every block has constant rows           # uniform / low-contrast images: no 16-bit lane of the fast DCT can wrap


def runp(exe, mode, inp, envname, timeout=1700):
    # an empty value is "not 1" for init_simd(); removing the variable is cleaner still
    full = dict(os.environ)
    for k in CLEAN:
        full.pop(k, None)
    full.update(ENVS[envname])
    import subprocess
    try:
        p = subprocess.run([exe, mode], input=inp, env=full, stdout=subprocess.PIPE, stderr=subprocess.PIPE, timeout=timeout)
        return p.returncode, p.stdout.decode("latin-1").split("\n"), p.stderr.decode("utf-8", "replace")
    except subprocess.TimeoutExpired:
        return -9, [], "[timeout]"


# ----------------------------------------------------------------------------- kernel cases
def rb(rng, n, mode=0):
    if mode == 1:
        return [rng.choice([0, 1, 127, 128, 254, 255]) for _ in range(n)]
    if mode == 2:
        return [255 * ((i // rng.range(1, 3)) & 1) for i in range(n)]
    b = rng.bytes(n)
    return list(b)


def kernel_cases(ctx):
    rng = ctx.rng
    cases = []   # (line, stream)
    T = ctx.thorough()
    # colour, explicit (model compared): every layout, all offsets, widths over all residues mod 32
    for cs in ALL_CS:
        for rep in range(ctx.n(3, 12)):
            n = rng.range(1, 70)
            off = rng.below(32)
            px = rb(rng, 3 * n, rng.choice([0, 0, 1, 2]))
            cases.append(("rgbycc %d %d %d %s" % (cs, off, n, " ".join(map(str, px))), "k-rgbycc"))
            cases.append(("rgbgray %d %d %d %s" % (cs, off, n, " ".join(map(str, px))), "k-rgbgray"))
            cases.append(("yccrgb %d %d %d %s" % (cs, off, n, " ".join(map(str, px))), "k-yccrgb"))
            w = rng.range(1, 70)
            nc = (w + 1) // 2
            v2 = rng.below(3)           # 2 = both output rows alias (jpeg_skip_scanlines passes spare_row twice)
            cases.append(("merged %d %d %d %d | %s | %s | %s | %s" % (
                v2, cs, off, w, " ".join(map(str, rb(rng, w + 1))), " ".join(map(str, rb(rng, w + 1))),
                " ".join(map(str, rb(rng, nc, rng.choice([0, 1])))), " ".join(map(str, rb(rng, nc, rng.choice([0, 1]))))), "k-merged"))
    # boundary triples of the colour equations
    ext = [0, 1, 2, 127, 128, 129, 253, 254, 255]
    tri = [(a, b, c) for a in ext for b in ext for c in ext]
    for i in range(0, len(tri), 81):
        flat = " ".join("%d %d %d" % t for t in tri[i:i + 81])
        n = len(tri[i:i + 81])
        cases.append(("rgbycc 6 0 %d %s" % (n, flat), "k-rgbycc"))
        cases.append(("yccrgb 8 1 %d %s" % (n, flat), "k-yccrgb"))
    # sampling: all widths 1..100 (+ a few larger), model compared
    widths = list(range(1, 101)) + [127, 128, 129, 255, 256, 257]
    for w in widths:
        mode = rng.choice([0, 0, 1, 2])
        for v2 in (0, 1):
            iw = w
            wib = ((iw + 1) // 2 + 7) // 8 + (1 if rng.chance(1, 4) else 0)
            r0, r1 = rb(rng, iw, mode), rb(rng, iw, mode)
            cases.append(("down %d %d %d | %s | %s" % (v2, iw, wib, " ".join(map(str, r0)), " ".join(map(str, r1))), "k-down"))
            if w >= 3:
                nb = ((w + 31) // 32) * 32 + 32
                cases.append(("fancy %d %d | %s | %s | %s" % (v2, w, " ".join(map(str, rb(rng, nb, mode))),
                                                           " ".join(map(str, rb(rng, nb, mode))), " ".join(map(str, rb(rng, nb, mode)))), "k-fancy"))
    # quantiser: divisors of every magnitude class, model compared (incl. the gate divisors 1, 2 and INT16_MIN)
    divs = [1, 2, 3, 4, 5, 7, 8, 9, 15, 16, 17, 24, 128, 255, 256, 257, 799, 1024, 2040, 4095, 4096, 8191, 32767, 32768, 65534, 65535]
    divs += [rng.range(3, 2040) for _ in range(ctx.n(30, 300))] + [8 * rng.range(1, 255) for _ in range(ctx.n(30, 300))]
    for d in divs:
        xs = [0, 1, -1, d // 2, d // 2 - 1, d // 2 + 1, -(d // 2), d, -d, 32767, -32767, -32768, 16384, -16384]
        xs += [rng.range(-32767, 32767) for _ in range(40)] + [rng.range(-3 * d, 3 * d) for _ in range(10)]
        xs = [max(-32768, min(32767, x)) for x in xs][:64]
        cases.append(("quant %d %s" % (d, " ".join(map(str, xs))), "k-quant"))
    # whole row groups: max_v_samp_factor / v_samp_factor 1..4 rows per kernel call (model compared)
    for mv in (1, 2, 3, 4):
        for rep in range(ctx.n(3, 12)):
            w = rng.choice([3, 5, 16, 17, 31, 32, 33, 40, 65])
            nb = ((w + 31) // 32) * 32 + 32
            for v2 in (0, 1):
                nin = (mv + 1) // 2 if v2 else mv
                ow = rng.choice([2 * w, 2 * w - 1])
                cases.append(("plaing %d %d %d | %s" % (v2, ow, mv, " | ".join(" ".join(map(str, rb(rng, w))) for _ in range(nin))), "k-rows-plain"))
                cases.append(("fancyg %d %d %d | %s" % (v2, w, mv, " | ".join(" ".join(map(str, rb(rng, nb))) for _ in range(nin + 2))), "k-rows-fancy"))
                iw = rng.range(1, 70)
                wib = ((iw + 1) // 2 + 7) // 8
                nd = 2 * mv if v2 else mv
                cases.append(("downg %d %d %d %d | %s" % (v2, iw, wib, mv, " | ".join(" ".join(map(str, rb(rng, iw))) for _ in range(nd))), "k-rows-down"))
    # fast forward DCT: the refutation witness of props/C05.v (black/white stripes), high- and low-amplitude blocks
    stripes = [127 if ((x // 3 + y // 2) & 1) else -128 for y in range(8) for x in range(8)]
    cases.append(("fdctfst " + " ".join(map(str, stripes)), "k-fdctfst-high"))
    # blocks with constant rows (horizontal stripes of any contrast): proved never to need more than 14 bits
    for r in range(ctx.n(30, 300)):
        lv = [rng.choice([-128, 127]) if rng.chance(1, 2) else rng.range(-128, 127) for _ in range(8)]
        if r % 3 == 0:
            lv = [(127 if ((y // 2 + r) & 1) else -128) for y in range(8)]
        if r % 3 == 1:
            hi, lo = rng.range(64, 127), rng.range(-128, -64)
            lv = [hi if y in (0, 1, 6, 7) else lo for y in range(8)]
        cases.append(("fdctfst " + " ".join(str(lv[y]) for y in range(8) for x in range(8)), "k-fdctfst-rowconst"))
    for r in range(ctx.n(150, 1500)):
        amp = rng.choice([4, 16, 60, 128, 128, 128])
        kind = rng.below(3)
        if kind == 0:
            blk = [rng.range(-amp, amp - 1) for _ in range(64)]
        elif kind == 1:
            p, q = rng.range(1, 4), rng.range(1, 4)
            blk = [(amp - 1 if ((x // p + y // q) & 1) else -amp) for y in range(8) for x in range(8)]
        else:
            blk = [max(-128, min(127, (x * rng.range(-20, 20) + y * rng.range(-20, 20)) * amp // 128)) for y in range(8) for x in range(8)]
        cases.append(("fdctfst " + " ".join(map(str, blk)), "k-fdctfst-" + ("low" if amp <= 60 else "high")))
    # Huffman encoding of one block: boundary blocks (all zero, only the last coefficient, runs 15/16/17/31/32, maximal
    # magnitudes, all-ones codes producing many 0xFF bytes) x bit-buffer states (garbage above the pending bits)
    ZZ = [0, 1, 8, 16, 9, 2, 3, 10, 17, 24, 32, 25, 18, 11, 4, 5, 12, 19, 26, 33, 40, 48, 41, 34, 27, 20, 13, 6, 7, 14, 21, 28, 35, 42, 49, 56,
          57, 50, 43, 36, 29, 22, 15, 23, 30, 37, 44, 51, 58, 59, 52, 45, 38, 31, 39, 46, 53, 60, 61, 54, 47, 55, 62, 63]
    for r in range(ctx.n(240, 2400)):
        b = [0] * 64
        kind = r % 6
        if kind == 1:
            b[63] = rng.choice([1, -1, 1023, -1023])
        elif kind == 2:
            for _ in range(rng.range(1, 6)):
                b[rng.range(1, 63)] = rng.range(-1023, 1023) or 1
        elif kind == 3:
            b = [rng.range(-1023, 1023) for _ in range(64)]
        elif kind == 4:
            b = [rng.choice([-1023, 1023, -512, 511, -1, 1]) for _ in range(64)]
        elif kind == 5:
            pos = 1
            for run in rng.shuffle([15, 16, 17, 31, 32, 0, 1])[:3]:
                pos += run
                if pos < 64:
                    b[ZZ[pos]] = rng.range(1, 1023) * rng.choice([1, -1])
                    pos += 1
        b[0] = rng.range(-1023, 1023)
        fb = rng.choice([64, 64, 1, 2, 7, 8, 31, 32, 33, 63, rng.range(1, 64)])
        buf = rng.below(1 << 62) * 4 + rng.below(4)
        cases.append(("huff %d %d %d %d %d %s" % (rng.below(1000), 1 if r % 4 == 0 else 0, rng.range(-1023, 1023), buf, fb, " ".join(map(str, b))), "k-huff"))
    # range-limit table behind IDCT_range_limit(cinfo) vs the model's idct_range_limit
    cases.append(("rangelimit", "k-rangelimit"))
    # fast inverse DCT, boundary-aimed: DC only, one column, one row, sparse, dense; multiplier tables 4*q (IFAST_SCALE_BITS);
    # products near 32767, operands near 8192
    for r in range(ctx.n(160, 1600)):
        amp = rng.choice([3, 30, 200, 600, 1023])
        qm = rng.choice([1, 2, 8, 40, 255])
        shape = r % 6
        cf = [rng.range(-amp, amp) if rng.chance(1, 2) else 0 for _ in range(64)]
        if shape == 0:
            cf = [cf[0] or 1] + [0] * 63
        elif shape == 1:
            cf = cf[:8] + [0] * 56
        elif shape == 2:
            cf = [cf[i] if i % 8 == 0 else 0 for i in range(64)]
        elif shape == 3:
            cf = [cf[i] if (i % 8) + (i // 8) < 3 else 0 for i in range(64)]
        q = [min(32767, 4 * rng.range(1, qm)) for _ in range(64)]
        if r % 11 == 0:       # DC product right at the int16 / final-range boundaries
            cf[0] = rng.choice([8191, 8192, 4095, 4096, -4096, -4097, 32767, -32768]) // q[0]
        cases.append(("idctfst %s | %s" % (" ".join(map(str, cf)), " ".join(map(str, q))), "k-idctfst"))
    # accurate inverse DCT (lane model compared, boundary predicate evaluated; no equality theorem yet)
    for r in range(ctx.n(120, 1200)):
        amp = rng.choice([3, 30, 200, 1023])
        qm = rng.choice([1, 2, 8, 40, 255])
        cf = [rng.range(-amp, amp) if rng.chance(1, 2) else 0 for _ in range(64)]
        shape = r % 5
        if shape == 0:
            cf = [cf[0] or 1] + [0] * 63
        elif shape == 1:
            cf = cf[:8] + [0] * 56
        elif shape == 2:
            cf = [cf[i] if i % 8 == 0 else 0 for i in range(64)]
        elif shape == 3:
            cf = [cf[i] if (i % 8) + (i // 8) < 3 else 0 for i in range(64)]
        q = [rng.range(1, qm) for _ in range(64)]
        cases.append(("idctint %s | %s" % (" ".join(map(str, cf)), " ".join(map(str, q))), "k-idctint"))
        # the same blocks through the 2x2 reduced-size IDCT (lane model + C05_idct_2x2_eq_partial; W flag = outside c2_ok)
        cases.append(("idct2x2 %s | %s" % (" ".join(map(str, cf)), " ".join(map(str, q))), "k-idct2x2"))
    # zero-AC shortcuts: blocks whose only non-zero AC coefficients lie in ONE row r / ONE column c, every r, c in 1..7 (and
    # DC only), for the accurate, fast and reduced-size IDCTs under SSE2, AVX2 and C
    for cmd, qscale in (("idctint", 1), ("idctfst", 4), ("idct4x4", 1), ("idct2x2", 1)):
        for line_kind in ("row", "col"):
            for idx in range(0, 8):
                for rep in range(ctx.n(2, 6)):
                    cf = [0] * 64
                    cf[0] = rng.range(-200, 200)
                    cells = [idx * 8 + j for j in range(8)] if line_kind == "row" else [j * 8 + idx for j in range(8)]
                    picks = cells if rep == 0 else rng.shuffle(cells)[:rng.range(1, 3)]
                    for cpos in picks:
                        if cpos != 0:
                            cf[cpos] = rng.choice([1, -1, 3, rng.range(-60, 60) or 2])
                    q = [qscale * rng.range(1, 12) for _ in range(64)]
                    cases.append(("%s %s | %s" % (cmd, " ".join(map(str, cf)), " ".join(map(str, q))), "k-%s-one-%s" % (cmd, line_kind)))
    # accurate forward DCT on level-shifted samples (always inside the proved boundary) and on 16-bit garbage (model only)
    for r in range(ctx.n(120, 1200)):
        amp = 128 if r % 8 else rng.choice([2000, 8000, 32767])
        kind = r % 4
        if kind == 0:
            blk = [rng.range(-amp, amp - 1) for _ in range(64)]
        elif kind == 1:
            p_, q_ = rng.range(1, 4), rng.range(1, 4)
            blk = [(amp - 1 if ((x // p_ + y // q_) & 1) else -amp) for y in range(8) for x in range(8)]
        elif kind == 2:
            blk = [rng.choice([-amp, amp - 1]) for _ in range(64)]
        else:
            blk = [rng.choice([-amp, amp - 1])] * 64
        cases.append(("fdctint %s | %s" % (" ".join(map(str, blk)), " ".join(["1"] * 64)), "k-fdctint-" + ("samples" if amp == 128 else "garbage")))
    # bulk (compared inside the harness; exhaustive where feasible)
    seed = rng.below(1 << 30)
    for cs in ALL_CS:
        offs = [0, rng.range(1, 31)] if not T else [0, 1, 3, 16, 17, 31]
        for off in offs:
            cases.append(("bulk yccrgb %d %d %d" % (cs, off, seed), "k-bulk-yccrgb"))
            cases.append(("bulk rgbycc %d %d %d" % (cs, off, seed), "k-bulk-rgbycc"))
            cases.append(("bulk rgbgray %d %d %d" % (cs, off, seed), "k-bulk-rgbgray"))
        cases.append(("bulk colourw %d 0 %d" % (cs, seed), "k-bulk-colourw"))
        cases.append(("bulk merged %d 0 %d" % (cs, seed), "k-bulk-merged"))
        cases.append(("bulk merged %d 1 %d" % (cs, seed), "k-bulk-merged"))
        cases.append(("bulk merged %d 2 %d" % (cs, seed), "k-bulk-merged-aliased"))
    for v2 in (0, 1):
        for r in range(ctx.n(1, 8)):
            cases.append(("bulk down %d 0 %d" % (v2, seed + r), "k-bulk-down"))
            cases.append(("bulk fancy %d 0 %d" % (v2, seed + r), "k-bulk-fancy"))
            cases.append(("bulk plain %d 0 %d" % (v2, seed + r), "k-bulk-plain"))
    for r in range(ctx.n(1, 6)):
        for v2 in (0, 1):
            cases.append(("bulk rowsup 0 %d %d" % (v2, seed + r), "k-bulk-rows-plain"))
            cases.append(("bulk rowsup 1 %d %d" % (v2, seed + r), "k-bulk-rows-fancy"))
            cases.append(("bulk rowsdown %d 0 %d" % (v2, seed + r), "k-bulk-rows-down"))
    for cs in ALL_CS:
        cases.append(("bulk rowscolour %d 0 %d" % (cs, seed), "k-bulk-rows-colour"))
    if T:
        for lo in range(1, 2041, 120):      # every int16 coefficient x every divisor 1..255*8
            cases.append(("bulk quant %d %d 1" % (lo, min(2040, lo + 119)), "k-bulk-quant"))
        cases.append(("bulk quant 2041 65535 997", "k-bulk-quant"))
    else:
        cases.append(("bulk quant 1 2040 37", "k-bulk-quant"))
        cases.append(("bulk quant %d %d 1" % (8 * rng.range(1, 250), 8 * rng.range(1, 250) + 12), "k-bulk-quant"))
        cases.append(("bulk quant 2041 65535 9973", "k-bulk-quant"))
    cases.append(("bulk convsamp 0 0 %d" % seed, "k-bulk-convsamp"))
    for r in range(ctx.n(1, 6)):
        cases.append(("bulk phuff 0 0 %d" % (seed + r), "k-bulk-phuff-first"))
        cases.append(("bulk phuff 1 0 %d" % (seed + r), "k-bulk-phuff-refine"))
    for r in range(ctx.n(1, 10)):
        cases.append(("bulk fdct 0 0 %d" % (seed + r), "k-bulk-fdct-islow"))
        cases.append(("bulk fdct 1 1 %d" % (seed + r), "k-bulk-fdct-ifast-low"))
        cases.append(("bulk fdct 1 2 %d" % (seed + r), "k-bulk-fdct-ifast-constrows"))
        cases.append(("bulk idct 1 3 %d" % (seed + r), "k-bulk-idct-ifast-constrows"))
        for a in (0, 2, 3):
            cases.append(("bulk idct %d 0 %d" % (a, seed + r), "k-bulk-idct"))
        cases.append(("bulk idct 1 2 %d" % (seed + r), "k-bulk-idct-ifast-low"))
        cases.append(("bulk idct 1 0 %d" % (seed + r), "k-bulk-idct-ifast-full"))
    return cases


def huff_stream(line, part):
    """what a huff result means as a bit string: bytes with the stuffed zeros removed + the pending bits of the bit
    buffer (the SIMD writer flushes at free_bits == 0, the C writer one put later: same stream, different state)"""
    t = line.split()
    fb0 = int(t[5])
    bytes_s, st = part.split(";")
    bs = [int(x) for x in bytes_s.split()]
    out, i = [], 0
    while i < len(bs):
        out.append(bs[i])
        i += 2 if bs[i] == 255 else 1
    buf, fb = (int(x) for x in st.split())
    n = 64 - fb
    pend = buf & ((1 << n) - 1) if n > 0 else 0
    # the bits that were already pending before the call come out first: they are part of both streams alike
    v = 0
    for b in out:
        v = (v << 8) | b
    return (8 * len(out) + n, (v << n) | pend)       # the stream as (bit length, value): flush timing does not matter


def quant_mask(line, part):
    """the part of a quant result that must agree between SIMD and C: coefficients other than
    INT16_MIN, and only when compute_reciprocal returned 1 (otherwise the library never uses SIMD)"""
    xs = line.split()[2:]
    hdr, vals = part.split(":")
    ret = hdr.split()[0]
    if ret == "0":
        return hdr
    v = vals.split()
    return hdr + ":" + " ".join(v[i] for i in range(len(v)) if i < len(xs) and xs[i] != "-32768")


def kernel_sig(line, stream):
    t = line.split()
    if t[0] == "bulk":
        if t[1] == "idct" and t[2] == "1" and t[3] == "0":
            return "ifast-operand-ge-8192:kernel-idct-noise-and-edge-blocks"
        if t[1] == "rowsup":
            return "kernel:rows-%s-h2v%s" % ("fancy" if t[2] == "1" else "plain", "2" if t[3] == "1" else "1")
        if t[1] == "rowsdown":
            return "kernel:rows-down-h2v%s" % ("2" if t[2] == "1" else "1")
        return "kernel:" + "-".join(t[1:3] if t[1] in ("fdct", "idct", "down", "fancy", "plain") else t[1:2])
    if t[0] in ("plaing", "fancyg", "downg"):
        return "kernel:rows-%s-h2v%s" % (t[0][:-1], "2" if t[1] == "1" else "1")
    if t[0] == "idctfst":
        if stream.endswith(":W0"):
            return "kernel:idctfst:inside-proved-boundary"
        cf = [int(x) for x in line.split("|")[0].split()[1:]]
        qq = [int(x) for x in line.split("|")[1].split()]
        if any(abs(a * b) >= 32768 for a, b in zip(cf, qq)):
            return "idct-out-of-range-coefficients:kernel-ifast"
        return "ifast-operand-ge-8192:kernel-idct"
    if t[0] == "idct2x2":
        return "kernel:idct2x2:inside-proved-boundary" if stream.endswith(":W0") else "idct-out-of-range-coefficients:kernel-2x2"
    if t[0] == "idct4x4":
        return "kernel:" + t[0]
    if t[0] == "idctint":
        return "kernel:idctint:inside-boundary" if stream.endswith(":W0") else "idct-out-of-range-coefficients:kernel-islow"
    if t[0] == "fdctint":
        return "kernel:fdctint:" + ("inside-proved-boundary" if stream.endswith(":W0") else "16-bit-garbage-input")
    if t[0] == "fdctfst":
        # stream carries the prediction of the faithful C model (c_wraps14, 2-bit pre-shift): W1 = some multiply
        # operand leaves [-8192, 8191]
        return "ifast-operand-ge-8192:kernel-fdct" if stream.endswith(":W1") else "kernel:fdctfst:no-operand-ge-8192"
    return "kernel:" + t[0]


def do_kernel(ctx, exe, drv, cases, isas):
    inp = ("\n".join(c[0] for c in cases) + "\n").encode()
    for isa in isas:
        rc, out, err = runp(exe, "kernel", inp, isa)
        if rc != 0 or len(out) < len(cases) + 1:
            idx = max(0, len(out) - 2)
            ctx.violation("kernel harness crashed under %s (rc=%d) at case %d: %s" % (isa, rc, idx, err[-300:]),
                          {"mode": "kernel", "isa": isa, "case": cases[min(idx, len(cases) - 1)][0][:4000]}, signature="kernel-crash:" + isa)
            continue
        banner, lines = out[0], out[1:]
        if " rgb_ycc=1 " not in banner + " " or "idct=1" not in banner:
            ctx.broken_tie("simd-not-active", "the jsimd gates report no SIMD under %s: %s" % (isa, banner))
        ml = None
        if drv:
            minp = ("\n".join(c[0] if not c[0].startswith("bulk") else "bulk" for c in cases) + "\n").encode()
            rc2, mo, me = sh2([drv, isa], input=minp, timeout=1700)
            ml = mo.decode().split("\n")
            if rc2 != 0 or len(ml) < len(cases):
                ctx.broken_tie("model-driver", "extracted model failed under %s: rc=%d %s" % (isa, rc2, me[-200:]))
                ml = None
        nmodel = 0
        ndis = {}
        for i, (line, stream) in enumerate(cases):
            res = lines[i]
            wflag = ""
            if ml is not None and line.split(" ", 1)[0] in ("fdctfst", "idctfst", "fdctint", "idctint", "idct2x2") and " ; W" in ml[i]:
                ml[i], wflag = ml[i].rsplit(" ; ", 1)
            elif line.split(" ", 1)[0] in ("fdctfst", "idctfst", "fdctint", "idctint", "idct2x2"):
                wflag = "W1"            # no model available: do not claim more than the known finding
            parts = (res if line.startswith("huff ") else res.split(" ; ")[0]).split(" | ")
            if len(parts) != 2 or not parts[0].startswith("S") or not parts[1].startswith("C"):
                ctx.broken_tie("harness-protocol", "unexpected result line for %s: %s" % (line[:80], res[:120]))
                continue
            s, c = parts[0][1:].strip(), parts[1][1:].strip()
            cmd = line.split()[0]
            if cmd == "quant":
                ok = quant_mask(line, s) == quant_mask(line, c)
            elif cmd == "huff":
                ok = huff_stream(line, s) == huff_stream(line, c)
            else:
                ok = (s == c)
            if not ok and cmd == "fdctint" and wflag == "W1" and stream.endswith("garbage"):
                ok = True       # 16-bit garbage is not a forward-DCT input the codec can produce; model comparison only
            if not ok:
                detail = res.split(" ; first_diff ")[1] if " ; first_diff " in res else "simd=%s c=%s" % (s[:120], c[:120])
                ctx.violation("kernel level: %s differs from the C function under %s: %s" % (cmd if cmd != "bulk" else line, isa, detail[:300]),
                              {"mode": "kernel", "isa": isa, "case": line[:6000], "result": res[:2000]},
                              signature=kernel_sig(line, stream + ":" + wflag))
            if ml is not None and cmd not in ("bulk", "idct4x4"):     # 4x4 reduced IDCT: no lane model yet (2x2 is modelled + proved)
                nmodel += 1
                if ml[i].strip() != res.strip():
                    ndis[(cmd, isa)] = ndis.get((cmd, isa), 0) + 1
                    if ndis[(cmd, isa)] > 3:
                        continue
                    ctx.log("model/impl disagree (%s, %s)\n  case : %s\n  model: %s\n  impl : %s" % (isa, cmd, line[:150], ml[i][:200], res[:200]))
                    # which side? model-asm vs SIMD kernel, model-C vs C function
                    mp = ml[i].split(" | ")
                    side = []
                    if len(mp) == 2:
                        if mp[0][1:].strip() != s:
                            side.append("asm-model != SIMD kernel")
                        if mp[1][1:].strip() != c:
                            side.append("C-model != C function")
                    ctx.broken_tie("correspondence:%s:%s" % (cmd, isa), "%s on: %s || model=%s || impl=%s" % (
                        ", ".join(side) or "format", line[:300], ml[i][:200], res[:200]))
            if wflag == "W0" and not ok:
                pass    # already reported above with the no-operand-ge-8192 signature (a NEW violation)
            ctx.count(stream + ":" + isa + (":" + wflag if wflag else ""), 1, (stream, res[:80]))
            if i % 499 == 0:
                ctx.sample({"isa": isa, "case": line[:200], "result": res[:200]})
        ctx.cov["traces_validated_against_impl"] += nmodel
        ctx.cov["model_impl_disagreements"] = ctx.cov.get("model_impl_disagreements", 0) + sum(ndis.values())


# ----------------------------------------------------------------------------- codec cases
def codec_cases(ctx):
    rng = ctx.rng
    cases = []
    heights = [1, 2, 3, 8, 15, 16, 17, 33]
    quals = [1, 50, 97, 98, 100]

    def one(w, h, ss):
        pf = rng.below(12)
        if pf == 6:
            ss = 3                      # TJPF_GRAY needs TJSAMP_GRAY
        q = rng.choice(quals)
        flags = rng.below(32)
        if rng.chance(1, 2):
            flags &= ~8                 # arithmetic coding has no SIMD at all: keep it the minority
        kind = rng.choice([0, 1, 2, 3, 4, 5, 6, 7, 8, 7, 8, 0, 1, 9, 10, 9])
        return "e %d %d %d %d %d %d %d %d %d" % (w, h, ss, pf, q, flags, kind, rng.below(1 << 40), rng.below(32))
    for w in range(1, 131):
        for ss in range(7):
            cases.append(one(w, rng.choice(heights), ss))
    for _ in range(ctx.n(600, 120000)):
        cases.append(one(rng.range(1, 130) if rng.chance(9, 10) else rng.range(131, 700), rng.choice(heights), rng.below(7)))
    for h in heights:
        for ss in range(7):
            cases.append(one(rng.range(1, 130), h, ss))
    # libjpeg API, explicit (incl. non-standard) sampling factors: components with 2..4 rows per row group, h2v1 with
    # v_samp 2/3, h1v2, 4x1, 4x2, mixed; decoded with fancy and with plain upsampling
    SETS = [(3, (2, 2, 1, 2, 1, 2)), (3, (2, 2, 2, 1, 2, 1)), (3, (2, 2, 1, 1, 1, 1)), (3, (2, 1, 1, 1, 1, 1)), (3, (1, 2, 1, 1, 1, 1)),
            (3, (4, 2, 1, 1, 1, 1)), (3, (4, 2, 2, 1, 2, 1)), (3, (4, 1, 2, 1, 2, 1)), (3, (4, 1, 1, 1, 1, 1)), (3, (1, 4, 1, 2, 1, 2)),
            (3, (1, 4, 1, 1, 1, 1)), (3, (2, 4, 1, 1, 1, 1)), (3, (2, 2, 1, 2, 1, 1)), (3, (2, 2, 2, 1, 1, 2)), (3, (4, 2, 2, 2, 1, 1)),
            (3, (2, 2, 2, 2, 1, 1)), (3, (1, 1, 1, 1, 1, 1)), (3, (3, 1, 1, 1, 1, 1)), (3, (1, 3, 1, 1, 1, 1)), (3, (3, 2, 1, 1, 1, 1)),
            (2, (2, 3, 1, 3)), (2, (2, 4, 1, 4)), (2, (2, 2, 1, 2)), (2, (4, 2, 2, 2)), (2, (2, 4, 1, 2)), (2, (2, 1, 1, 1)), (1, (1, 1))]
    for rep in range(ctx.n(3, 60)):
        for nc, hv in SETS:
            w = rng.choice([rng.range(1, 130), rng.range(30, 80), 70])
            h = rng.choice([1, 2, 3, 8, 15, 16, 17, 33, 37, 37])
            fast = 1 if rng.chance(1, 5) else 0
            kind = rng.choice([0, 1, 5, 6, 7, 8, 9]) if not fast else rng.choice([7, 8, 9, 10])
            cases.append("j %d %d %d %d %d %d %d %s" % (w, h, rng.choice([50, 75, 90, 100]), fast, kind, rng.below(1 << 40), nc, " ".join(map(str, hv))))
    # decompression histories with jpeg_skip_scanlines / jpeg_crop_scanline: skip counts 1..5 from even and odd lines,
    # merged (fancy=0, 2x1 / 2x2) and separate upsampling, all subsamplings; the rows delivered must not depend on the level
    HSETS = [(1, 1, 1, 1, 1, 1), (2, 1, 1, 1, 1, 1), (2, 2, 1, 1, 1, 1), (1, 2, 1, 1, 1, 1), (4, 1, 1, 1, 1, 1), (2, 2, 1, 2, 1, 2), (2, 2, 2, 1, 2, 1), (4, 2, 1, 1, 1, 1)]
    for rep in range(ctx.n(3, 40)):
        for hv in HSETS:
            for fancy in (0, 1):
                w, h = rng.range(17, 90), rng.range(20, 60)
                ops = []
                first = rng.below(4)
                if first:
                    ops.append("r%d" % first)
                for _ in range(rng.range(1, 4)):
                    ops.append("s%d" % rng.range(1, 5))
                    ops.append("r%d" % rng.range(1, 3))
                crop = rng.chance(1, 3)
                cx, cw = (rng.below(w), rng.range(1, w)) if crop else (0, 0)
                if crop and cx + cw > w:
                    cw = w - cx
                cases.append("s %d %d %d %d %d %d %d %d %d %s | %s" % (w, h, rng.choice([50, 90]), fancy, rng.choice([0, 1, 6]), rng.below(1 << 40),
                                                                   rng.choice([2, 9, 12, 6]), cx, cw, " ".join(map(str, hv)), " ".join(ops)))
    # the histories of seeded/C05-5: 4:2:0 merged, discard phase ending on the first line of a pair
    for ops in ("s3", "r2 s5", "r1 s4", "s1", "r3 s2 r1 s3"):
        cases.append("s 48 40 90 0 1 %d 2 0 0 2 2 1 1 1 1 | %s" % (rng.below(1 << 30), ops))
    # legal JPEGs with dequantised coefficients outside the range of a real encoder
    for qp in ([8, 255] if not ctx.thorough() else [2, 8, 32, 255]):
        cases.append("p %d %d %d %d %d %d" % (rng.range(24, 80), rng.range(16, 40), rng.below(3), rng.choice([0, 2, 5]), rng.below(1 << 30), qp))
    return cases


def codec_class(line, tok):
    """(signature, description) of a mismatch in token tok of case line"""
    t = line.split()
    if t[0] == "p":
        return "idct-out-of-range-coefficients:" + ("ifast" if tok.startswith("x1") else "islow"), "patched-DQT"
    if t[0] == "s":
        if tok.startswith("enc"):
            return "codec:history:enc", ""
        return "codec:history:%s:%s" % ("fancy" if t[4] == "1" else "merged-or-plain", "crop" if t[9] != "0" else "skip"), ""
    if t[0] == "j":
        fast, kind = int(t[4]), int(t[5])
        if fast and kind not in LOW_KINDS + ROWCONST_KINDS:
            return "ifast-operand-ge-8192:codec-libjpeg-noise-and-edge-images", "fast DCT, image with vertical/2-D high-contrast structure"
        if tok.startswith("enc"):
            return "codec:libjpeg:enc", ""
        return "codec:libjpeg:dec:" + ("fancy" if tok.startswith("f1") else "plain"), ""
    w, h, ss, pf, q, flags, kind = (int(x) for x in t[1:8])
    low = (kind in LOW_KINDS and q >= 50) or kind in ROWCONST_KINDS
    fast_enc = flags & 1
    if tok.startswith("enc"):
        if fast_enc and not low:
            return "ifast-operand-ge-8192:codec-enc-noise-and-edge-images", "fast DCT, image with vertical/2-D high-contrast structure"
        return "codec:enc:" + ("ifast-%s" % ("constant-rows" if kind in ROWCONST_KINDS else "lowcontrast") if fast_enc else "islow"), ""
    if tok.startswith("yuv"):
        return "codec:dec:yuv", ""
    f = tok.split(":")
    fastup, fastdct = f[2][0], f[2][1]
    if fastdct == "1" and not low:
        return "ifast-operand-ge-8192:codec-dec-noise-and-edge-images", "fast IDCT, image with vertical/2-D high-contrast structure"
    up = "fancy" if fastup == "0" else "merged-or-plain"
    return "codec:dec:%s:%s:scale%s" % ("ifast-lowcontrast" if fastdct == "1" else "islow", up, "1" if f[3] == "1/1" else "N"), ""


def describe(line):
    t = line.split()
    if t[0] == "p":
        return "legal JPEG with all quantisation values patched to %s (image %sx%s, %s)" % (t[6], t[1], t[2], SUBSAMP[int(t[3])])
    if t[0] == "s":
        hv = t[10:16]
        return "libjpeg API history: width=%s height=%s quality=%s %s upsampling out_color_space=%s crop=%s sampling factors=%s ops=[%s] (rN read N lines, sN jpeg_skip_scanlines(N))" % (
            t[1], t[2], t[3], "fancy" if t[4] == "1" else "merged/plain", t[7], ("x%s+%s" % (t[8], t[9])) if t[9] != "0" else "none",
            ",".join("%sx%s" % (hv[2 * i], hv[2 * i + 1]) for i in range(3)), line.split("|")[1].strip())
    if t[0] == "j":
        nc = int(t[7])
        hv = t[8:8 + 2 * nc]
        return "libjpeg API: width=%s height=%s quality=%s dct=%s image-kind=%s components=%d sampling factors=%s" % (
            t[1], t[2], t[3], "ifast" if t[4] == "1" else "islow", t[5], nc, ",".join("%sx%s" % (hv[2 * i], hv[2 * i + 1]) for i in range(nc)))
    w, h, ss, pf, q, flags, kind = (int(x) for x in t[1:8])
    fl = [n for b, n in ((1, "fastdct"), (2, "progressive"), (4, "optimize"), (8, "arithmetic"), (16, "restart")) if flags & b]
    return "width=%d height=%d subsamp=%s pixel-format=%d quality=%d flags=%s image-kind=%d src-offset=%s" % (
        w, h, SUBSAMP[ss], pf, q, "+".join(fl) or "none", kind, t[9])


def do_codec(ctx, exe, cases):
    inp = ("\n".join(cases) + "\n").encode()
    outs = {}
    for name in ("none", "sse2", "avx2"):
        rc, out, err = runp(exe, "codec", inp, name)
        if rc != 0 or len(out) < len(cases):
            idx = max(0, len(out) - 1)
            ctx.violation("codec harness crashed under %s (rc=%d) at case %d: %s" % (name, rc, idx, err[-300:]),
                          {"mode": "codec", "env": name, "case": cases[min(idx, len(cases) - 1)]}, signature="codec-crash:" + name)
            out += ["<no output>"] * (len(cases) - len(out))
        outs[name] = out
    ref = outs["none"]
    for i, line in enumerate(cases):
        a = ref[i].split()
        for name in ("sse2", "avx2"):
            b = outs[name][i].split()
            if a == b:
                continue
            enc_same = a[:3] == b[:3]
            if enc_same and len(a) != len(b):
                ctx.violation("codec: different behaviour (none vs %s): %s" % (name, describe(line)),
                              {"mode": "codec", "case": line, "none": ref[i], name: outs[name][i]}, signature="codec:shape")
                continue
            if not enc_same:
                sig, why = codec_class(line, "enc")
                ctx.violation("codec: compressed bytes differ between JSIMD_FORCENONE and %s (%s vs %s bytes) for %s %s" % (
                    name, a[1], b[1], describe(line), why), {"mode": "codec", "case": line, "none": ref[i], name: outs[name][i]}, signature=sig)
                continue
            for ta, tb in zip(a[3:], b[3:]):
                if ta != tb:
                    sig, why = codec_class(line, ta)
                    if line.startswith("s ") and not a[-1].endswith(":0") and a[-1].startswith("warnings:"):
                        # the skip lost entropy-decoder sync (C08 finding): the blocks decoded afterwards hold garbage
                        # coefficients, i.e. the out-of-range-coefficient finding, not a new SIMD difference
                        sig, why = "idct-out-of-range-coefficients:history-after-corrupt-data-warning", "after a corrupt-data warning"
                    ctx.violation("codec: decoded pixels differ between JSIMD_FORCENONE and %s in configuration %s (e-cases: index:pf:fastupsample,fastdct:scale; j-cases: f1 fancy / f0 plain upsampling) for %s %s" % (
                        name, ta.rsplit(":", 1)[0], describe(line), why),
                        {"mode": "codec", "case": line, "token": ta.rsplit(":", 1)[0], "none": ref[i], name: outs[name][i]}, signature=sig)
        t = line.split()
        ctx.count("codec-" + (SUBSAMP[int(t[3])] if t[0] == "e" else "libjpeg-factors" if t[0] == "j" else "history-skip-crop" if t[0] == "s" else "patched"), 1, ref[i][:60])
        if i % 977 == 0:
            ctx.sample({"case": line, "none": ref[i][:160]})


def run_check(ctx):
    ctx.regen(["SimdConst"])
    ctx.prove()
    drv = ctx.model_driver()
    exe = ctx.cc("c05", SRCS, "simd", libs=("turbojpeg",))
    if ctx.replay:
        r = json.load(open(ctx.replay))
        if r.get("mode") == "kernel":
            do_kernel(ctx, exe, drv, [(r["case"], "replay")], [r.get("isa", "avx2")])
        elif r.get("mode") == "codec":
            do_codec(ctx, exe, [r["case"]])
        return
    kc = kernel_cases(ctx)
    ctx.log("kernel level: %d cases x {sse2, avx2}" % len(kc))
    do_kernel(ctx, exe, drv, kc, ["sse2", "avx2"])
    cc = codec_cases(ctx)
    ctx.log("codec level: %d cases x {none, sse2, avx2}" % len(cc))
    do_codec(ctx, exe, cc)


def run(ctx):
    run_check(ctx)
    ctx.cov["rule"] = ("kernel level: jsimd_* dispatcher (SSE2 and AVX2) vs the static C function on explicit rows/pixels (also run through the "
                       "extracted model) and on in-harness sweeps: all 65536 (Cb,Cr) x 16 Y per layout, widths 1..100 x offsets 0..31, "
                       "image widths 1..300 for the sample kernels, every int16 coefficient x divisors 1..2040 (thorough: exhaustive), "
                       "FDCT/IDCT on encoder-reachable blocks; codec level: every width 1..130 x 7 subsamplings + random "
                       "(heights {1,2,3,8,15,16,17,33}, 12 pixel formats, quality {1,50,97,98,100}, fast/accurate DCT, progressive/optimize/"
                       "arithmetic/restart, fancy/merged/plain upsampling, 10 scaling factors, buffer offsets 0..31) under "
                       "JSIMD_FORCENONE / JSIMD_FORCESSE2 / default; a case is distinct when its result line is")
    ctx.assume += ["x86 instruction semantics (lib/Words.v) and the hand transcription of the .asm dataflow (model/Simd*.v) are trusted; "
                   "every explicit kernel case compares the transcription with the real kernel",
                   "the proofs cover colour conversion, h2v1/h2v2 down/fancy-upsampling, merged upsampling (per pixel), quantisation, "
                   "convsamp; DCT/IDCT kernels, Huffman encoding and the pixel (de)interleaving shuffles are covered by the "
                   "kernel/codec comparison only",
                   "quantiser theorem excludes the coefficient -32768 (not producible by the forward DCT of 8-bit samples)"]
    ctx.trusted.append("range_limit[] modelled as clamp to 0..255 on the index range the colour converters use")
