"""C17 -- the compressor never crashes or emits bad output for any parameter combination.

1. translator : gen_Params (limits of jpeglib.h/jmorecfg.h, BUFSIZE / coefficient-range rule of
                jchuff.c + jcphuff.c, validate_script statement forms, the tj3Set switch, presence of the
                F3/F12/F13/F14 fixes)
2. proofs     : coq/props/C17.v (model/CParams.v, proofs/CParams*.v)
3. correspondence: extracted model (ml/C17_driver) vs harness/c17.c (real jpeg_start_compress ..
                jpeg_finish_compress, jpeg_write_coefficients, jpeg_add_quant_table, tj3Set) line by line:
                accept / error class, derived geometry of the first scan, entropy-coded bytes of a block
4. property-level oracle, independent of the model, on the ASan+UBSan build: every attempt either
                fails through the error manager or yields a stream ending in FFD9 that the library's
                own decompressor reads with num_warnings == 0 to the declared dimensions; a crash /
                sanitizer report / hang (alarm) is a violation.
"""
import json
import os
from vlib import core
from vlib.core import sh2

STD_DC = ([0, 1, 5, 1, 1, 1, 1, 1, 1, 0, 0, 0, 0, 0, 0, 0], list(range(12)))
STD_AC = ([0, 2, 1, 3, 3, 2, 4, 3, 5, 5, 4, 4, 0, 0, 1, 125],
          [0x01, 0x02, 0x03, 0x00, 0x04, 0x11, 0x05, 0x12, 0x21, 0x31, 0x41, 0x06, 0x13, 0x51, 0x61, 0x07,
           0x22, 0x71, 0x14, 0x32, 0x81, 0x91, 0xa1, 0x08, 0x23, 0x42, 0xb1, 0xc1, 0x15, 0x52, 0xd1, 0xf0,
           0x24, 0x33, 0x62, 0x72, 0x82, 0x09, 0x0a, 0x16, 0x17, 0x18, 0x19, 0x1a, 0x25, 0x26, 0x27, 0x28,
           0x29, 0x2a, 0x34, 0x35, 0x36, 0x37, 0x38, 0x39, 0x3a, 0x43, 0x44, 0x45, 0x46, 0x47, 0x48, 0x49,
           0x4a, 0x53, 0x54, 0x55, 0x56, 0x57, 0x58, 0x59, 0x5a, 0x63, 0x64, 0x65, 0x66, 0x67, 0x68, 0x69,
           0x6a, 0x73, 0x74, 0x75, 0x76, 0x77, 0x78, 0x79, 0x7a, 0x83, 0x84, 0x85, 0x86, 0x87, 0x88, 0x89,
           0x8a, 0x92, 0x93, 0x94, 0x95, 0x96, 0x97, 0x98, 0x99, 0x9a, 0xa2, 0xa3, 0xa4, 0xa5, 0xa6, 0xa7,
           0xa8, 0xa9, 0xaa, 0xb2, 0xb3, 0xb4, 0xb5, 0xb6, 0xb7, 0xb8, 0xb9, 0xba, 0xc2, 0xc3, 0xc4, 0xc5,
           0xc6, 0xc7, 0xc8, 0xc9, 0xca, 0xd2, 0xd3, 0xd4, 0xd5, 0xd6, 0xd7, 0xd8, 0xd9, 0xda, 0xe1, 0xe2,
           0xe3, 0xe4, 0xe5, 0xe6, 0xe7, 0xe8, 0xe9, 0xea, 0xf1, 0xf2, 0xf3, 0xf4, 0xf5, 0xf6, 0xf7, 0xf8,
           0xf9, 0xfa])
ZIGZAG = [0, 1, 8, 16, 9, 2, 3, 10, 17, 24, 32, 25, 18, 11, 4, 5, 12, 19, 26, 33, 40, 48, 41, 34, 27, 20, 13, 6, 7, 14, 21,
          28, 35, 42, 49, 56, 57, 50, 43, 36, 29, 22, 15, 23, 30, 37, 44, 51, 58, 59, 52, 45, 38, 31, 39, 46, 53, 60, 61,
          54, 47, 55, 62, 63]


# --------------------------------------------------------------------------- scripts
def scan_s(comps, Ss, Se, Ah, Al, n=None):
    cs = list(comps) + [0] * (4 - len(comps))
    return "%d:%s:%d:%d:%d:%d" % (len(comps) if n is None else n, ",".join(map(str, cs[:4])), Ss, Se, Ah, Al)


def gen_prog_script(rng, nc, maxal):
    """valid progressive script: walk the successive-approximation chains.
    returns list of scans (comps, Ss, Se, Ah, Al)"""
    chains = []      # each chain: list of scans to appear in this order
    dc_al = rng.range(0, min(3, maxal))
    inter = nc <= 4 and rng.chance(2, 3)
    dc_groups = [list(range(nc))] if inter else [[c] for c in range(nc)]
    dc_chain_of = {}
    for g in dc_groups:
        ch = [(g, 0, 0, 0, dc_al)] + [(g, 0, 0, a, a - 1) for a in range(dc_al, 0, -1)]
        chains.append(ch)
        for c in g:
            dc_chain_of[c] = ch
    for c in range(nc):
        if rng.chance(1, 8):
            continue                      # AC of this component never sent: allowed
        cuts = sorted(set([1] + [rng.range(2, 63) for _ in range(rng.below(3))]))
        bands = [(cuts[i], (cuts[i + 1] - 1) if i + 1 < len(cuts) else 63) for i in range(len(cuts))]
        for (s, e) in bands:
            if rng.chance(1, 10):
                continue
            al = rng.range(0, min(3, maxal))
            stop = rng.range(0, al) if rng.chance(1, 4) else 0    # chains may stop early
            chains.append([([c], s, e, 0, al)] + [([c], s, e, a, a - 1) for a in range(al, stop, -1)])
    # interleave: repeatedly pick a chain head; AC heads need their component's first DC scan emitted
    out, idx, dc_done = [], [0] * len(chains), set()
    while True:
        cand = []
        for i, ch in enumerate(chains):
            if idx[i] < len(ch):
                comps, s = ch[idx[i]][0], ch[idx[i]][1]
                if s == 0 or comps[0] in dc_done:
                    cand.append(i)
        if not cand:
            break
        i = rng.choice(cand)
        sc = chains[i][idx[i]]
        idx[i] += 1
        out.append(sc)
        if sc[1] == 0:
            dc_done.update(sc[0])
        if len(out) >= 60:
            break
    if len(out) >= 60:           # too long for the harness' script array: fall back to a short one
        out = [(list(range(min(nc, 4))), 0, 0, 0, 0)] + [([c], 0, 0, 0, 0) for c in range(4, nc)]
    return out


def violate_prog(rng, sc, nc, maxal):
    """one violation in a valid progressive script; returns (scans-as-strings, name)"""
    sc = [list(x) for x in sc]
    S = lambda l: [scan_s(x[0], x[1], x[2], x[3], x[4], x[5] if len(x) > 5 else None) for x in l]
    kind = rng.choice(["badcomp", "negcomp", "overlap", "al-2", "ah-wrong", "ac-first", "inter-ac", "se<ss", "5comps",
                       "dupcomp", "al>max", "dc+ac", "se64", "0comps", "dropdc", "order", "ss<0"])
    i = rng.below(len(sc))
    ac = [k for k, x in enumerate(sc) if x[1] > 0]
    if kind == "badcomp":
        sc[i][0] = [nc] if len(sc[i][0]) == 1 else sc[i][0][:-1] + [nc]
    elif kind == "negcomp":
        sc[i][0] = [-1]
    elif kind == "overlap":
        sc.insert(rng.range(i + 1, len(sc)), list(sc[i]))
    elif kind == "al-2":
        sc[i][4] = sc[i][4] - 1 if sc[i][3] > 0 else sc[i][4]
        if sc[i][3] == 0:
            sc.append([sc[i][0], sc[i][1], sc[i][2], sc[i][4], sc[i][4] - 2]); kind = "al-2b"
    elif kind == "ah-wrong":
        sc[i][3] += 1
    elif kind == "ac-first" and ac:
        x = sc.pop(rng.choice(ac)); sc.insert(0, x)
    elif kind == "inter-ac" and ac and nc >= 2:
        k = rng.choice(ac); sc[k][0] = [0, 1]
    elif kind == "se<ss" and ac:
        k = rng.choice(ac); sc[k][2] = sc[k][1] - 1
    elif kind == "5comps":
        sc[i] = sc[i] + [5] if len(sc[i]) == 5 else sc[i]; sc[i] = sc[i][:5] + [5]
    elif kind == "dupcomp":
        sc[i][0] = [sc[i][0][0], sc[i][0][0]]
    elif kind == "al>max":
        sc[i][4] = maxal + 1
        if sc[i][3] > 0:
            sc[i][3] = maxal + 2
    elif kind == "dc+ac":
        sc[i][1], sc[i][2] = 0, rng.range(1, 63)
    elif kind == "se64" and ac:
        k = rng.choice(ac); sc[k][2] = 64
    elif kind == "0comps":
        sc[i] = sc[i][:5] + [0]
    elif kind == "dropdc":
        c = rng.below(nc)
        sc = [x for x in sc if not (c in x[0])] or sc[:1]
    elif kind == "order" and nc >= 2:
        sc[i][0] = [1, 0]
    elif kind == "ss<0":
        sc[i][1] = -1
    return S(sc), kind


def gen_seq_script(rng, nc, lossless, prec):
    comps = list(range(nc))
    scans = []
    while comps:
        k = rng.range(1, min(4, len(comps)))
        g, comps = comps[:k], comps[k:]
        if lossless:
            scans.append([g, rng.range(1, 7), 0, 0, rng.range(0, max(0, min(prec, 16) - 1))])
        else:
            scans.append([g, 0, 63, 0, 0])
    scans = rng.shuffle(scans)
    if lossless and scans[0][1] == 0:
        scans[0][1] = 1
    return scans


def violate_seq(rng, sc, nc, lossless, prec):
    sc = [list(x) for x in sc]
    kind = rng.choice(["twice", "missing", "al", "ah", "badcomp", "psv8", "pt=prec", "se", "5comps"])
    i = rng.below(len(sc))
    if kind == "twice":
        sc.append(list(sc[i]))
    elif kind == "missing" and len(sc) > 1:
        sc.pop(1 + rng.below(len(sc) - 1))
    elif kind == "al":
        sc[i][4] = prec if lossless else 1
    elif kind == "ah":
        sc[i][3] = 1
    elif kind == "badcomp":
        sc[i][0] = sc[i][0][:-1] + [nc]
    elif kind == "psv8" and lossless:
        sc[i][1] = 8
    elif kind == "pt=prec" and lossless:
        sc[i][4] = prec
    elif kind == "se":
        sc[-1][2] = 1 if lossless else 62
    elif kind == "5comps":
        sc[i] = sc[i][:5] + [5]
    return [scan_s(x[0], x[1], x[2], x[3], x[4], x[5] if len(x) > 5 else None) for x in sc], kind


def setup_line(W, H, incomp, ncomp, prec, lossless, raw, arith, opt, smooth, ri, rir, hv, script):
    hv = list(hv) + [(1, 1)] * (10 - len(hv))
    return "setup %d %d %d %d %d %d %d %d %d %d %d %d | %s | %s" % (
        W, H, incomp, ncomp, prec, lossless, raw, arith, opt, smooth, ri, rir,
        " ".join("%d,%d" % p for p in hv[:10]), " ".join(script) if script else "-")


def gen_setup(rng, cases):
    """one parameter set for the libjpeg API stream"""
    family = rng.choice(["prog", "prog", "progbad", "progbad", "seq", "seqbad", "lossless", "losslessbad", "geom", "geom",
                         "geom", "samp", "samp", "ncomp", "dims", "prec", "restart", "raw", "rawodd", "flags", "lossless-en"])
    if rng.chance(1, 150):
        family = "restart-big"
    W, H = rng.choice([1, 7, 8, 9, 16, 17, 33]), rng.choice([1, 7, 8, 9, 16, 17, 33])
    nc = rng.choice([1, 1, 2, 3, 3, 4, 4, 5, 10])
    incomp = nc
    prec = 8 if rng.chance(3, 4) else 12
    lossless = raw = arith = opt = smooth = ri = rir = 0
    hv = [(1, 1)] * 10
    script = None
    if rng.chance(1, 3):
        hv = [(rng.range(1, 2), rng.range(1, 2)) for _ in range(10)]
        if sum(h * v for h, v in hv[:min(nc, 4)]) > 10:
            hv = [(1, 1)] * 10
    if family in ("prog", "progbad"):
        maxal = 13 if prec == 12 else 10
        sc = gen_prog_script(rng, nc, maxal)
        if family == "prog":
            script = [scan_s(*x) for x in sc]
        else:
            script, k = violate_prog(rng, sc, nc, maxal)
            family = "progbad-" + k
        arith = 1 if rng.chance(1, 6) else 0
    elif family in ("seq", "seqbad"):
        sc = gen_seq_script(rng, nc, False, prec)
        if family == "seq":
            script = [scan_s(*x) for x in sc]
        else:
            script, k = violate_seq(rng, sc, nc, False, prec)
            family = "seqbad-" + k
        opt = rng.below(2)
    elif family in ("lossless", "losslessbad"):
        prec = rng.choice([2, 3, 7, 8, 9, 12, 13, 15, 16])
        sc = gen_seq_script(rng, nc, True, prec)
        if family == "lossless":
            script = [scan_s(*x) for x in sc]
        else:
            script, k = violate_seq(rng, sc, nc, True, prec)
            family = "losslessbad-" + k
        if rng.chance(1, 6):
            incomp = rng.choice([nc - 1, nc + 1, 0, 11])      # lossless resets num_components (F14)
            family += "-incomp"
    elif family == "lossless-en":
        prec = rng.choice([1, 2, 8, 12, 16, 17])
        lossless = 1
        nc = incomp = rng.choice([1, 3, 4, 5])
        arith = 1 if rng.chance(1, 5) else 0
    elif family == "samp":
        hv = [(rng.range(0, 5), rng.range(0, 5)) if rng.chance(1, 3) else (rng.range(1, 4), rng.range(1, 4)) for _ in range(10)]
        raw = rng.below(2)
    elif family == "geom":
        hv = [(rng.range(1, 4), rng.range(1, 4)) for _ in range(10)]
        raw = 1 if rng.chance(2, 3) else 0
        nc = incomp = rng.range(1, 4)
    elif family == "ncomp":
        nc = rng.choice([0, 1, 4, 5, 9, 10, 11, -1])
        incomp = nc if rng.chance(2, 3) else rng.choice([0, 1, 3, 10, 11])
        raw = rng.below(2)
        if rng.chance(1, 2):
            script = [scan_s([c], 0, 63, 0, 0) for c in range(max(1, min(nc, 12)))]
    elif family == "dims":
        W, H = rng.choice([(0, 8), (8, 0), (65500, 1), (1, 65500), (65501, 1), (1, 65501), (65500, 2), (65535, 1), (65536, 8), (-1, 8)])
        nc = incomp = rng.choice([1, 3])
        raw = 1 if rng.chance(1, 4) else 0
        if raw and rng.chance(1, 2):
            incomp = rng.choice([65573, 70000, 2147483647])     # samplesperrow overflow (input_components unused with raw data)
    elif family == "prec":
        prec = rng.range(1, 17)
        if rng.chance(1, 2):
            lossless = 1
    elif family == "restart":
        ri = rng.choice([0, 1, 2, 7, 65535])
        rir = rng.choice([0, 0, 1, 2, 65535, 70000, 2147483647])
        W = rng.choice([8, 33, 65500]); H = rng.choice([1, 8, 17])
        nc = incomp = rng.choice([1, 3])
        if rng.chance(1, 3):
            sc = gen_prog_script(rng, nc, 10); script = [scan_s(*x) for x in sc]; prec = 8
    elif family == "restart-big":
        # restart_interval is an unsigned int field: values above 65535 do not fit the DRI marker
        ri = rng.choice([65536, 65537, 100000, 131071, 4294967295])
        W, H = 65500, rng.choice([48, 72])
        nc = incomp = 1
        hv = [(1, 1)] * 10
    elif family == "raw":
        raw = 1
    elif family == "rawodd":
        raw = 1
        hv = [(rng.range(1, 4), rng.range(1, 4)) for _ in range(10)]
        W, H = rng.range(1, 70), rng.range(1, 70)
        nc = incomp = rng.range(1, 4)
    elif family == "flags":
        arith, opt, smooth = rng.below(2), rng.below(2), rng.choice([0, 1, 50, 100, 101, 1000, -1])
        if rng.chance(1, 2):
            hv = [(2, 2), (1, 1), (1, 1)] + [(1, 1)] * 7; nc = incomp = 3
    if rng.chance(1, 10) and family not in ("dims",):
        smooth = rng.choice([1, 30, 100])
    cases.append((setup_line(W, H, incomp, nc, prec, lossless, raw, arith, opt, smooth, ri, rir, hv, script), "setup-" + family,
                  {"nscans": len(script) if script else 1}))


# ----------------------------------------------------------------------- Huffman tables / blocks
def valid_table(rng, need, pool, hostile):
    """(bits[1..16], vals): a legal table containing the symbols `need`.
    hostile: the needed symbols get the longest codes (16 bits, close to all ones)"""
    need = list(dict.fromkeys(need))
    others = [s for s in rng.shuffle(pool) if s not in need]
    if hostile:
        # lengths 1..15 once each for filler symbols, then the needed symbols at length 16.  Kraft: the 15 short
        # codes leave 2 code points of length 16, one of which is reserved -> drop short codes to make room.
        k = len(need)
        short = []
        l = 1
        room = (1 << 16) - 1 - k          # code points of length 16 left for shorter codes (all-ones reserved)
        for l in range(1, 16):
            if room >= (1 << (16 - l)) and others:
                short.append(l); room -= 1 << (16 - l)
        bits = [0] * 17
        for l in short:
            bits[l] += 1
        bits[16] = k
        vals = others[:len(short)] + need
        return bits[1:], vals
    n = min(len(pool), max(len(need), rng.range(len(need), len(need) + 20)))
    syms = rng.shuffle(need + others[:n - len(need)])
    while True:
        lens, budget = [], (1 << 16) - 1
        for _ in syms:
            l = rng.range(1, 16)
            while (1 << (16 - l)) > budget and l < 16:
                l += 1
            if (1 << (16 - l)) > budget:
                break
            budget -= 1 << (16 - l)
            lens.append(l)
        if len(lens) == len(syms):
            break
    bits = [0] * 17
    for l in lens:
        bits[l] += 1
    order = sorted(range(len(syms)), key=lambda i: lens[i])
    return bits[1:], [syms[i] for i in order]


def block_symbols(prec, block):
    """symbols encode_one_block needs for this block (last_dc = 0)"""
    zz = [block[k] for k in ZIGZAG]
    dc = [abs(zz[0]).bit_length()]
    ac, r = [], 0
    for v in zz[1:]:
        if v == 0:
            r += 1
            continue
        while r > 15:
            ac.append(0xF0); r -= 16
        ac.append(((r << 4) + abs(v).bit_length()) & 0xFF)
        r = 0
    if r > 0:
        ac.append(0)
    return dc, ac


def blk_line(prec, opt, destbuf, dct, act, block):
    return "blk %d %d %d | %s ; %s | %s ; %s | %s" % (
        prec, opt, destbuf, " ".join(map(str, dct[0])), " ".join(map(str, dct[1])),
        " ".join(map(str, act[0])), " ".join(map(str, act[1])), " ".join(map(str, block)))


def gen_blk(rng, cases):
    prec = 8 if rng.chance(2, 3) else 12
    lim = (1 << (prec + 2)) - 1            # largest AC magnitude that passes
    fam = rng.choice(["std", "random", "hostile", "hostile", "edge", "range", "badtable", "sparse", "missing"])
    block = [0] * 64
    if fam in ("hostile", "edge"):
        m = lim if rng.chance(3, 4) else rng.choice([lim, lim >> 1, 1])
        sign = rng.choice(["pos", "neg", "alt"])
        for k in range(64):
            s = 1 if sign == "pos" else -1 if sign == "neg" else (1 if k % 2 else -1)
            block[k] = s * m
        block[0] = rng.choice([2 * lim + 1, -(2 * lim + 1), lim, 0])
    elif fam == "range":
        for k in range(64):
            if rng.chance(1, 3):
                block[k] = rng.choice([1, -1, lim, -lim, lim + 1, -lim - 1, 32767, -32768, 16383, -16384])
        block[0] = rng.choice([0, 2 * lim + 1, 2 * lim + 2, -2 * lim - 2, 32767, -32768])
    elif fam == "missing":
        for _ in range(rng.range(1, 5)):
            block[rng.below(64)] = rng.range(-lim, lim) >> rng.below(prec)
        if rng.chance(1, 2):
            block[63] = 0
    elif fam == "sparse":
        for _ in range(rng.range(0, 4)):
            block[rng.below(64)] = rng.range(-lim, lim)
    else:
        dens = rng.range(1, 4)
        for k in range(64):
            if rng.chance(dens, 4):
                block[k] = rng.range(-lim, lim) >> rng.below(prec + 2)
    dcn, acn = block_symbols(prec, block)
    dcn = [s for s in dcn if s <= 15]
    opt = 1 if (rng.chance(1, 6) and fam != "missing") else 0
    destbuf = rng.choice([4096, 4096, 600, 512, 511, 300, 64, 17, 1])
    if fam == "std" and prec == 8 and all(s <= 11 for s in dcn) and all((s & 15) <= 10 for s in acn):
        dct, act = STD_DC, STD_AC
    elif fam == "badtable":
        dct = valid_table(rng, dcn, list(range(16)), False)
        act = valid_table(rng, acn, list(range(256)), False)
        which = rng.choice(["overfull", "dup", "kraft", "dcrange", "allones"])
        b, v = list(act[0]), list(act[1])
        if which == "overfull":
            b[rng.below(16)] = 255
        elif which == "dup" and len(v) >= 2:
            v[0] = v[1]
        elif which == "kraft":
            b[0] = 3
            v = v + [x for x in range(256) if x not in v][:3]
        elif which == "dcrange":
            db, dv = list(dct[0]), list(dct[1]); dv[0] = 16 + rng.below(200); dct = (db, dv)
        elif which == "allones":
            b = [2] + [0] * 15; v = v[:2] if len(v) >= 2 else [1, 2]
        act = (b, v)
        fam += "-" + which
    elif fam == "missing" and acn:
        # legal tables that lack a symbol the block needs (jchuff.c has no JERR_HUFF_MISSING_CODE test)
        drop = rng.choice(acn)
        if 0 in acn and rng.chance(1, 3):
            drop = 0                       # end-of-block code
        elif 0xF0 in acn and rng.chance(1, 2):
            drop = 0xF0                    # run-length-16 code
        dct = valid_table(rng, dcn, list(range(16)), False)
        act = valid_table(rng, [x for x in acn if x != drop] or [1], [x for x in range(256) if x != drop], False)
        opt = 0
    else:
        hostile = fam in ("hostile", "edge")
        dct = valid_table(rng, dcn, list(range(16)), hostile)
        act = valid_table(rng, acn, list(range(256)), hostile)
    cases.append((blk_line(prec, opt, destbuf, dct, act, block), "blk-" + fam, {"block": block, "prec": prec}))


def gen_coef(rng, cases):
    prec = rng.choice([8, 12])
    mode = rng.below(4)
    pos = rng.below(64)
    v = rng.choice([1, -1, 1023, -1023, 1024, -1024, 16383, -16383, 32767, -32767, -32768, 2047, -2047, 2048, -2048, 4095,
                    4096, -4096, 8191, 8192, 16384, -16384, 32766, 255, 256])
    cases.append(("coef %d %d %d %d" % (prec, mode, pos, v), "coef-m%d" % mode, None))


def gen_qt(rng, cases):
    prec = rng.choice([8, 8, 12])
    force = rng.below(2)
    dct = rng.choice([0, 0, 1, 2])
    direct = 1 if rng.chance(1, 3) else 0
    specials = [0, 1, 2, 255, 256, 8191, 8192, 8193, 8200, 16384, 32767, 32768, 65535]
    vals = [rng.choice(specials) if rng.chance(1, 2) else rng.range(1, 255) for _ in range(64)]
    if direct and rng.chance(2, 3):
        vals = [v if v else 1 for v in vals]
    if not direct and rng.chance(1, 4):
        vals[rng.below(64)] = rng.choice([65536, 1000000, 4294967295])
    cases.append(("qt %d %d %d %d | %s" % (prec, force, dct, direct, " ".join(map(str, vals))), "qt-%s" % ("direct" if direct else "add"),
                  None))


def tjset_cases(rng, cases, params):
    """every parameter at its boundaries, on the three instance kinds"""
    for (p, kind, need, lo, hi) in params:
        vals = {-1, 0, 1, 2, lo - 1, lo, lo + 1}
        if hi > 0:
            vals |= {hi - 1, hi, hi + 1}
        else:
            vals |= {65535, 2147483647}
        vals |= {-2147483648, 2147483647}
        for init in (1, 2, 3):
            for v in sorted(vals):
                if -2147483648 <= v <= 2147483647:
                    cases.append(("tjset %d %d %d" % (init, p, v), "tjset", None))
    for p in (-1, len(params), len(params) + 1, 1000):
        cases.append(("tjset 1 %d 0" % p, "tjset", None))


def gen_tjc(rng, cases, P):
    prec = rng.choice([8, 8, 8, 12, 16, 2, 5, 9, 13])
    W, H = rng.choice([1, 7, 16, 33, 64]), rng.choice([1, 7, 16, 33])
    pf = rng.choice([0, 1, 2, 6, 7, 11])        # RGB BGR RGBX GRAY RGBA CMYK
    sets = []
    def add(name, v):
        sets.append("%d=%d" % (P[name], v))
    add("TJPARAM_PRECISION", prec) if rng.chance(3, 4) else None
    add("TJPARAM_QUALITY", rng.choice([1, 2, 50, 99, 100, 0, 101]))
    add("TJPARAM_SUBSAMP", rng.choice([0, 1, 2, 3, 4, 5, 6, 7, -1]))
    if rng.chance(1, 2):
        add("TJPARAM_COLORSPACE", rng.choice([0, 1, 2, 3, 4, 5]))
    if prec == 16 or (prec not in (8, 12)) or rng.chance(1, 4):
        add("TJPARAM_LOSSLESS", 1)
        add("TJPARAM_LOSSLESSPSV", rng.choice([1, 7, 0, 8, 4]))
        add("TJPARAM_LOSSLESSPT", rng.choice([0, prec - 1, prec, 15, 16]))
    for name in ("TJPARAM_OPTIMIZE", "TJPARAM_PROGRESSIVE", "TJPARAM_ARITHMETIC", "TJPARAM_FASTDCT", "TJPARAM_BOTTOMUP", "TJPARAM_NOREALLOC"):
        if rng.chance(1, 3):
            add(name, rng.below(2))
    if rng.chance(1, 2):
        if rng.chance(1, 2):
            add("TJPARAM_RESTARTBLOCKS", rng.choice([0, 1, 2, 65535, 65536]))
        else:
            add("TJPARAM_RESTARTROWS", rng.choice([0, 1, 2, 65535, 65536]))
    if rng.chance(1, 3):
        add("TJPARAM_XDENSITY", rng.choice([1, 72, 65535, 0, 65536]))
        add("TJPARAM_YDENSITY", rng.choice([1, 72, 65535, 0, 65536]))
        add("TJPARAM_DENSITYUNITS", rng.choice([0, 1, 2, 3]))
    cases.append(("tjc %d %d %d %d %d | %s" % (prec, W, H, pf, rng.below(1 << 30), " ".join(sets)), "tjc", None))




SAMP_SETS = [[(2, 2), (1, 1), (1, 1)], [(2, 1), (1, 1), (1, 1)], [(1, 2), (1, 1), (1, 1)], [(4, 1), (1, 1), (1, 1)], [(1, 4), (1, 1), (1, 1)],
             [(4, 2), (2, 1), (1, 1)], [(2, 2), (2, 1), (1, 2)], [(2, 2), (1, 1), (1, 1), (2, 2)], [(2, 1), (1, 1)], [(1, 1), (2, 2), (1, 1)],
             [(4, 1), (2, 1), (1, 1), (1, 1)], [(1, 1), (1, 1), (1, 1)], [(2, 2)]]
ODD_SETS = [[(3, 1), (1, 2), (1, 1)], [(3, 2), (2, 1), (1, 1)], [(2, 3), (1, 1), (3, 1)], [(4, 1), (3, 1), (1, 1)], [(1, 3), (1, 2)], [(3, 3), (1, 1)]]


def multi_scan_script(rng, nc, prec):
    fam = rng.choice(["simple", "percomp", "mixed", "prog"])
    if fam == "simple":                      # jpeg_simple_progression's all-purpose shape
        dc = [list(range(nc))] if nc <= 4 else [[c] for c in range(nc)]
        sc = [(g, 0, 0, 0, 1) for g in dc] + [([c], 1, 5, 0, 2) for c in range(nc)] + [([c], 6, 63, 0, 2) for c in range(nc)] + \
             [([c], 1, 63, 2, 1) for c in range(nc)] + [(g, 0, 0, 1, 0) for g in dc] + [([c], 1, 63, 1, 0) for c in range(nc)]
    elif fam == "percomp":
        sc = [([c], 0, 63, 0, 0) for c in rng.shuffle(range(nc))]
    elif fam == "mixed":
        sc = [tuple(x) for x in gen_seq_script(rng, nc, False, prec)]
    else:
        sc = gen_prog_script(rng, nc, 13 if prec == 12 else 10)
    return [scan_s(*x) for x in sc], fam


def gen_hdr(rng, cases):
    """marker writer + pass sequencing: header bytes and pass numbers of accepted parameter sets, all coder combinations"""
    hv = list(rng.choice(SAMP_SETS))
    nc = len(hv)
    prec = 8 if rng.chance(3, 4) else 12
    fam = rng.choice(["none", "script", "script", "lossless", "lossless-en"])
    script, lossless = None, 0
    if fam == "script":
        script, f2 = multi_scan_script(rng, nc, prec); fam += "-" + f2
    elif fam == "lossless":
        prec = rng.choice([2, 8, 12, 16])
        script = [scan_s(*x) for x in gen_seq_script(rng, nc, True, prec)]
    elif fam == "lossless-en":
        lossless = 1; prec = rng.choice([8, 12, 16])
    elif nc > 4:
        nc = 3; hv = hv[:3]
    arith, opt = (1, rng.below(2)) if rng.chance(1, 3) else (0, rng.below(2))
    ri = rng.choice([0, 0, 4])
    W = rng.choice([8, 17, 40])
    if fam.startswith("lossless"):
        arith = 0
        ri = rng.choice([0, 0, 4, W, 2 * W, W + 1])     # jclossls.c: must be a multiple of MCUs_per_row (= width)
    line = setup_line(W, rng.choice([8, 9, 33]), nc, nc, prec, lossless, 0, arith, opt, 0,
                      ri, rng.choice([0, 0, 1]), hv, script)
    cases.append(("hdr" + line[5:], "hdr-" + fam.split("-")[0], {"nscans": len(script) if script else 1}))


def tn_expect(path, which, idx, arith, opt, mode):
    """jpeg_set_defaults: quant tables 0,1; Huffman tables 0,1 (DC and AC); arithmetic tables 0..15.
    returns ok | <error name> | err (any clean error) | clean (ok or any clean error)"""
    if mode == 2:                       # lossless: the component list is rebuilt (table numbers reset), no quantisation
        return "clean"
    if which == 0:
        return "ok" if idx in (0, 1) else "NoQuantTable"
    if arith:
        return "ok" if 0 <= idx <= 15 else "err"
    if opt or mode == 1:                # tables are generated by the statistics pass
        return "ok" if 0 <= idx <= 3 else "NoHuffTable"
    return "ok" if idx in (0, 1) else "NoHuffTable"


def tn_cases(cases):
    """table numbers of a component at / beyond NUM_QUANT_TBLS, NUM_HUFF_TBLS, NUM_ARITH_TBLS: compress / transcode x
    sequential / progressive / lossless x Huffman / optimised / arithmetic"""
    for path in (0, 1):
        for mode in (0, 1, 2):
            for which in (0, 1, 2):
                for idx in (-1, 0, 1, 2, 3, 4, 5, 15, 16, 40):
                    for arith, opt in ((0, 0), (0, 1), (1, 0)):
                        if mode == 2 and arith:
                            continue
                        cases.append(("tn %d %d %d %d %d %d" % (path, which, idx, arith, opt, mode), "tn",
                                      {"tag": "tblno", "nscans": None, "expect_tn": tn_expect(path, which, idx, arith, opt, mode)}))


def param_api_cases(rng, cases):
    """jcparam.c: jpeg_set_quality / jpeg_set_linear_quality tables; jpeg_set_colorspace / jpeg_default_colorspace"""
    for q in (-5, 0, 1, 2, 24, 25, 49, 50, 51, 75, 99, 100, 101, 1000):
        for force in (0, 1):
            cases.append(("qs %d %d 0 0" % (q, force), "qs", {"nscans": None}))
    for scale in (-100, -1, 0, 1, 49, 50, 100, 200, 5000, 12800, 100000, 2147483):
        for force in (0, 1):
            cases.append(("qs 0 %d 1 %d" % (force, scale), "qs", {"nscans": None}))
    for cs in range(-1, 19):
        for incomp in (0, 1, 3, 4, 10, 11):
            cases.append(("cs 0 %d %d 0" % (cs, incomp), "cs", {"nscans": None}))
            for lossless in (0, 1):
                if incomp in (1, 3, 4, 11):
                    cases.append(("cs 1 %d %d %d" % (cs, incomp, lossless), "cs", {"nscans": None}))


def gen_ref(rng, cases):
    """AC refinement scans whose pending correction bits approach MAX_CORR_BITS (flush threshold 937 + 63 = 1000)"""
    fam = rng.choice(["boundary", "boundary", "full", "random", "withnew"])
    if fam == "boundary":       # 14 full blocks = 882, then a block that lands on 930..937, then full blocks
        counts = [63] * 14 + [rng.range(48, 55)] + [63] * rng.range(1, 4) + [rng.range(0, 63) for _ in range(rng.range(0, 6))]
    elif fam == "full":
        counts = [63] * rng.range(16, 40)
    elif fam == "random":
        counts = [rng.range(40, 63) for _ in range(rng.range(17, 48))]
    else:
        counts = [rng.choice([63, 63, 62, 160, 130]) for _ in range(rng.range(17, 40))]
    nbx = rng.choice([1, 2, 3, len(counts)])
    nby = (len(counts) + nbx - 1) // nbx
    cases.append(("ref %d %d %d | %s" % (nbx, nby, rng.below(2), " ".join(map(str, counts))), "ref", {"nscans": 3}))


def gen_highal(rng, cases):
    """12-bit (and 8-bit) application scripts with Ah/Al at and beyond the validator's limits (13 / 10): an accepted
    script must give a file the library's own decoder reads back"""
    prec = 12 if rng.chance(3, 4) else 8
    al = rng.range(9, 15)
    nc = rng.choice([1, 1, 3])
    comps = list(range(nc))
    which = rng.choice(["dc", "dc", "ac", "both"])
    sc = []
    dcal = al if which in ("dc", "both") else rng.range(0, 2)
    sc.append((comps, 0, 0, 0, dcal))
    acal = al if which in ("ac", "both") else rng.range(0, 2)
    for c in comps:
        sc.append(([c], 1, 63, 0, acal))
    for a in range(dcal, 0, -1):
        sc.append((comps, 0, 0, a, a - 1))
    for c in comps:
        for a in range(acal, 0, -1):
            sc.append(([c], 1, 63, a, a - 1))
    if len(sc) > 60:
        sc = sc[:60]
    script = [scan_s(*x) for x in sc]
    line = setup_line(rng.choice([8, 17, 33]), rng.choice([8, 9, 16]), nc, nc, prec, 0, 0, rng.below(2) if rng.chance(1, 4) else 0, 0, 0, 0, 0,
                      [(1, 1)] * 10, script)
    cases.append((line, "setup-highal", {"nscans": len(script)}))


def api_cases(cases):
    """jpeg_write_tables + abbreviated image (all coder combinations); jpeg_write_marker in every API state"""
    for nc in (1, 3):
        for arith in (0, 1):
            for opt in (0, 1):
                for prog in (0, 1):
                    cases.append(("wt %d %d %d %d" % (nc, arith, opt, prog), "wt", {"nscans": None}))
    for state in (0, 1, 2, 3, 4, 5):
        for ln in (0, 1, 5, 300, 65533, 65534, 70000):
            if state == 4 and ln > 65533:
                continue
            for code in (254, 229):
                cases.append(("wm %d %d %d" % (state, ln, code), "wm", {"nscans": None}))


def gen_rst(rng, cases):
    """restart_in_rows x multi-scan scripts x subsamplings x entropy coders; reference = the restart-free encoding"""
    raw = 1 if rng.chance(1, 3) else 0
    hv = list(rng.choice(ODD_SETS if (raw and rng.chance(1, 2)) else SAMP_SETS))
    nc = len(hv)
    prec = 8 if rng.chance(5, 6) else 12
    script, fam = multi_scan_script(rng, nc, prec)
    arith, opt = (1, 0) if rng.chance(1, 4) else (0, rng.below(2))
    rir = rng.choice([1, 1, 2, 3, 4, 65535, 70000])
    ri = rng.choice([0, 0, 0, 5])
    W, H = rng.range(17, 90), rng.range(9, 70)
    line = setup_line(W, H, nc, nc, prec, 0, raw, arith, opt, 0, ri, rir, hv, script)
    cases.append(("rst" + line[5:], "rst-" + fam, {"nscans": len(script)}))


def gen_raw(rng, cases):
    """raw-data input offering num_lines = iMCU height, 2x, 3x, image height, iMCU+1 with the documented caller loop"""
    hv = list(rng.choice(SAMP_SETS + ODD_SETS))
    nc = len(hv)
    prec = 8 if rng.chance(5, 6) else 12
    script = None
    if rng.chance(1, 4):
        script, _ = multi_scan_script(rng, nc, prec)
    arith, opt = (1, 0) if rng.chance(1, 4) else (0, 1 if rng.chance(1, 4) else 0)
    W, H = rng.range(1, 70), rng.choice([1, 7, 8, 9, 16, 17, 31, 33, 64, 65, 100])
    line = setup_line(W, H, nc, nc, prec, 0, 1, arith, opt, 0, rng.choice([0, 0, 3]), rng.choice([0, 0, 1]), hv, script)
    cases.append(("raw %d" % rng.range(0, 4) + line[5:], "raw", {"nscans": len(script) if script else 1}))

# ------------------------------------------------------------- programs: several images on one object
def gen_seq(rng, cases):
    """gray -> YCbCr -> CMYK/YCCK -> 5..10-component JCS_UNKNOWN and back, progressive via jpeg_simple_progression
    or sequential, on ONE jpeg_compress_struct"""
    n = rng.range(2, 5)
    imgs = []
    kinds = rng.shuffle([0, 1, 2, 3, 4, 4, 5])
    # most sequences start with a short script (gray 6 / YCbCr 10 scans) and then need a longer one
    if rng.chance(2, 3):
        kinds = [rng.choice([0, 1])] + [rng.choice([2, 3, 4])] + kinds
    for cs in kinds[:n]:
        nc = rng.choice([1, 2, 3, 4, 5, 6, 7, 10]) if cs == 4 else 0
        prog = 1 if rng.chance(4, 5) else 0
        imgs.append("%d %d %d %d %d %d %d" % (cs, nc, prog, rng.below(2), 8 if rng.chance(4, 5) else 12,
                                              rng.choice([1, 8, 16, 17, 48]), rng.choice([1, 8, 9, 16])))
    filler = rng.choice([0, 0, 1600, 4000])
    cases.append(("seq %d | %s" % (filler, " ; ".join(imgs)), "seq", {"nscans": None}))


def gen_tjseq(rng, cases, P):
    imgs = []
    for _ in range(rng.range(2, 4)):
        pf = rng.choice([6, 0, 11, 7, 6, 11])          # GRAY RGB CMYK RGBA
        sets = ["%d=%d" % (P["TJPARAM_QUALITY"], rng.choice([1, 50, 100])), "%d=%d" % (P["TJPARAM_SUBSAMP"], rng.choice([0, 1, 2, 3])),
                "%d=%d" % (P["TJPARAM_PROGRESSIVE"], 1 if rng.chance(4, 5) else 0), "%d=%d" % (P["TJPARAM_OPTIMIZE"], rng.below(2)),
                "%d=%d" % (P["TJPARAM_ARITHMETIC"], 1 if rng.chance(1, 6) else 0)]
        if rng.chance(1, 3):
            sets.append("%d=%d" % (P["TJPARAM_COLORSPACE"], rng.choice([0, 1, 2, 3, 4])))
        imgs.append("8 %d %d %d %d %s" % (rng.choice([1, 16, 33]), rng.choice([1, 16, 17]), pf, rng.below(1 << 30), " ".join(sets)))
    cases.append(("tjseq | " + " ; ".join(imgs), "tjseq", None))


def gen_ll(rng, cases):
    """lossless compression of samples engineered to hit every difference category (incl. 16 at 16 bits)"""
    api = rng.below(2)
    prec = rng.choice([16, 16, 16, 12, 8, 2, 3, 9, 13, 15])
    psv = rng.range(1, 7) if rng.chance(9, 10) else rng.choice([0, 8])
    pt = 0 if rng.chance(2, 3) else rng.choice([1, prec - 1, prec, 15])
    nc = rng.choice([1, 1, 3])
    W, H = rng.choice([1, 2, 8, 33, 64]), rng.choice([1, 2, 9, 16])
    ri = rng.choice([0, 0, 1, 3])
    cases.append(("ll %d %d %d %d %d %d %d %d %d %d" % (api, prec, psv, pt, W, H, nc, ri, rng.below(9), rng.below(1 << 30)), "ll", None))


# ------------------------------------------------------------------------------ running
def run_harness(ctx, exe, cases, fl):
    """run all case lines; a missing output line = crash/hang on that case: record, resume after it"""
    outs = []
    pos = 0
    env = {"ASAN_OPTIONS": "detect_leaks=0:abort_on_error=0", "UBSAN_OPTIONS": "print_stacktrace=1"}
    guard = 0
    while pos < len(cases) and guard < 25:
        guard += 1
        inp = ("\n".join(c[0] for c in cases[pos:]) + "\n").encode()
        rc, out, err = sh2([exe], input=inp, timeout=3000, env=env)
        lines = out.decode("utf-8", "replace").split("\n")
        if lines and lines[-1] == "":
            lines.pop()
        complete = [l for l in lines if " # " in l]
        # a partially printed last line belongs to the crashing case
        ngood = len(complete) if len(complete) == len(lines) else len(lines) - 1
        ngood = min(ngood, len(cases) - pos)
        outs += lines[:ngood]
        pos += ngood
        if pos < len(cases):
            line, kind, meta = cases[pos]
            tag = meta.get("tag") if isinstance(meta, dict) else None
            frame = ""
            for l in err.split("\n"):
                if "SUMMARY:" in l or "runtime error:" in l:
                    frame = l.strip()[:160]
                    break
            what = "hang (alarm)" if rc in (-14, 142) or "[timeout]" in err else "crash / sanitizer report"
            sig = "crash:%s:%s" % (tag or kind, frame.split(" in ")[-1][:60] if frame else rc)
            if kind == "tn":
                w = line.split()[2]
                sig = "quant-tbl-no-unchecked-transcode" if w == "0" else "huff-tbl-no-index-before-check"
            ctx.violation("compressor %s on the %s build (rc=%d): %s" % (what, fl, rc, frame),
                          {"case": line, "kind": kind, "flavour": fl, "stderr": err[-3000:]}, signature=sig)
            outs.append("<crash> # -")
            pos += 1
    while len(outs) < len(cases):
        outs.append("<not-run> # -")
    return outs


def oracle_verdict(kind, meta, line):
    """property-level oracle on one implementation output line; returns None or a reason"""
    if " # " not in line:
        return "no result"
    mpart, opart = line.split(" # ", 1)
    if mpart.startswith("<crash>"):
        return None        # already reported
    if kind in ("seq", "corpus-seq"):
        mpart = "seq"          # per-image errors do not excuse the other images: the harness reports the first bad image
    rejected = mpart.startswith("err ") or " ; err " in mpart or mpart.startswith("rej") or mpart.startswith("acc") or "tjerr" in opart
    if rejected or opart.strip() == "-":
        return None
    f = dict(x.split("=", 1) for x in opart.split() if "=" in x)
    if "decerr" in f:
        return "own decompressor rejects the stream: " + f["decerr"]
    if f.get("eoi") != "1":
        return "stream does not end with EOI"
    if f.get("warn") != "0":
        return "own decompressor reports %s warning(s)" % f.get("warn")
    if f.get("guard", "0") != "0":
        return "an internal buffer was overrun (guard zone behind an alloc_small block overwritten)"
    if kind == "wm" and " m=0" in mpart:
        return "the marker written by jpeg_write_marker is not in the stream between the file header and the frame header"
    if "same" in f and f["same"] != "1":
        return {"0": "coefficients differ from the reference encoding (no restarts / one iMCU row per call)",
                "-1": "stream or reference stream cannot be read back by jpeg_read_coefficients",
                "-2": "reference encoding failed although this one succeeded"}.get(f["same"], "same=" + f["same"])
    if f.get("exact") == "0":
        return "lossless stream does not decode to the samples that were compressed"
    exp, dec = f.get("exp", "").split("x"), f.get("dec", "").split("x")
    if len(exp) == 3 and len(dec) == 3:
        if exp[:2] != dec[:2] or (exp[2] != "0" and exp[2] != dec[2]):
            return "decoded dimensions %s differ from the declared %s" % (f.get("dec"), f.get("exp"))
    if (kind.startswith("setup-") or kind.startswith("rst-") or kind.startswith("hdr-") or kind == "raw") and isinstance(meta, dict) and meta.get("nscans") and f.get("scans") and \
            int(f["scans"]) != meta["nscans"]:
        return "stream has %s scans, script has %d" % (f["scans"], meta["nscans"])
    return None


def sig_of(tag, kind, bad):
    """stable, specific signature of a bad-output violation"""
    if kind == "setup-restart-big" or (tag or "").startswith("restart-interval-gt-65535"):
        return "restart-interval-gt-65535"
    if kind == "blk-missing" or (tag or "").startswith("huff-missing-code"):
        return "huff-missing-code"
    if kind.startswith("rst-") or kind == "corpus-rst":
        return "restart-multiscan:" + bad[:30]
    if kind in ("raw", "corpus-raw"):
        return "raw-data-rows:" + bad[:30]
    if kind in ("ref", "corpus-ref"):
        return "corr-bit-buffer:" + bad[:30]
    if kind == "setup-highal":
        return "script-ahal-limit:" + bad[:30]
    if kind in ("ll", "corpus-ll"):
        return "lossless-bad-output:" + bad[:40]
    return "bad-output:%s:%s" % (tag or kind, bad[:40])


def load_corpus():
    out = []
    cdir = os.path.join(core.VERIF, "corpus", "C17")
    if os.path.isdir(cdir):
        for fn in sorted(os.listdir(cdir)):
            for l in open(os.path.join(cdir, fn)):
                l = l.strip()
                if not l or l.startswith("#"):
                    continue
                tag, expect = None, None
                while l.startswith("@"):
                    t, l = l.split(" ", 1)
                    if t.startswith("@expect="):
                        expect = t[8:]
                    else:
                        tag = t[1:]
                out.append((l, "corpus-" + l.split()[0], {"tag": tag, "expect": expect, "nscans": None}))
    return out


def parse_gen_params():
    """the generated tj3Set table, for the case generator only"""
    import re
    txt = open(os.path.join(core.COQ, "gen", "GenParams.v")).read()
    P = {m.group(1): int(m.group(2)) for m in re.finditer(r"Definition g_(TJPARAM_\w+) : Z := (-?\d+)\.", txt)}
    rows = [(P[m.group(1)], int(m.group(2)), int(m.group(3)), int(m.group(4)), int(m.group(5)))
            for m in re.finditer(r"\(g_(TJPARAM_\w+), (-?\d+), (-?\d+), (-?\d+), (-?\d+)\)", txt)]
    return P, rows


def run(ctx):
    rng = ctx.rng
    ok_gen = ctx.regen(["Params"])
    ctx.prove()
    drv = ctx.model_driver()
    flavours = ["asan", "simd"]
    exes = {fl: ctx.cc("c17", ["c17.c"], fl, libs=("turbojpeg",)) for fl in flavours}

    cases = []
    if ctx.replay:
        r = json.load(open(ctx.replay))
        if r.get("case"):
            cases.append((r["case"], r.get("kind", "replay"), r.get("meta") or {"tag": r.get("tag"), "expect": r.get("expect"), "nscans": None}))
        return run_cases(ctx, cases, exes, drv, flavours)

    cases += load_corpus()
    if ok_gen:
        P, rows = parse_gen_params()
        tjset_cases(rng, cases, rows)
        for _ in range(ctx.n(150, 3000)):
            gen_tjc(rng, cases, P)
        for _ in range(ctx.n(60, 1500)):
            gen_tjseq(rng, cases, P)
    for _ in range(ctx.n(1300, 40000)):
        gen_setup(rng, cases)
    for _ in range(ctx.n(500, 15000)):
        gen_blk(rng, cases)
    for _ in range(ctx.n(300, 11000)):
        gen_coef(rng, cases)
    for _ in range(ctx.n(150, 4000)):
        gen_qt(rng, cases)
    for _ in range(ctx.n(200, 5000)):
        gen_seq(rng, cases)
    for _ in range(ctx.n(300, 8000)):
        gen_ll(rng, cases)
    for _ in range(ctx.n(250, 6000)):
        gen_rst(rng, cases)
    for _ in range(ctx.n(250, 6000)):
        gen_raw(rng, cases)
    for _ in range(ctx.n(300, 8000)):
        gen_hdr(rng, cases)
    for _ in range(ctx.n(80, 2000)):
        gen_ref(rng, cases)
    for _ in range(ctx.n(80, 2000)):
        gen_highal(rng, cases)
    tn_cases(cases)
    api_cases(cases)
    param_api_cases(rng, cases)
    return run_cases(ctx, cases, exes, drv, flavours)


def run_cases(ctx, cases, exes, drv, flavours):
    outs = {fl: run_harness(ctx, exes[fl], cases, fl) for fl in flavours}
    ctx.log("harness runs done (%d cases x %d builds)" % (len(cases), len(flavours)))
    mlines = None
    if drv:
        inp = ("\n".join(c[0] for c in cases) + "\n").encode()
        rc, out, err = sh2([drv], input=inp, timeout=3000)
        mlines = out.decode().split("\n")
        if rc != 0 or len(mlines) < len(cases):
            ctx.broken_tie("model-driver", "extracted model failed: rc=%d %s" % (rc, err[-200:]))
            mlines = None
    ref = outs[flavours[0]]
    disagree = 0
    for i, (line, kind, meta) in enumerate(cases):
        impl = ref[i]
        mpart = impl.split(" # ")[0]
        tag = meta.get("tag") if isinstance(meta, dict) else None
        rep = {"case": line, "kind": kind, "impl": impl[:600], "tag": tag}
        # ---- property-level oracle (ASan build first, then every other build) ----
        bad = oracle_verdict(kind, meta, impl)
        if bad:
            ctx.violation("accepted parameters give bad output: %s" % bad, rep, signature=sig_of(tag, kind, bad))
        etn = meta.get("expect_tn") if isinstance(meta, dict) else None
        if etn:
            for fl in flavours:
                mp = outs[fl][i].split(" # ")[0]
                got = "ok" if mp.startswith("ok") else ("err" if etn == "err" and mp.startswith("err ") else mp.replace("err ", ""))
                if etn == "clean" and (mp.startswith("ok") or mp.startswith("err ")):
                    got = "clean"
                if not mp.startswith("<") and got != etn:
                    ctx.violation("table number case %s (%s build): expected %s, got %s" % (line, fl, etn, mp[:60]),
                                  dict(rep, flavour=fl), signature="tblno:%s" % line.replace(" ", "-"))
        expect = meta.get("expect") if isinstance(meta, dict) else None
        for fl in flavours:
            mp = outs[fl][i].split(" # ")[0]
            if expect and not mp.startswith("<"):
                got = "ok" if not (mp.startswith("err ") or " ; err " in mp) else mp.split("err ")[-1].split()[0]
                if got != expect:
                    ctx.violation("regression case %s (%s build): expected %s, got %s" % (tag, fl, expect, got),
                                  dict(rep, flavour=fl, impl=outs[fl][i][:600]), signature="regress:%s" % tag)
        for fl in flavours[1:]:
            o = outs[fl][i]
            if mpart.startswith("err BadDctCoef") and o.startswith("ok"):
                ctx.violation("the %s build accepts an out-of-range coefficient that the C Huffman encoder rejects with JERR_BAD_DCT_COEF "
                              "(oracle on its output: %s)" % (fl, oracle_verdict(kind, meta, o) or "decodes"),
                              dict(rep, other=o[:600], flavour=fl), signature="simd-missing-coef-range-check")
                continue
            b2 = oracle_verdict(kind, meta, o)
            if b2:
                ctx.violation("accepted parameters give bad output (%s build): %s" % (fl, b2), dict(rep, impl=o[:600], flavour=fl),
                              signature=sig_of(tag, kind, b2))
            if o.split(" # ")[0] != mpart and not o.startswith("<") and not mpart.startswith("<") and "dct=2" not in kind:
                ctx.violation("builds disagree (%s vs %s)" % (flavours[0], fl), dict(rep, other=o[:600]),
                              signature="build-disagree:" + kind)
        # ---- model correspondence ----
        if mlines is not None and not mpart.startswith("<"):
            m = mlines[i]
            if m.endswith(" OOB"):
                ctx.broken_tie("model-index", "the model forms an out-of-range array index on: " + line[:300])
            elif m != "any" and m != mpart:
                disagree += 1
                if disagree <= 3:
                    ctx.log("model/impl disagree on", kind, "\n  case :", line[:300], "\n  model:", m[:300], "\n  impl :", mpart[:300])
                ctx.broken_tie("correspondence:" + kind.split("-")[0],
                               "model and implementation differ on: %s || model=%s || impl=%s" % (line[:400], m[:200], mpart[:200]))
        ctx.count(kind.split("-")[0] + ("-" + kind.split("-")[1] if kind.count("-") else ""), 1, (kind.split("-")[0], mpart[:300]))
        if i % 499 == 0:
            ctx.sample({"case": line[:300], "impl": impl[:300]})
    if mlines is not None:
        ctx.cov["traces_validated_against_impl"] = len(cases)
    ctx.cov["model_impl_disagreements"] = disagree
    ctx.cov["rule"] = ("parameter sets through the libjpeg API (script grammar: valid progressive scripts by walking the successive-"
                       "approximation chains, 17 single violations; sequential / lossless scripts; sampling factors 0..5; component "
                       "counts -1..11; dims 0/1/65500/65501; precision 1..17 per mode; restart extremes; raw data with odd geometry; "
                       "smoothing / optimize / arith), single 8x8 blocks through jpeg_write_coefficients with std / random / hostile "
                       "(16-bit, near all-ones) / malformed Huffman tables and coefficients up to +-32768, quant tables with "
                       "0/1/255/256/8192/32767/65535 via jpeg_add_quant_table and direct stores, tj3Set at every boundary on 3 instance "
                       "kinds, tj3Compress8/12/16 with boundary parameters; distinct = distinct (stream, implementation result)")
    ctx.assume += ["correspondence is differential testing of the hand model against the real functions; it supports the tie, not the theorems",
                   "the libjpeg API stream keeps in_color_space = jpeg_color_space = JCS_UNKNOWN (null colour conversion); TurboJPEG "
                   "stream covers the real colour spaces with the oracle only",
                   "oracle uses jpeg_read_coefficients for raw-data streams (no upsampling of non-integral ratios), full decode otherwise"]
