"""C10 -- results are independent of pixel layout, row order and pitch.

1. translator  : gen_Layouts (offset/pixel-size tables of jmorecfg.h, the per-layout
                 instantiations and switch statements of jccolor.c/jdcolor.c/jdmerge.c and of
                 the x86-64 SIMD files, turbojpeg.h/turbojpeg.c tables, FIX() constants)
2. proofs      : coq/props/C10.v (model/Color.v, proofs/ColorProofs.v)
3. correspondence: extracted model (ml/C10_driver) vs harness/c10.c, which runs the REAL colour
                 converters / deconverters / merged upsamplers of the working tree (reached through
                 jinit_color_converter / jpeg_start_decompress, so the SIMD routines in the simd
                 build and jccolext.c/jdcolext.c/jdmrgext.c in the plain build) on the same buffers.
4. property-level oracle, independent of the model, with the DOCUMENTED channel positions:
   a. kernel groups: one picture in all 11 colour spaces (random filler, pitch, row order)
      -> identical planes; one set of planes to all 11 -> identical r,g,b, alpha = max,
      nothing written outside the rows
   b. API: enc/dec cases through tj3Compress*/tj3Decompress* and jpeg_write/read_scanlines
      (8/12/16-bit): byte-identical JPEGs across formats x pitches x row orders; identical
      channels after decompression; TJPF_GRAY / JCS_GRAYSCALE == raw-data component 0 (YCbCr, gray JPEGs)
      and == the fixed-point luminance of the same JPEG decoded to RGB (RGB-colourspace JPEGs).
"""
import json
import os
from vlib import core
from vlib.core import sh2

# documented layouts (jpeglib.h J_COLOR_SPACE comments): cs -> (r, g, b, alpha, pixelsize)
DOC = {2: (0, 1, 2, -1, 3), 6: (0, 1, 2, -1, 3), 7: (0, 1, 2, -1, 4), 8: (2, 1, 0, -1, 3), 9: (2, 1, 0, -1, 4),
       10: (3, 2, 1, -1, 4), 11: (1, 2, 3, -1, 4), 12: (0, 1, 2, 3, 4), 13: (2, 1, 0, 3, 4),
       14: (3, 2, 1, 0, 4), 15: (1, 2, 3, 0, 4)}
CSNAME = {2: "RGB", 6: "EXT_RGB", 7: "EXT_RGBX", 8: "EXT_BGR", 9: "EXT_BGRX", 10: "EXT_XBGR", 11: "EXT_XRGB",
          12: "EXT_RGBA", 13: "EXT_BGRA", 14: "EXT_ABGR", 15: "EXT_ARGB"}
PADS = [0, 1, 5, 32]
NARROW_565_OK = False
WIDE = [65, 96, 129, 200, 300, 333]      # well above the 16/32/64-pixel loops of the SSE2/AVX2 colour and merged kernels
FLAVOUR_ENV = {"sse2": {"JSIMD_FORCESSE2": "1"}}
WIDTHS = [1, 2, 3, 4, 5, 7, 8, 9, 15, 16, 17, 23, 31, 32, 33, 40, 47, 48, 49]


def sample(rng, mx, style):
    if style == 0:
        return rng.below(mx + 1)
    if style == 1:
        return rng.choice([0, mx, mx - 1, 1, (mx + 1) // 2, (mx + 1) // 2 - 1])
    if style == 2:
        return rng.choice([0, mx])
    return min(mx, max(0, (mx + 1) // 2 + rng.range(-3, 3)))


def junk(rng, n, bits):
    if bits == 8:
        return list(rng.bytes(n))
    if bits == 12:   # J12SAMPLE is a short: anything may sit in filler positions
        return [rng.range(-32768, 32767) if rng.chance(1, 4) else rng.below(4096) for _ in range(n)]
    return [rng.below(65536) for _ in range(n)]


def row_start(i, h, pitch, bu):
    return (h - 1 - i) * pitch if bu else i * pitch


def gen_kernel_group(rng, op, bits):
    """returns dict(kind, op, bits, w, h, lines=[...], meta=[per line dict])"""
    mx = (1 << bits) - 1
    w = rng.choice(WIDTHS) if rng.chance(2, 3) else rng.range(1, 50)
    h = rng.range(1, 4)
    if bits == 8 and op in ("c2y", "c2g", "y2c", "m1", "m2") and rng.chance(1, 5):
        w, h = rng.choice(WIDE), rng.range(1, 2)
    style = rng.below(4)
    g = {"kind": "k-" + op, "op": op, "bits": bits, "w": w, "h": h, "lines": [], "meta": []}
    if op in ("c2y", "c2g", "c2r"):
        pic = [[tuple(sample(rng, mx, style) for _ in range(3)) for _ in range(w)] for _ in range(h)]
        if bits == 12 and op != "c2r" and rng.chance(1, 3):      # out-of-range shorts: masked by RANGE_LIMIT
            for _ in range(rng.range(1, 4)):
                y, x = rng.below(h), rng.below(w)
                pic[y][x] = tuple(rng.range(-32768, 32767) for _ in range(3))
        g["pic"] = pic
        for cs in sorted(DOC):
            r, gg, b, a, ps = DOC[cs]
            pitch = w * ps + rng.choice(PADS)
            bu = rng.below(2)
            buf = junk(rng, h * pitch, bits)
            for y in range(h):
                s = row_start(y, h, pitch, bu)
                for x in range(w):
                    buf[s + x * ps + r], buf[s + x * ps + gg], buf[s + x * ps + b] = pic[y][x]
            g["lines"].append("k %s %d %d %d %d %d %d | %s" % (op, bits, cs, w, h, pitch, bu, " ".join(map(str, buf))))
            g["meta"].append({"cs": cs, "pitch": pitch, "bu": bu})
    elif op in ("y2c", "r2c", "g2c", "m1", "m2"):
        cw = (w + 1) // 2 if op[0] == "m" else w
        chh = (h + 1) // 2 if op == "m2" else h
        npl = 1 if op == "g2c" else 3
        planes = []
        for k in range(npl):
            pw, ph = (w, h) if (k == 0 or op[0] != "m") else (cw, chh)
            planes.append([sample(rng, mx, style) for _ in range(pw * ph)])
        g["planes"] = planes
        for cs in sorted(DOC):
            r, gg, b, a, ps = DOC[cs]
            pitch = w * ps + rng.choice(PADS)
            bu = rng.below(2)
            buf = junk(rng, h * pitch, bits)
            g["lines"].append("k %s %d %d %d %d %d %d | %s | %s" % (
                op, bits, cs, w, h, pitch, bu, " | ".join(" ".join(map(str, p)) for p in planes), " ".join(map(str, buf))))
            g["meta"].append({"cs": cs, "pitch": pitch, "bu": bu, "init": buf})
    elif op in ("c2k", "k2c"):      # CMYK <-> YCCK: 4 samples per pixel, no layouts; pitch and row order
        planes = [[sample(rng, mx, style) for _ in range(w * h)] for _ in range(4)]
        g["planes"] = planes
        for pad in PADS:
            bu = rng.below(2)
            pitch = w * 4 + pad
            buf = junk(rng, h * pitch, bits)
            if op == "c2k":
                for y in range(h):
                    s0 = row_start(y, h, pitch, bu)
                    for x in range(w):
                        for c in range(4):
                            buf[s0 + 4 * x + c] = planes[c][y * w + x]
                g["lines"].append("k c2k %d 4 %d %d %d %d | %s" % (bits, w, h, pitch, bu, " ".join(map(str, buf))))
            else:
                g["lines"].append("k k2c %d 4 %d %d %d %d | %s | %s" % (
                    bits, w, h, pitch, bu, " | ".join(" ".join(map(str, p)) for p in planes), " ".join(map(str, buf))))
            g["meta"].append({"cs": 4, "pitch": pitch, "bu": bu, "init": buf})
    elif op[0] == "m" and op[2:3] == "5":     # merged upsampling to RGB565 (jdmrg565.c): widths 1..5 and SIMD-ish widths, rows at 0/2 mod 4
        if rng.chance(1, 2):
            w = g["w"] = rng.range(1, 5)
        cw = (w + 1) // 2
        chh = (h + 1) // 2 if op[1] == "2" else h
        planes = [[sample(rng, mx, style) for _ in range(w * h)]] + [[sample(rng, mx, style) for _ in range(cw * chh)] for _ in range(2)]
        g["planes"] = planes
        for mis, pad in [(0, 0), (2, 0), (2, 2), (0, 6), (2, 32), (0, 2)]:
            bu = rng.below(2)
            scan0 = rng.below(4)
            pitch = 2 * w + pad
            buf = junk(rng, h * pitch, 8)
            fl = bu | (mis << 1) | (scan0 << 6)
            g["lines"].append("k %s 8 16 %d %d %d %d | %s | %s" % (
                op, w, h, pitch, fl, " | ".join(" ".join(map(str, p)) for p in planes), " ".join(map(str, buf))))
            g["meta"].append({"cs": 16, "pitch": pitch, "bu": bu, "mis": mis, "chunk": 1, "init": buf})
    elif op[1] == "5":              # RGB565 (8-bit): alignment of the row pointers, rows per color_convert call, pitch, row order
        if NARROW_565_OK and rng.chance(1, 4):
            w = g["w"] = rng.range(1, 3)    # regression input for F54: num_cols underflow when unaligned rows per call > width
        elif w < h + 1:
            w = g["w"] = h + 1      # (only generated when the source resets num_cols per row: the carried-num_cols model would spin)
        npl = 1 if op[0] == "g" else 3
        planes = [[sample(rng, mx, style) for _ in range(w * h)] for _ in range(npl)]
        g["planes"] = planes
        variants = [(0, 0, 0), (2, 1, 0), (2, 0, 0), (0, 0, 2), (0, 1, 6), (2, 0, 6), (0, 2, 32), (2, 2, 4)]
        for mis, chunk, pad in variants:
            bu = rng.below(2)
            scan0 = rng.below(4)
            pitch = 2 * w + pad
            buf = junk(rng, h * pitch, 8)
            fl = bu | (mis << 1) | (chunk << 3) | (scan0 << 6)
            g["lines"].append("k %s 8 16 %d %d %d %d | %s | %s" % (
                op, w, h, pitch, fl, " | ".join(" ".join(map(str, p)) for p in planes), " ".join(map(str, buf))))
            g["meta"].append({"cs": 16, "pitch": pitch, "bu": bu, "mis": mis, "chunk": chunk or h, "init": buf})
    else:   # y2g / r2g : no layouts, pitch and row order only
        planes = [[sample(rng, mx, style) for _ in range(w * h)] for _ in range(3)]
        g["planes"] = planes
        for pad in PADS:
            for bu in (0, 1):
                pitch = w + pad
                buf = junk(rng, h * pitch, bits)
                g["lines"].append("k %s %d 1 %d %d %d %d | %s | %s" % (
                    op, bits, w, h, pitch, bu, " | ".join(" ".join(map(str, p)) for p in planes), " ".join(map(str, buf))))
                g["meta"].append({"cs": 1, "pitch": pitch, "bu": bu, "init": buf})
    return g


def gen_api(rng, mode, thorough):
    bits = rng.choice([8, 8, 8, 8, 12, 12, 16])
    lossless = 1 if bits == 16 else (1 if rng.chance(1, 5) else 0)
    prec = bits
    if lossless:
        prec = {8: rng.range(2, 8), 12: rng.range(9, 12), 16: rng.range(13, 16)}[bits] if rng.chance(1, 2) else bits
    big = 96 if thorough else 40
    w = rng.choice(WIDTHS) if rng.chance(1, 2) else rng.range(1, big)
    h = rng.range(1, big if rng.chance(1, 3) else 12)
    if mode == "dec" and rng.chance(1, 6):
        w = rng.range(1, 5)         # narrow images: RGB565 rows shorter than the rows-per-call (F54 class)
    subsamp = rng.below(7)
    wide = rng.chance(1, 4)
    if wide:                        # several SIMD loop iterations + every tail length class
        w, h = rng.choice(WIDE) + rng.choice([0, 0, 1, 7, 31]), rng.range(1, 6)
        if rng.chance(2, 3):
            subsamp = rng.choice([1, 2])    # 4:2:2 / 4:2:0: merged upsampling when TJPARAM_FASTUPSAMPLE is set
    qual = rng.choice([1, 25, 50, 75, 90, 95, 100, rng.range(1, 100)])
    cspace = -1
    if not lossless and rng.chance(3, 10):
        cspace = rng.choice([0, 1, 2])
    if not lossless and mode == "dec" and rng.chance(1, 8):
        cspace = 0      # JPEG stored in the RGB colourspace: gray output goes through rgb_gray_convert
    flags = 0
    if rng.chance(1, 4):
        flags |= 1
    if rng.chance(1, 5):
        flags |= 2
    if rng.chance(1, 6):
        flags |= 4
    if rng.chance(1, 5):
        flags |= 8
    if mode == "dec":
        if rng.chance(1, 2) or (wide and rng.chance(1, 2)):
            flags |= 16
        if rng.chance(1, 4):
            flags |= rng.range(1, 15) << 8
    psv = rng.range(1, 7)
    pt = rng.below(min(prec, 4)) if lossless and rng.chance(1, 3) else 0
    kind = rng.below(5)
    seed = rng.next() >> 1
    line = "%s %d %d %d %d %d %d %d %d %d %d %d %d %d" % (mode, bits, w, h, subsamp, qual, cspace, lossless, psv, pt, prec, flags, seed, kind)
    return {"kind": "api-%s-%d%s" % (mode, bits, "L" if lossless else ""), "lines": [line], "meta": [None]}


def gen_legacy(rng):
    """a call SEQUENCE through the legacy TurboJPEG 1.x/2.x entry points on one compress, one decompress and one transform
    handle, TJFLAG_BOTTOMUP (and the other cheap flags) switched on and off between calls"""
    w = rng.choice(WIDTHS) if rng.chance(1, 2) else rng.range(1, 40)
    h = rng.range(2, 24)
    subsamp = rng.below(7)
    qual = rng.choice([50, 75, 90, 95, 96, 100, rng.range(1, 100)])
    ns = rng.range(5, 10)
    cls = rng.choice([None, None, (0, 2, 4), (1, 3, 5), (0,), (1,), (6, 1)])
    bu = rng.below(2)
    steps = []
    for i in range(ns):
        entry = rng.choice(cls) if cls else rng.below(7)
        if not rng.chance(1, 4):
            bu = 1 - bu           # on, off, on, ...
        st = entry | (bu << 4)
        for bit in (5, 6, 7, 8, 9):
            if rng.chance(1, 4):
                st |= 1 << bit
        st |= rng.below(11) << 10
        st |= rng.below(4) << 14
        st |= rng.below(8) << 16
        st |= rng.below(2) << 19
        steps.append(st)
    line = "leg %d %d %d %d %d %d %d %s" % (w, h, subsamp, qual, rng.next() >> 1, rng.below(5), ns, " ".join(map(str, steps)))
    return {"kind": "api-legacy", "lines": [line], "meta": [None]}


def judge_legacy(g, out):
    toks = out.split()
    if not toks or toks[0] != "leg" or len(toks) < 2 or "ERRsrc" in out or "ERRyuv" in out:
        return ("legacy sequence produced no steps: " + out[:80], "api-error:leg")
    hist = []
    for t in toks[1:]:
        key, val = t.split("=", 1)
        step, entry, flags = key.split(":")
        a, b = val.split("/", 1)
        if a != b:
            return ("legacy %s (step %s, flags 0x%x%s) differs from the tj3 result of a fresh instance for the same picture, row order "
                    "and options; earlier calls on the handles: %s" % (entry, step[1:], int(flags), " BOTTOMUP" if int(flags) & 2 else " top-down",
                                                                      " ".join(hist) or "none"), "legacy-history:" + entry)
        hist.append("%s(0x%x)" % (entry, int(flags)))
    return None


# ------------------------------------------------------------------ oracles on the implementation's output
def ints(s):
    return [int(x) for x in s.split()]


def py_clamp(v, mx):
    return 0 if v < 0 else mx if v > mx else v


def py_rgb_of_ycc(y, cb, cr, mx):
    """JFIF YCbCr -> RGB in the documented 16-bit fixed point"""
    c = (mx + 1) // 2
    return (py_clamp(y + ((91881 * (cr - c) + 32768) >> 16), mx),
            py_clamp(y + ((-22554 * (cb - c) - 46802 * (cr - c) + 32768) >> 16), mx),
            py_clamp(y + ((116130 * (cb - c) + 32768) >> 16), mx))


def py_ycc_of_rgb(r, g, b, mx):
    c = (mx + 1) // 2
    return ((19595 * r + 38470 * g + 7471 * b + 32768) >> 16,
            (-11059 * r - 21709 * g + 32768 * b + (c << 16) + 32767) >> 16,
            (32768 * r - 27439 * g - 5329 * b + (c << 16) + 32767) >> 16)


def judge_4comp(g, outs):
    op, w, h, bits = g["op"], g["w"], g["h"], g["bits"]
    mx = (1 << bits) - 1
    pl = g["planes"]
    for m, o in zip(g["meta"], outs):
        if not o.startswith("ok"):
            return ("kernel case failed: " + o[:60], "kernel-error:" + op)
        if op == "c2k":
            got = [ints(x) for x in o[2:].split("|")]
            if len(got) != 4 or got[3] != pl[3]:
                return ("c2k: the K plane is not the K samples of the CMYK pixels (pitch %d bottomup %d)" % (m["pitch"], m["bu"]), "cmyk:k-plane")
            exp = [py_ycc_of_rgb(mx - pl[0][i], mx - pl[1][i], mx - pl[2][i], mx) for i in range(w * h)]
            for c in range(3):
                if got[c] != [e[c] for e in exp]:
                    return ("c2k: YCC plane %d is not the conversion of the complemented C,M,Y (pitch %d bottomup %d, %d-bit)" % (c, m["pitch"], m["bu"], bits),
                            "cmyk:ycck-plane%d" % c)
        else:
            buf, init, pitch, bu = ints(o[2:]), m["init"], m["pitch"], m["bu"]
            inside = set()
            for y in range(h):
                s0 = row_start(y, h, pitch, bu)
                for x in range(w):
                    i = y * w + x
                    r, gg, b = py_rgb_of_ycc(pl[0][i], pl[1][i], pl[2][i], mx)
                    exp = [mx - r, mx - gg, mx - b, pl[3][i]]
                    if buf[s0 + 4 * x:s0 + 4 * x + 4] != exp:
                        return ("k2c: CMYK pixel (%d,%d) is %s, expected %s = (MAX-R, MAX-G, MAX-B, K) (pitch %d bottomup %d, %d-bit)"
                                % (x, y, buf[s0 + 4 * x:s0 + 4 * x + 4], exp, pitch, bu, bits), "cmyk:ycck-cmyk")
                inside.update(range(s0, s0 + 4 * w))
            for i in range(len(buf)):
                if i not in inside and buf[i] != init[i]:
                    return ("k2c: wrote outside the row extent (index %d)" % i, "overwrite:k2c")
    return None


def judge_565(g, outs):
    op, w, h = g["op"], g["w"], g["h"]
    pl = g["planes"]
    dith = op.endswith("d")
    for m, o in zip(g["meta"], outs):
        if not o.startswith("ok"):
            return ("kernel case failed: " + o[:60], "kernel-error:" + op)
        buf, init, pitch, bu = ints(o[2:]), m["init"], m["pitch"], m["bu"]
        inside = set()
        for y in range(h):
            s0 = row_start(y, h, pitch, bu)
            inside.update(range(s0, s0 + 2 * w))
            if dith:
                continue
            for x in range(w):
                i = y * w + x
                if op[0] == "r":
                    r, gg, b = pl[0][i], pl[1][i], pl[2][i]
                elif op[0] == "g":
                    r = gg = b = pl[0][i]
                elif op[0] == "m":
                    cw = (w + 1) // 2
                    ci = (y // 2 if op[1] == "2" else y) * cw + x // 2
                    r, gg, b = py_rgb_of_ycc(pl[0][i], pl[1][ci], pl[2][ci], 255)
                else:
                    r, gg, b = py_rgb_of_ycc(pl[0][i], pl[1][i], pl[2][i], 255)
                v = ((r << 8) & 0xF800) | ((gg << 3) & 0x7E0) | (b >> 3)
                got = buf[s0 + 2 * x] + 256 * buf[s0 + 2 * x + 1]
                if got != v:
                    unwritten = buf[s0 + 2 * x:s0 + 2 * w] == init[s0 + 2 * x:s0 + 2 * w]
                    if unwritten and m["mis"] + pitch % 4 != 0 and m["chunk"] > 1 and y % m["chunk"] != 0:
                        return ("RGB565 (%s): the last %d pixel(s) of row %d (%d rows per color_convert call, output address %% 4 = %d, pitch %d, w %d) "
                                "were not written: jdcol565.c decrements num_cols in the alignment branch and never resets it for the next row"
                                % (op, w - x, y, m["chunk"], m["mis"], pitch, w), "rgb565-unaligned-multirow")
                    return ("RGB565 (%s): pixel (%d,%d) is 0x%04x, expected 0x%04x (address %% 4 = %d, pitch %d, %d rows per call)"
                            % (op, x, y, got, v, m["mis"], pitch, m["chunk"]), "rgb565-wrong:" + op)
        for i in range(len(buf)):
            if i not in inside and buf[i] != init[i]:
                return ("RGB565 (%s): wrote outside the 2*w extent of the rows (index %d)" % (op, i), "overwrite:" + op)
    return None


def judge_kernel(g, outs):
    """property-level oracle on the implementation's own lines; returns (message, signature) or None"""
    op, w, h, bits = g["op"], g["w"], g["h"], g["bits"]
    if op in ("c2k", "k2c"):
        return judge_4comp(g, outs)
    if op[1] == "5" or (op[0] == "m" and op[2:3] == "5"):
        return judge_565(g, outs)
    amax = (1 << bits) - 1
    for o in outs:
        if not o.startswith("ok"):
            return ("kernel case failed: " + o[:60], "kernel-error:" + op)
    if op in ("c2y", "c2g", "c2r"):
        for m, o in zip(g["meta"], outs):
            if o != outs[0]:
                return ("%s: component planes differ between JCS_%s and JCS_%s for the same picture (pitch %d, bottomup %d, %d-bit)"
                        % (op, CSNAME[g["meta"][0]["cs"]], CSNAME[m["cs"]], m["pitch"], m["bu"], bits), "compress-layout:%s:%s" % (op, CSNAME[m["cs"]]))
        if op == "c2r":   # rgb -> rgb planes is the identity on the picture
            exp = " | ".join(" ".join(str(g["pic"][y][x][c]) for y in range(h) for x in range(w)) for c in range(3))
            if outs[0] != "ok " + exp:
                return ("c2r: RGB planes are not the picture", "compress-layout:c2r:identity")
        return None
    ref = None
    for m, o in zip(g["meta"], outs):
        buf = ints(o[2:])
        init = m["init"]
        if len(buf) != len(init):
            return ("output buffer length", "kernel-error:" + op)
        cs, pitch, bu = m["cs"], m["pitch"], m["bu"]
        if op in ("y2g", "r2g"):
            r, gg, b, a, ps = 0, 0, 0, -1, 1
        else:
            r, gg, b, a, ps = DOC[cs]
        inside = set()
        px = []
        for y in range(h):
            s = row_start(y, h, pitch, bu)
            for x in range(w):
                q = s + x * ps
                px.append((buf[q + r], buf[q + gg], buf[q + b]))
                if a >= 0 and cs >= 12 and buf[q + a] != amax:
                    return ("%s: alpha sample of JCS_%s is %d, not %d (x=%d y=%d)" % (op, CSNAME[cs], buf[q + a], amax, x, y),
                            "alpha:%s:%s" % (op, CSNAME[cs]))
            inside.update(range(s, s + w * ps))
        for i in range(len(buf)):
            if i not in inside and buf[i] != init[i]:
                return ("%s: JCS_%s wrote outside the row extent (index %d, pitch %d, w*ps %d, bottomup %d)"
                        % (op, CSNAME.get(cs, "GRAY"), i, pitch, w * ps, bu), "overwrite:%s:%s" % (op, CSNAME.get(cs, "GRAY")))
        if op == "y2g":
            if [p[0] for p in px] != g["planes"][0]:
                return ("y2g: gray output is not component 0 (pitch %d bottomup %d)" % (pitch, bu), "gray-not-luma:kernel")
        elif op == "r2g":   # JCS_RGB JPEG -> gray: the documented fixed-point luminance of the R,G,B planes
            exp = [(19595 * rr + 38470 * g2 + 7471 * bb + 32768) >> 16 for rr, g2, bb in zip(*g["planes"])]
            got = [p[0] for p in px]
            if got != exp:
                k = [i for i in range(len(exp)) if got[i] != exp[i]][0]
                return ("r2g: gray output of an RGB-colourspace JPEG is not the luminance: R=%d G=%d B=%d -> %d, expected %d (%d-bit)"
                        % (g["planes"][0][k], g["planes"][1][k], g["planes"][2][k], got[k], exp[k], bits), "gray-not-luma:rgb-kernel")
        elif op == "r2c":
            if px != list(zip(*g["planes"])):
                return ("r2c: JCS_%s output is not the RGB planes" % CSNAME[cs], "decompress-layout:r2c:" + CSNAME[cs])
        elif op == "g2c":
            if px != [(v, v, v) for v in g["planes"][0]]:
                return ("g2c: JCS_%s output is not the gray plane replicated" % CSNAME[cs], "decompress-layout:g2c:" + CSNAME[cs])
        if ref is None:
            ref = px
        elif px != ref:
            return ("%s: decoded r,g,b differ between JCS_%s and JCS_%s for the same planes (pitch %d, bottomup %d)"
                    % (op, CSNAME.get(g["meta"][0]["cs"], "GRAY"), CSNAME.get(cs, "GRAY"), pitch, bu), "decompress-layout:%s:%s" % (op, CSNAME.get(cs, "GRAY")))
    return None


def judge_api(g, out):
    line = g["lines"][0]
    toks = out.split()
    if not toks or toks[0] not in ("enc", "dec") or len(toks) < 9:
        return ("API case produced no variants: " + out[:80], "api-error:" + line.split()[0])
    mode = toks[0]
    groups = {}
    for t in toks[1:]:
        if "=" not in t or ":" not in t:
            return ("API case output malformed: " + t[:60], "api-error:" + mode)
        key, val = t.split("=", 1)
        grp, name = key.split(":", 1)
        groups.setdefault(grp, []).append((name, val))
    for grp, vs in sorted(groups.items()):
        ref = vs[0]
        for name, val in vs:
            fmt = name.split("+")[0].split(".")[0]
            if mode == "dec" and "ERR" not in val:
                hh, ba, tc = val.split(".")
                if ba != "0":
                    return ("decompress: %s alpha samples of %s are not the maximum sample value" % (ba, name), "alpha:api:" + fmt)
                if tc != "0":
                    return ("decompress: %s samples outside the w*ps extent of the rows were modified (%s)" % (tc, name), "overwrite:api:" + fmt)
            if val != ref[1]:
                what = "JPEG bytes" if mode == "enc" else ("gray/luminance samples" if grp == "gray" else "decoded channels")
                if grp == "gray" and "lumaOfRGB" in (ref[0], name):
                    return ("dec: RGB-colourspace JPEG decoded to gray is not the luminance of the same JPEG decoded to RGB (%s vs %s)"
                            % (ref[0], name), "gray-not-luma:rgb-jpeg")
                return ("%s: %s differ between %s and %s (group %s)" % (mode, what, ref[0], name, grp), "%s-mismatch:%s:%s" % (mode, grp, fmt))
    return None


# ------------------------------------------------------------------ driver
def run(ctx):
    rng = ctx.rng
    ctx.regen(["Layouts"])
    global NARROW_565_OK
    try:
        NARROW_565_OK = "rgb565_numcols_reset_per_row : bool := true" in open(os.path.join(core.COQ, "gen", "GenLayouts.v")).read()
    except OSError:
        NARROW_565_OK = False
    ctx.cov["rgb565_narrow_regression_inputs"] = NARROW_565_OK
    ctx.prove()
    drv = ctx.model_driver()
    flavours = ["simd", "plain"] if not ctx.thorough() else ["simd", "plain", "asan"]
    exes = {fl: ctx.cc("c10", ["c10.c"], fl, libs=("turbojpeg",)) for fl in flavours}
    flavours = flavours[:1] + ["sse2"] + flavours[1:]     # same AVX2 build, dispatch limited to SSE2 (JSIMD_FORCESSE2=1)
    exes["sse2"] = exes["simd"]

    groups = []
    if ctx.replay:
        r = json.load(open(ctx.replay))
        if "group" in r:
            groups.append(r["group"])
        return run_groups(ctx, groups, exes, drv, flavours)
    cdir = os.path.join(core.VERIF, "corpus", "C10")
    if os.path.isdir(cdir):
        for fn in sorted(os.listdir(cdir)):
            if fn.endswith(".json"):
                groups.append(json.load(open(os.path.join(cdir, fn))))
    ops8 = ["c2y", "c2g", "c2r", "y2c", "g2c", "r2c", "y2g", "r2g", "m1", "m2", "c2k", "k2c", "y5", "r5", "g5", "y5d", "r5d", "g5d", "m15", "m25", "m15d", "m25d"]
    nk = ctx.n(900, 7000)
    for i in range(nk):
        op = ops8[i % len(ops8)] if i < 3 * len(ops8) else rng.choice(ops8)
        bits = 8
        if rng.chance(1, 3):
            bits = 12
        if op in ("c2r", "r2c") and rng.chance(1, 6):
            bits = 16
        if op[1] == "5" or op[2:3] == "5":
            bits = 8
        groups.append(gen_kernel_group(rng, op, bits))
    for i in range(ctx.n(800, 8000)):
        groups.append(gen_api(rng, "enc", ctx.thorough()))
    for i in range(ctx.n(800, 8000)):
        groups.append(gen_api(rng, "dec", ctx.thorough()))
    for i in range(ctx.n(600, 6000)):
        groups.append(gen_legacy(rng))
    return run_groups(ctx, groups, exes, drv, flavours)


def run_groups(ctx, groups, exes, drv, flavours):
    lines = [l for g in groups for l in g["lines"]]
    if not lines:
        return
    inp = ("\n".join(lines) + "\n").encode()
    outs = {}
    for fl in flavours:
        exe = exes[fl]
        rc, out, err = sh2([exe], input=inp, timeout=3000, env=FLAVOUR_ENV.get(fl))
        ol = out.decode(errors="replace").split("\n")
        if ol and ol[-1] == "":
            ol.pop()
        if rc != 0 or len(ol) < len(lines):
            idx = min(len(ol), len(lines) - 1)
            # find the group of the crashing line
            k, gi = 0, 0
            for gi, g in enumerate(groups):
                if k + len(g["lines"]) > idx:
                    break
                k += len(g["lines"])
            ctx.violation("implementation crashed/aborted (%s build, rc=%d) on line %d: %s" % (fl, rc, idx, err[-300:]),
                          {"group": slim(groups[gi]), "flavour": fl, "stderr": err[-2000:]}, signature="crash:" + groups[gi]["kind"])
            ol += ["<no output>"] * (len(lines) - len(ol))
        outs[fl] = ol
    mlines = None
    if drv:
        rc, out, err = sh2([drv], input=inp, timeout=3000)
        mlines = out.decode().split("\n")
        if rc != 0 or len(mlines) < len(lines):
            ctx.broken_tie("model-driver", "extracted model failed: rc=%d %s" % (rc, err[-200:]))
            mlines = None
    k = 0
    disagree = 0
    nmodel = 0
    for gi, g in enumerate(groups):
        n = len(g["lines"])
        bad_by_oracle = False
        for fl in flavours:
            o = outs[fl][k:k + n]
            res = (judge_kernel(g, o) if g["kind"].startswith("k-") else
                   judge_legacy(g, o[0]) if g["kind"] == "api-legacy" else judge_api(g, o[0]))
            if res:
                bad_by_oracle = True
                ctx.violation("%s [%s build]" % (res[0], fl), {"group": slim(g), "flavour": fl, "impl": [x[:400] for x in o]}, signature=res[1])
        if g["kind"].startswith("k-"):
            ref = outs[flavours[0]][k:k + n]
            for fl in flavours[1:]:
                if outs[fl][k:k + n] != ref:
                    j = [i for i in range(n) if outs[fl][k + i] != ref[i]][0]
                    ctx.violation("builds disagree (%s vs %s) on %s" % (flavours[0], fl, g["lines"][j][:60]),
                                  {"group": slim(g), flavours[0]: ref[j][:400], fl: outs[fl][k + j][:400]}, signature="build-disagree:" + g["kind"])
            if mlines is not None:
                for fl in flavours:
                    for i in range(n):
                        nmodel += 1
                        if mlines[k + i] != outs[fl][k + i]:
                            disagree += 1
                            if disagree <= 3:
                                ctx.log("model/impl disagree (%s)" % fl, g["lines"][i][:70], "\n  model:", mlines[k + i][:150], "\n  impl :", outs[fl][k + i][:150])
                            if not bad_by_oracle:
                                ctx.broken_tie("correspondence:" + g["kind"],
                                               "model and implementation (%s) differ on: %s || model=%s || impl=%s" % (
                                                   fl, g["lines"][i][:200], mlines[k + i][:200], outs[fl][k + i][:200]))
                            break
            ctx.count(g["kind"] + "-%d" % g["bits"], n, (g["kind"], tuple(outs[flavours[0]][k:k + n][:1])))
        else:
            o = outs[flavours[0]][k]
            nvar = len(o.split()) - 1
            ctx.count(g["kind"], nvar, (g["kind"], o[:200]))
        if gi % 97 == 0:
            ctx.sample({"case": g["lines"][0][:300], "impl": outs[flavours[0]][k][:300]})
        k += n
    ctx.cov["traces_validated_against_impl"] = nmodel
    ctx.cov["model_impl_disagreements"] = disagree
    ctx.cov["rule"] = ("kernel groups: one picture / one set of planes presented to all 11 RGB-family colour spaces with random filler, "
                       "pitch w*ps+{0,1,5,32}, both row orders, 8/12/16-bit, widths around the SIMD vector sizes, through the real "
                       "(SIMD and C) rgb->ycc, rgb->gray, rgb->rgb, ycc->rgb, gray->rgb, rgb->ext, ycc->gray, rgb->gray (decompressor) and merged h2v1/h2v2 routines; "
                       "API cases: each picture through 10 TJ pixel formats (+GRAY, CMYK) x 4 paddings x 2 row orders and 11 JCS_* x 2 row-pointer "
                       "arrangements, lossy and lossless, all subsamplings; legacy sequences: 5-10 calls of tjCompress2/tjDecompress2/tjEncodeYUV3/tjDecodeYUV/tjCompressFromYUV/tjDecompressToYUV2/tjTransform on one compress, one decompress and one transform handle with TJFLAG_BOTTOMUP/FASTUPSAMPLE/FASTDCT/ACCURATEDCT/NOREALLOC/PROGRESSIVE switched on and off, each call compared with a fresh tj3 instance; a case is distinct when its first output line is distinct; "
                       "evaluations counts compress/decompress calls and kernel lines")
    ctx.assume += ["correspondence is differential testing of the hand model against the real kernels; it supports the tie, not the theorems",
                   "alpha = maximum sample value is read as _MAXJSAMPLE of the sample type (255/4095/65535), also for lossless precisions below it",
                   "the X byte of the non-alpha 4-sample formats after decompression is documented as undefined and is not judged by the oracle "
                   "(the C kernels, hence the model, write _MAXJSAMPLE)",
                   "JPEG bytes are compared within one build and one API; SIMD-vs-scalar and cross-parameter equalities belong to C05"]


def slim(g):
    return {k: v for k, v in g.items()}
