"""C18 -- image file loading is robust; save/load round-trips exactly.

1. translator   : gen_Pnm (rdppm.c / wrppm.c / jmorecfg.h / turbojpeg.c constructs the model is
                  parameterised by: range tests, rescale[] size, fast-path guards, writer byte order,
                  pixel-format layouts)
2. proofs       : coq/props/C18.v  (model/Pnm.v, model/Bmp.v, proofs/Pnm*.v, proofs/Bmp*.v)
3. correspondence: extracted model (ml/C18_driver) vs harness/c18.c, which calls the REAL
                  tj3LoadImage8/12/16 and tj3SaveImage8/12/16 of the working tree on files written
                  under build/, on the same case lines (PNM and BMP files; accept/reject class and
                  every returned sample / every written byte).
4. property-level oracle on the implementation's own output, independent of the model: every returned
   sample <= 2^prec-1, sample count = w*h*pixelsize, pixel limit honoured, save->load identity
   (precisions 2..16 x pixel formats x bottom-up x alignment x pitch), no sanitizer report / crash /
   timeout, for PNM, BMP, GIF and Targa files through tj3LoadImage* and through cjpeg's front end
   (select_file_type + start_input + get_pixel_rows + jpeg_write_scanlines, run in the harness).
"""
import json
import os
from vlib import core
from vlib.core import sh2

PS = [3, 3, 4, 4, 4, 4, 1, 4, 4, 4, 4, 4]
EXTRA = "-DBMP_SUPPORTED -DGIF_SUPPORTED -DPPM_SUPPORTED -DTARGA_SUPPORTED"


# ----------------------------------------------------------------------------- PNM generator
def ws(rng, must=True):
    """white space / comments between header tokens"""
    out = b""
    n = rng.range(1 if must else 0, 3)
    for _ in range(n):
        k = rng.below(12)
        if k < 6:
            out += rng.choice([b" ", b"\n", b"\t", b"\r", b"\n", b" "])
        elif k < 9:
            out += rng.choice([b" ", b"\n"]) + b"#" + bytes(rng.choice(b" abc#012P5\t\r") for _ in range(rng.below(6))) + b"\n"
        else:
            out += rng.choice([b"  ", b"\r\n", b"\n\n"])
    return out


def num(rng, v):
    s = str(v).encode()
    if rng.chance(1, 12):
        s = b"0" * rng.range(1, 3) + s
    return s


MAXVALS = [1, 2, 3, 4, 7, 8, 9, 15, 16, 31, 63, 100, 127, 128, 254, 255, 256, 257, 511, 1000, 1023, 2047, 4095, 4096,
           8191, 16383, 32767, 32768, 65534, 65535]


def pick_maxval(rng, prec):
    k = rng.below(10)
    if k < 4:
        return (1 << prec) - 1
    if k < 5:
        return min(65535, max(1, (1 << prec) - 1 + rng.choice([-1, 1])))
    if k < 8:
        return rng.choice(MAXVALS)
    return rng.range(1, 65535)


def pnm_file(rng, prec, small=True):
    """structured, mostly valid PNM; returns (bytes, tag)"""
    magic = rng.choice([2, 3, 5, 6])
    w = rng.range(1, 6) if small else rng.range(1, 40)
    h = rng.range(1, 5) if small else rng.range(1, 30)
    if rng.chance(1, 10):
        w = rng.range(1, 40)
    maxval = pick_maxval(rng, prec)
    ncomp = 3 if magic in (3, 6) else 1
    tag = "P%d" % magic
    hw, hh, hm = num(rng, w), num(rng, h), num(rng, maxval)
    # header field mutations
    mut = rng.below(40)
    if mut == 0:
        hw = rng.choice([b"0", b"65536", b"99999", b"-1", b"x", b"4294967297", b"65535"]); tag += "-badw"
    elif mut == 1:
        hh = rng.choice([b"0", b"65536", b"70000", b"-3", b"", b"65535"]); tag += "-badh"
    elif mut == 2:
        hm = rng.choice([b"0", b"65536", b"65540", b"1e3", b"0x10", b"99999999999999999999"]); tag += "-badmax"
    elif mut == 3:
        magic = rng.choice([1, 4, 7, 0, 9]); tag += "-badmagic"
    head = b"P" + str(magic).encode()
    if mut == 4:
        head = rng.choice([b"p5", b"P", b"PP5", b" P5", b"P\n5"]); tag += "-badsig"
    hdr = head + ws(rng) + hw + ws(rng) + hh + ws(rng) + hm
    n = w * h * ncomp
    if magic in (2, 3) or (mut == 3 and rng.chance(1, 2)):
        body = b""
        style = rng.below(8)
        for i in range(n):
            v = rng.range(0, maxval)
            r = rng.below(60)
            if r == 0:
                v = maxval + rng.range(1, 10); tag += "-over"
            elif r == 1 and maxval < 9:
                v = rng.range(maxval + 1, 9); tag += "-over1"      # single digit above maxval
            elif r == 2:
                v = rng.choice([0, maxval, maxval // 2, 1])
            body += ws(rng) if style else rng.choice([b" ", b"\n"])
            r2 = rng.below(200)
            if r2 == 0:
                body += rng.choice([b"x", b"-", b"+1", b".", b"\x00", b"\xff", b"1.5"]); tag += "-nonnum"
            elif r2 == 1:
                body += b"9" * rng.range(6, 25); tag += "-huge"
            else:
                body += num(rng, v)
        if rng.chance(1, 3):
            body += ws(rng, False)
        if rng.chance(1, 8):
            body += b"#unterminated comment"
        data = hdr + body
    else:
        sep = rng.choice([b"\n", b"\n", b"\n", b" ", b"\t", b"\r", b"#c\n", b""]) if rng.chance(1, 6) else b"\n"
        if maxval > 255:
            body = bytearray()
            for i in range(n):
                v = rng.range(0, maxval)
                r = rng.below(80)
                if r == 0 and maxval < 65535:
                    v = rng.range(maxval + 1, 65535); tag += "-over"
                elif r == 1:
                    v = rng.choice([0, maxval, maxval >> 1, 255, 256])
                body += bytes([v >> 8, v & 255])
        else:
            body = bytearray()
            for i in range(n):
                v = rng.range(0, maxval)
                r = rng.below(40)
                if r == 0:
                    v = rng.range(0, 255)
                    if v > maxval:
                        tag += "-over"
                elif r == 1:
                    v = rng.choice([0, maxval, 255, 35, 10])
                body.append(v)
        data = hdr + sep + bytes(body)
        if rng.chance(1, 6):
            data += rng.bytes(rng.range(1, 9))          # trailing garbage is ignored
    r = rng.below(12)
    if r == 0:
        data = data[:rng.below(len(data) + 1)]; tag += "-trunc"
    elif r == 1 and len(data) > 3:
        i = rng.below(len(data))
        data = data[:i] + bytes([rng.below(256)]) + data[i + 1:]; tag += "-flip"
    return data, tag, (w, h)


def pnm_load_case(rng, small=True):
    prec = rng.range(2, 16)
    data, tag, (w, h) = pnm_file(rng, prec, small)
    pf = rng.choice([-1, 0, 1, 2, 3, 4, 5, 6, 6, 7, 8, 9, 10, 11])
    if rng.chance(1, 2):
        pf = 6 if tag[1] in "25" else rng.choice([0, 1, 7])
    bu = rng.below(2)
    align = rng.choice([1, 1, 2, 4, 8, 16])
    r = rng.below(10)
    if "bad" in tag or "flip" in tag:
        mp = rng.choice([4096, 65536, w * h])
    elif r == 0:
        mp = w * h
    elif r == 1:
        mp = max(1, w * h - 1)
    elif r == 2:
        mp = w * h + 1
    elif r < 6:
        mp = 1 << 20
    else:
        mp = 0
    line = "load %d %d %d %d %d %s" % (prec, pf, bu, align, mp, data.hex())
    return line, "pnm-" + tag.split("-")[0] + ("-mut" if "-" in tag else ""), {"prec": prec, "maxpixels": mp}


def rand_load_case(rng):
    prec = rng.range(2, 16)
    k = rng.below(4)
    if k == 0:
        data = rng.bytes(rng.range(0, 60))
    elif k == 1:
        data = b"P" + rng.choice([b"2", b"3", b"5", b"6"]) + rng.bytes(rng.range(0, 40))
    elif k == 2:
        data = b"P" + rng.choice([b"2", b"3", b"5", b"6"]) + bytes(rng.choice(b"0123456789 \n\t#\r9 1 2") for _ in range(rng.range(0, 60)))
    else:
        data = b"P" + rng.choice([b"5", b"6"]) + b"\n" + bytes(rng.choice(b"0123456789") for _ in range(rng.range(1, 3))) + b" " + \
            bytes(rng.choice(b"0123456789") for _ in range(rng.range(1, 3))) + b" " + \
            bytes(rng.choice(b"0123456789") for _ in range(rng.range(1, 5))) + rng.choice([b"\n", b" ", b"#"]) + rng.bytes(rng.range(0, 300))
    pf = rng.choice([-1, 0, 1, 2, 5, 6, 7, 10, 11])
    mp = rng.choice([256, 4096, 65536])
    return ("load %d %d %d %d %d %s" % (prec, pf, rng.below(2), rng.choice([1, 4]), mp, data.hex()),
            "pnm-random", {"prec": prec, "maxpixels": mp})


def save_case(rng):
    if rng.chance(1, 3):
        pf = rng.below(12)
        w, h = rng.range(1, 9), rng.range(1, 4)
        s = [rng.choice([0, 255, rng.below(256), rng.below(256)]) for _ in range(w * h * PS[pf])]
        return ("save 8 %d %d %d bmp %d %d | %s" % (pf, rng.below(2), rng.choice([0, 0, 1, 3, 8]), w, h, " ".join(map(str, s))),
                "bmp-save", {"prec": 8})
    prec = rng.range(2, 16)
    pf = rng.below(12)
    w, h = rng.range(1, 6), rng.range(1, 4)
    mx = (1 << prec) - 1
    n = w * h * PS[pf]
    s = [rng.choice([0, mx, rng.range(0, mx), rng.range(0, mx)]) for _ in range(n)]
    return ("save %d %d %d %d ppm %d %d | %s" % (prec, pf, rng.below(2), rng.choice([0, 0, 1, 3, 8]), w, h, " ".join(map(str, s))),
            "pnm-save", {"prec": prec})


# ----------------------------------------------------------------------------- BMP generator
def le(v, n):
    return int(v & ((1 << (8 * n)) - 1)).to_bytes(n, "little")


def bmp_file(rng):
    hs = rng.choice([40, 40, 40, 12, 64])
    bpp = rng.choice([8, 24, 32])
    w, h = rng.range(1, 9), rng.range(1, 5)
    tag = "bmp%d-%d" % (bpp, hs)
    ncol = 0
    pal = b""
    clrused = 0
    if bpp == 8:
        es = 3 if hs == 12 else 4
        if hs == 12:
            ncol = 256
        else:
            clrused = rng.choice([0, 0, 256, rng.range(1, 256), rng.range(1, 16)])
            ncol = clrused if clrused else 256
        gray = rng.chance(1, 2)
        for i in range(ncol):
            if gray:
                g = rng.below(256) if rng.chance(1, 3) else i
                e = bytes([g, g, g])
            else:
                e = rng.bytes(3)
            pal += e + (bytes([rng.below(256)]) if es == 4 else b"")
        tag += "-gray" if gray else "-col"
    pad = rng.choice([0, 0, 0, 1, 5])
    off = 14 + hs + len(pal) + pad
    planes, comp = 1, 0
    mut = rng.below(30)
    fw, fh = w, h
    if mut == 0:
        planes = rng.choice([0, 2, 257]); tag += "-mut"
    elif mut == 1 and hs != 12:
        comp = rng.choice([1, 2, 3]); tag += "-mut"
    elif mut == 2:
        fw = rng.choice([0, -1, 0x7fffffff, 0x40000000, 0x55555556, 65536]) if hs != 12 else rng.choice([0, 65535]); tag += "-mut"
    elif mut == 3:
        fh = rng.choice([0, -h, 0x7fffffff, 65536]) if hs != 12 else rng.choice([0, 65535]); tag += "-mut"
    elif mut == 4:
        off = rng.choice([0, 13 + hs, off - 1, off + 1000, 0xffffffff, 0x80000000]); tag += "-mut"
    elif mut == 5:
        bpp2 = rng.choice([1, 4, 16, 0, 33]); tag += "-mut"
    elif mut == 6 and hs != 12 and bpp == 8:
        clrused = rng.choice([257, 1000, 0x7fffffff, 0xffffffff]); tag += "-mut"
    if hs == 12:
        info = le(12, 4) + le(fw, 2) + le(fh, 2) + le(planes, 2) + le(bpp2 if mut == 5 else bpp, 2)
    else:
        info = (le(hs, 4) + le(fw, 4) + le(fh, 4) + le(planes, 2) + le(bpp2 if mut == 5 else bpp, 2) + le(comp, 4) + le(0, 4) +
                le(rng.choice([0, 2835, -5, 7200000]), 4) + le(rng.choice([0, 2835, 1]), 4) + le(clrused, 4) + le(0, 4))
        info += bytes(hs - 40)
    if mut == 7:
        info = le(rng.choice([11, 13, 16, 39, 41, 65, 108, 124, 0]), 4) + info[4:]; tag += "-mut"
    fhd = (b"BM" if mut != 8 else rng.choice([b"BA", b"B", b"BN"])) + le(0, 4) + le(0, 4) + le(off, 4)
    if mut == 8:
        tag += "-mut"
    rw = (w * bpp // 8 + 3) & ~3
    rows = bytearray()
    for r in range(h):
        if bpp == 8:
            row = bytes((rng.below(ncol) if not rng.chance(1, 150) else rng.below(256)) for _ in range(w))
        else:
            row = rng.bytes(w * bpp // 8)
        rows += row + rng.bytes(rw - len(row))
    data = fhd + info + pal + rng.bytes(pad) + bytes(rows)
    r = rng.below(14)
    if r == 0:
        data = data[:rng.below(len(data) + 1)]; tag += "-trunc"
    elif r == 1:
        i = rng.below(min(len(data), 54 + 8))
        data = data[:i] + bytes([rng.below(256)]) + data[i + 1:]; tag += "-flip"
    return data, tag


def bmp_load_case(rng):
    data, tag = bmp_file(rng)
    pf = rng.choice([-1, 0, 1, 2, 3, 4, 5, 6, 7, 8, 9, 10, 11])
    mp = rng.choice([0, 1 << 20, 40, 12, 4096]) if "-mut" not in tag and "-flip" not in tag else rng.choice([4096, 65536])
    fam = tag.split("-")[0] + ("-mut" if ("-mut" in tag or "-trunc" in tag or "-flip" in tag) else "")
    if rng.chance(1, 5):
        bits, prec = rng.choice([8, 12, 16]), rng.range(2, 16)
        return ("loadx %d %d %d %d %d %d %s" % (bits, prec, pf, rng.below(2), rng.choice([1, 2, 4, 8]), mp, data.hex()), fam,
                {"prec": 8, "bits": bits, "maxpixels": mp})
    return ("load 8 %d %d %d %d %s" % (pf, rng.below(2), rng.choice([1, 2, 4, 8]), mp, data.hex()), fam,
            {"prec": 8, "maxpixels": mp})


# ----------------------------------------------------------------------------- GIF / Targa generators
def lzw_encode(minsize, pixels, rng, plain, defer_clear=False):
    clear, eoi = 1 << minsize, (1 << minsize) + 1
    out, acc, nb = bytearray(), 0, 0

    def emit(code, size):
        nonlocal acc, nb
        acc |= code << nb
        nb += size
        while nb >= 8:
            out.append(acc & 255)
            acc >>= 8
            nb -= 8
    size = minsize + 1
    table = {}
    nxt = eoi + 1
    emit(clear, size)
    if plain:
        cnt = 0
        for p in pixels:
            emit(p, size)
            cnt += 1
            if cnt >= (1 << minsize) - 2:
                emit(clear, size)
                cnt = 0
    else:
        cur = ()
        for p in pixels:
            t = cur + (p,)
            if len(t) == 1 or t in table:
                cur = t
                continue
            emit(cur[0] if len(cur) == 1 else table[cur], size)
            if nxt < 4096:
                table[t] = nxt
                nxt += 1
                if nxt > (1 << size) and size < 12:
                    size += 1
            if nxt >= 4096 and not defer_clear:
                emit(clear, size)
                table, nxt, size = {}, eoi + 1, minsize + 1
            cur = (p,)
        if cur:
            emit(cur[0] if len(cur) == 1 else table[cur], size)
    emit(eoi, size)
    if nb:
        out.append(acc & 255)
    return bytes(out)


def gif_file(rng):
    w, h = rng.range(1, 12), rng.range(1, 10)
    bits = rng.range(1, 8)
    ncol = 1 << bits
    gct = rng.chance(5, 6)
    lct = (not gct) or rng.chance(1, 5)
    d = rng.choice([b"GIF87a", b"GIF89a", b"GIF89a"])
    d += le(w, 2) + le(h, 2) + bytes([(0x80 if gct else 0) | (bits - 1) | 0x70, rng.below(ncol), rng.choice([0, 0, 49])])
    if gct:
        d += rng.bytes(3 * ncol)
    for _ in range(rng.below(3)):
        d += b"!" + bytes([rng.choice([0xF9, 0xFE, 0x01, 0xFF])])
        for _ in range(rng.below(3)):
            n = rng.range(1, 12)
            d += bytes([n]) + rng.bytes(n)
        d += b"\x00"
    lbits = rng.range(1, 8) if lct else bits
    iw, ih = (w, h) if rng.chance(7, 8) else (rng.range(1, 14), rng.range(1, 12))
    inter = rng.chance(1, 3)
    d += b"," + le(0, 2) + le(0, 2) + le(iw, 2) + le(ih, 2) + bytes([(0x80 | (lbits - 1) if lct else 0) | (0x40 if inter else 0)])
    if lct:
        d += rng.bytes(3 << lbits)
    ms = max(2, lbits) if rng.chance(9, 10) else rng.range(0, 12)
    pix = [rng.below(1 << lbits) if rng.chance(2, 3) else 0 for _ in range(iw * ih)]
    if rng.chance(1, 20):
        pix = pix[:rng.below(len(pix) + 1)]
    comp = lzw_encode(min(max(ms, 2), 8), pix, rng, rng.chance(1, 3))
    d += bytes([ms])
    i = 0
    while i < len(comp):
        n = min(len(comp) - i, rng.choice([255, 255, rng.range(1, 255)]))
        d += bytes([n]) + comp[i:i + n]
        i += n
    d += b"\x00;"
    return d


def tga_file(rng):
    sub = rng.choice([1, 2, 3, 9, 10, 11])
    w, h = rng.range(1, 12), rng.range(1, 8)
    idlen = rng.choice([0, 0, 3, 20])
    cmapped = sub in (1, 9)
    depth = 8 if (cmapped or sub in (3, 11)) else rng.choice([16, 24, 32])
    cmlen = rng.range(1, 256) if cmapped else 0
    cmes = 24 if cmapped else 0
    flags = rng.choice([0, 0x20, 0x08, 0x28])
    hd = bytes([idlen, 1 if cmapped else 0, sub]) + le(0, 2) + le(cmlen, 2) + bytes([cmes]) + le(0, 2) + le(0, 2) + le(w, 2) + le(h, 2) + bytes([depth, flags])
    d = hd + rng.bytes(idlen) + rng.bytes(cmlen * 3)
    bpp = depth // 8
    npx = w * h
    if sub < 8:
        if cmapped:
            d += bytes(rng.below(cmlen) for _ in range(npx))
        else:
            d += rng.bytes(npx * bpp)
    else:
        left = npx
        while left > 0:
            n = min(left, rng.range(1, 128))
            px = lambda: bytes([rng.below(cmlen)]) if cmapped else rng.bytes(bpp)
            if rng.chance(1, 2):
                d += bytes([0x80 | (n - 1)]) + px()
            else:
                d += bytes([n - 1]) + b"".join(px() for _ in range(n))
            left -= n
    return d


def mutate(rng, d, hdrlen):
    d = bytearray(d)
    k = rng.below(6)
    if k == 0 and d:
        d = d[:rng.below(len(d) + 1)]
    elif k <= 3 and d:
        for _ in range(rng.range(1, 3)):
            i = rng.below(min(len(d), hdrlen)) if rng.chance(2, 3) else rng.below(len(d))
            d[i] = rng.choice([0, 1, 0x7f, 0x80, 0xff, rng.below(256)])
    elif k == 4 and d:
        i = rng.below(len(d))
        d[i:i] = rng.bytes(rng.range(1, 4))
    return bytes(d)


def cj_case(rng):
    k = rng.below(10)
    tga = 0
    if k < 3:
        d, fam = gif_file(rng), "gif"
        if rng.chance(1, 2):
            d, fam = mutate(rng, d, 13 + 10), "gif-mut"
    elif k < 6:
        d, fam = tga_file(rng), "tga"
        tga = 0 if (d[0] == 0 and rng.chance(1, 2)) else 1
        if rng.chance(1, 2):
            d, fam = mutate(rng, d, 18), "tga-mut"
    elif k < 8:
        d, tag = bmp_file(rng)
        fam = "bmp" + ("-mut" if "-" in tag[4:] and ("mut" in tag or "trunc" in tag or "flip" in tag) else "")
    elif k < 9:
        d, tag, _ = pnm_file(rng, 8)
        fam = "pnm" + ("-mut" if "-" in tag else "")
    else:
        d = rng.choice([b"G", b"GIF", b"\x00", b"B", b"P", b""]) + rng.bytes(rng.range(0, 80))
        fam = "random"
    mp = rng.choice([1 << 20, 1 << 20, 4096, 50, 16])
    if fam == "random" and rng.chance(1, 4):
        tga = 1
    prec = 8 if rng.chance(3, 5) else rng.range(2, 16)
    return "cjx %d %d %d %s" % (mp, tga, prec, d.hex()), "cj-" + fam, {"maxpixels": mp, "prec": prec}


def eff_precision(bits, prec, first):
    """data precision of the samples tj3LoadImage<bits> returns (documented behaviour: TJPARAM_PRECISION applies to
    PBMPLUS files only, and only when it fits the entry point's sample type)"""
    if first == 0x50:
        lo = 2 if bits == 8 else bits - 3
        return prec if lo <= prec <= bits else bits
    return 8 if first == 0x42 else bits


FAMILIES = ["P2", "P3", "P5", "P6", "bmp8", "bmp24", "bmp32", "gif", "tga"]


def family_file(rng, fam, prec, clean):
    """(bytes, is_targa_file) of one format family; clean = no built-in mutation"""
    for _ in range(40):
        if fam[0] == "P":
            d, tag, _ = pnm_file(rng, prec if 2 <= prec <= 16 else 8)
            ok = tag.startswith(fam) and (not clean or "-" not in tag)
        elif fam.startswith("bmp"):
            d, tag = bmp_file(rng)
            ok = tag.startswith(fam + "-") and (not clean or not ("-mut" in tag or "-trunc" in tag or "-flip" in tag))
        elif fam == "gif":
            d, ok = gif_file(rng), True
        else:
            d, ok = tga_file(rng), True
        if ok:
            return d
    return d


def gif_big(rng):
    """GIF whose code table fills up (more than 4096 symbols): both the "clear when full" and the "keep going with a
    full table" encoders, all code sizes, interlaced or not, runs (KwKwK symbols) and noise mixed"""
    w, h = rng.range(100, 130), rng.range(90, 110)
    bits = rng.range(5, 8)
    d = b"GIF89a" + le(w, 2) + le(h, 2) + bytes([0x80 | (bits - 1), 0, 0]) + rng.bytes(3 << bits)
    d += b"," + le(0, 2) + le(0, 2) + le(w, 2) + le(h, 2) + bytes([0x40 if rng.chance(1, 2) else 0])
    pix, cur = [], 0
    while len(pix) < w * h:
        if rng.chance(1, 12):
            pix += [cur] * rng.range(1, 6)
        else:
            cur = rng.below(1 << bits)
            pix.append(cur)
    pix = pix[:w * h]
    comp = lzw_encode(bits, pix, rng, False, defer_clear=rng.chance(2, 3))
    d += bytes([max(2, bits)])
    i = 0
    while i < len(comp):
        n = min(len(comp) - i, 255)
        d += bytes([n]) + comp[i:i + n]
        i += n
    return d + b"\x00;"


def lzw_raw_gif(rng):
    """GIF whose image data is an arbitrary bit stream: codes above max_code, early End codes, Clear codes anywhere"""
    w, h = rng.range(1, 12), rng.range(1, 8)
    ms = rng.range(2, 8)
    d = b"GIF87a" + le(w, 2) + le(h, 2) + bytes([0x80 | rng.below(8), 0, 0])
    d += rng.bytes(3 * (2 << (d[-3] & 7)))
    d += b"," + le(0, 2) + le(0, 2) + le(w, 2) + le(h, 2) + bytes([0x40 if rng.chance(1, 3) else 0]) + bytes([ms])
    for _ in range(rng.range(0, 4)):
        n = rng.choice([1, 2, 3, 7, 255, rng.range(1, 60)])
        d += bytes([n]) + rng.bytes(n)
    return d + (b"\x00;" if rng.chance(2, 3) else b"")


def rd_case(rng):
    k = rng.below(20)
    tga = 0
    if k < 6:
        d, fam = gif_file(rng), "gif"
        if rng.chance(1, 2):
            d, fam = mutate(rng, d, 13 + 10), "gif-mut"
    elif k < 9:
        d, fam = lzw_raw_gif(rng), "gif-rawlzw"
    elif k < 16:
        d, fam = tga_file(rng), "tga"
        tga = 0 if (d[0] == 0 and rng.chance(1, 2)) else 1
        if rng.chance(1, 2):
            d, fam = mutate(rng, d, 18), "tga-mut"
    elif k < 19:
        d, fam = tga_file(rng), "tga-trunc"
        tga = 1
        d = d[:rng.range(18, max(18, len(d)))]
    else:
        d, fam = rng.choice([b"G", b"GIF8", b"\x00", b""]) + rng.bytes(rng.range(0, 60)), "random"
        tga = rng.below(2)
    if rng.chance(1, 5):        # BMP through cjpeg's inversion-array reader
        d, tag = bmp_file(rng)
        fam, tga = "bmpcj" + ("-mut" if ("-mut" in tag or "-trunc" in tag or "-flip" in tag) else ""), 0
    mp = rng.choice([1 << 20, 1 << 20, 1 << 20, 4096, 50])
    return "rd %d %d %s" % (mp, tga, d.hex()), "rd-" + fam, {"maxpixels": mp, "prec": 8}


def cmyk_cases(rng, thorough):
    """RGB -> CMYK (load) -> save -> RGB / CMYK through the public API: >= 500k samples per precision"""
    out = []
    precs = [8, 12, 13, 14, 15, 16] + ([2, 3, 5, 7, 9, 10, 11] if thorough else [rng.choice([2, 3, 4, 5, 6, 7, 9, 10, 11])])
    for prec in precs:
        reps = (6 if thorough else 1) * (2 if prec >= 13 else 1)
        for _ in range(reps):
            w, h = rng.range(380, 420), rng.range(450, 480)          # ~180k pixels = 540k RGB samples
            out.append(("cmykrt %d %d %d %d 400" % (prec, w, h, rng.below(1 << 40)), "cmykrt-%d" % prec, {"prec": prec}))
    return out


def cmyk_reference(prec, vals):
    """exact-integer reference for one printed pixel (r g b c m y k): k = max(r,g,b); c, m, y are maxval*v/x rounded to the
    NEAREST integer (the C text adds 0.5 and truncates; at an exact .5 tie the preceding floating-point roundings decide
    the direction, so both neighbours are accepted there) and lie in 0..maxval; x = 0 gives (maxval, maxval, maxval, 0)"""
    M = (1 << prec) - 1
    r, g, b, c, m, y, k = vals
    x = max(r, g, b)
    if k != x:
        return "K = %d, expected max(r,g,b) = %d" % (k, x)
    if x == 0:
        return None if (c, m, y) == (M, M, M) else "black pixel gives C,M,Y = %d %d %d" % (c, m, y)
    for name, v, o in (("C", r, c), ("M", g, m), ("Y", b, y)):
        if not (0 <= o <= M) or 2 * abs(o * x - M * v) > x:
            return "%s = %d is not maxval*%d/%d rounded to nearest (maxval %d)" % (name, o, v, x, M)
        if (2 * o * x + M) // (2 * M) != v:
            return "cmyk_to_rgb(%s=%d, K=%d) does not give back %d" % (name, o, x, v)
    return None


def matrix_cases(rng, n_extra):
    """EVERY format family presented to EVERY entry point / precision: tj3LoadImage8/12/16 x TJPARAM_PRECISION 2..16
    and the cjpeg front end x -precision 2..16; one clean file per cell, then random cells with mutated files"""
    out = []

    def one(fam, entry, prec, clean):
        d = family_file(rng, fam, prec, clean)
        if not clean and rng.chance(1, 2):
            d = mutate(rng, d, 30)
        if entry == "cj":
            tga = 1 if fam == "tga" and not (d[:1] == b"\x00" and rng.chance(1, 2)) else 0
            mp = rng.choice([1 << 20, 1 << 20, 4096])
            out.append(("cjx %d %d %d %s" % (mp, tga, prec, d.hex()), "mx-cj-" + fam, {"maxpixels": mp, "prec": prec}))
        else:
            pf = rng.choice([-1, -1, -1, 0, 1, 6, 7, 11])
            mp = rng.choice([1 << 20, 1 << 20, 4096])
            out.append(("loadx %d %d %d %d %d %d %s" % (entry, prec, pf, rng.below(2), rng.choice([1, 4]), mp, d.hex()),
                        "mx-tj%d-%s" % (entry, fam),
                        {"maxpixels": mp, "prec": eff_precision(entry, prec, d[0] if d else 0), "bits": entry}))
    for fam in FAMILIES:
        for entry in (8, 12, 16, "cj"):
            for prec in range(2, 17):
                one(fam, entry, prec, True)
    for _ in range(n_extra):
        one(rng.choice(FAMILIES), rng.choice([8, 12, 16, "cj", "cj"]), rng.range(2, 16), rng.chance(1, 3))
    return out


def rt_cases(rng, n_extra):
    out = []
    for prec in range(2, 17):
        for pf in range(0, 11):          # CMYK is not reversible through RGB (cmyk.h)
            out.append((prec, pf, rng.below(2), rng.choice([1, 2, 4, 8, 16, 32]), rng.choice([0, 0, 1, 5]), "ppm",
                        rng.range(1, 9), rng.range(1, 6)))
    for pf in range(0, 11):
        for bu in (0, 1):
            out.append((8, pf, bu, rng.choice([1, 2, 4, 8]), rng.choice([0, 3]), "bmp", rng.range(1, 9), rng.range(1, 6)))
    for _ in range(n_extra):
        ext = "bmp" if rng.chance(1, 4) else "ppm"
        big = rng.chance(1, 12)
        out.append((8 if ext == "bmp" else rng.range(2, 16), rng.below(11), rng.below(2), rng.choice([1, 2, 4, 8, 16, 64]),
                    rng.choice([0, 0, 1, 2, 7]), ext, rng.range(1, 300 if big else 20), rng.range(1, 200 if big else 12)))
    return [("rt %d %d %d %d %d %s %d %d %d" % (c + (rng.below(1 << 30),)), "rt-" + c[5], {"prec": c[0]}) for c in out]


# ----------------------------------------------------------------------------- oracle on one result line
def judge_load(line, impl, meta):
    """property-level oracle on an implementation output line of a load case; returns (message, sig) or None"""
    if impl.startswith("err "):
        return None
    if not impl.startswith("ok "):
        return ("implementation produced no verdict: " + impl[:60], "no-verdict")
    head, _, body = impl.partition("|")
    w, h, pf = [int(x) for x in head.split()[1:4]]
    s = [int(x) for x in body.split()]
    mx = (1 << meta["prec"]) - 1
    if pf < 0 or pf > 11 or len(s) != w * h * PS[pf]:
        return ("returned %d samples for a %dx%d image of pixel format %d" % (len(s), w, h, pf), "sample-count")
    if s and max(s) > mx:
        return ("returned sample %d exceeds 2^%d-1" % (max(s), meta["prec"]), "sample-out-of-range")
    if s and "bits" in meta and max(s) > (1 << meta["bits"]) - 1:
        return ("returned sample %d does not fit the %d-bit sample type of the entry point" % (max(s), meta["bits"]), "sample-type")
    if meta["maxpixels"] and w * h > meta["maxpixels"]:
        return ("image of %dx%d pixels accepted with a limit of %d" % (w, h, meta["maxpixels"]), "pixel-limit")
    return None


def run(ctx):
    rng = ctx.rng
    for g in ("Pnm", "ImgPrec", "ImgRd", "Cmyk"):
        if not ctx.regen([g]):
            # core.regen removes gen/Gen<g>.v when the translator fails; a compiled file left from an
            # earlier run would still satisfy make, so remove it as well (request to lead: do this in core)
            for ext in (".vo", ".vos", ".vok", ".glob"):
                try:
                    os.remove(os.path.join(core.COQ, "gen", "Gen" + g + ext))
                except OSError:
                    pass
    ctx.prove()
    drv = ctx.model_driver()
    flavours = ["simd", "asan"]
    srcs = ["c18.c", os.path.join(core.REPO, "src", "rdgif.c"), os.path.join(core.REPO, "src", "rdtarga.c")]
    exes = {fl: ctx.cc("c18", srcs, fl, extra=EXTRA) for fl in flavours}

    cases = []
    if ctx.replay:
        r = json.load(open(ctx.replay))
        if r.get("case"):
            cases.append((r["case"], r.get("stream", "replay"), r.get("meta", {"prec": 8, "maxpixels": 0})))
        return run_cases(ctx, cases, exes, drv, flavours)
    cdir = os.path.join(core.VERIF, "corpus", "C18")
    if os.path.isdir(cdir):
        for fn in sorted(os.listdir(cdir)):
            for l in open(os.path.join(cdir, fn)):
                l = l.strip()
                if l and not l.startswith("#"):
                    f = l.split()
                    if f[0] == "load":
                        meta = {"prec": int(f[1]), "maxpixels": int(f[5])}
                    elif f[0] == "loadx":
                        meta = {"prec": eff_precision(int(f[1]), int(f[2]), int(f[7][:2], 16) if len(f) > 7 else 0), "bits": int(f[1]), "maxpixels": int(f[6])}
                    elif f[0] == "cjx":
                        meta = {"prec": int(f[3]), "maxpixels": int(f[1])}
                    else:
                        meta = {"prec": int(f[1]) if f[0] != "cj" else 8, "maxpixels": 0}
                    cases.append((l, "corpus-" + os.path.splitext(fn)[0], meta))
    for i in range(ctx.n(8000, 100000)):
        cases.append(pnm_load_case(rng, small=not rng.chance(1, 15)))
    for i in range(ctx.n(2000, 30000)):
        cases.append(rand_load_case(rng))
    for i in range(ctx.n(1000, 10000)):
        cases.append(save_case(rng))
    for i in range(ctx.n(2500, 40000)):
        cases.append(bmp_load_case(rng))
    cases += rt_cases(rng, ctx.n(500, 6000))
    for i in range(ctx.n(2500, 40000)):
        cases.append(cj_case(rng))
    cases += matrix_cases(rng, ctx.n(1200, 20000))
    cases += cmyk_cases(rng, ctx.thorough())
    for i in range(ctx.n(3000, 50000)):
        cases.append(rd_case(rng))
    for i in range(ctx.n(4, 40)):
        cases.append(("rd %d 0 %s" % (1 << 20, gif_big(rng).hex()), "rd-gif-tablefull", {"maxpixels": 1 << 20, "prec": 8}))
    return run_cases(ctx, cases, exes, drv, flavours)


def run_lines(ctx, exe, scratch, lines, env, fork, fl):
    """one result line per input line; without fork a dying process is restarted after the case that killed it
    (the index of that case is the number of lines it had printed); returns (outputs, crashes)"""
    outs, crashes, start, restarts = [], [], 0, 0
    while start < len(lines):
        inp = ("\n".join(lines[start:]) + "\n").encode()
        rc, out, err = sh2([exe, scratch] + (["fork"] if fork else []), input=inp, timeout=3000, env=env)
        got = out.decode("utf-8", "replace").split("\n")
        if got and got[-1] == "":
            got.pop()
        got = got[:len(lines) - start]
        if rc == 0 and len(got) == len(lines) - start:
            outs += got
            if "ERROR: " in err or "runtime error" in err:
                crashes.append((None, "sanitizer report without a crash: " + " ".join(err.split())[:300], err))
            break
        # the case after the last complete line killed the process
        outs += got
        idx = start + len(got)
        if got and got[-1] == "TIMEOUT":
            crashes.append((idx - 1, "TIMEOUT", err))
        elif idx < len(lines):
            m = [l for l in err.split("\n") if "ERROR: " in l or "runtime error" in l]
            outs.append("CRASH rc=%d %s" % (rc, (m[0] if m else " ".join(err.split())[-200:])[:300]))
            crashes.append((idx, outs[-1], err))
            idx += 1
        else:       # all lines answered but a non-zero exit (leak report at exit)
            crashes.append((None, "non-zero exit %d after the last case: %s" % (rc, " ".join(err.split())[:300]), err))
            break
        start = idx
        restarts += 1
        if restarts > 60:
            outs += ["<not run>"] * (len(lines) - len(outs))
            break
    return outs, crashes


def run_cases(ctx, cases, exes, drv, flavours):
    scratch = os.path.join(core.BUILD, "c18tmp")
    os.makedirs(scratch, exist_ok=True)
    inp = ("\n".join(c[0] for c in cases) + "\n").encode()
    env = {"ASAN_OPTIONS": "allocator_may_return_null=1:detect_leaks=1:abort_on_error=0", "UBSAN_OPTIONS": "print_stacktrace=1"}
    outs = {}
    for fl, exe in exes.items():
        # sanitizer build: the entry-point matrix runs one forked child per case, so that a crash is
        # attributed to its case and the following cases still run
        forked = [i for i, c in enumerate(cases) if fl == "asan" and c[0].startswith(("loadx ", "cjx "))]
        fset = set(forked)
        plain = [i for i in range(len(cases)) if i not in fset]
        lines = [None] * len(cases)
        for idxs, fork in ((plain, False), (forked, True)):
            if not idxs:
                continue
            ctx.log("running %d cases through the %s build%s" % (len(idxs), fl, " (forked child per case)" if fork else ""))
            got, crashes = run_lines(ctx, exe, scratch, [cases[i][0] for i in idxs], env, fork, fl)
            for k, i in enumerate(idxs):
                lines[i] = got[k] if k < len(got) else "<not run>"
            for k, what, err in crashes:
                ci = idxs[k] if k is not None else None
                c = cases[ci] if ci is not None else ("", "process", {})
                ctx.violation(("loader did not terminate within the time cap" if what == "TIMEOUT" else
                               "crash / sanitizer report (%s build): %s" % (fl, what)),
                              {"case": c[0], "stream": c[1], "meta": c[2], "flavour": fl, "stderr": err[-3000:]},
                              signature="crash:" + c[1])
        for i, l in enumerate(lines):       # forked children report their own death
            if l.startswith("CRASH ") and i in fset:
                c = cases[i]
                ctx.violation("crash / sanitizer report (%s build, forked child): %s" % (fl, l[:300]),
                              {"case": c[0], "stream": c[1], "meta": c[2], "flavour": fl}, signature="crash:" + c[1])
        outs[fl] = lines
    mlines = None
    if drv:
        ctx.log("running the extracted model")
        rc, out, err = sh2([drv], input=inp, timeout=3000)
        ctx.log("model done")
        mlines = out.decode().split("\n")
        if rc != 0 or len(mlines) < len(cases):
            ctx.broken_tie("model-driver", "extracted model failed: rc=%d %s" % (rc, err[-200:]))
            mlines = None

    ref = outs[flavours[0]]
    disagree = compared = 0
    outcomes = {}
    for i, (line, kind, meta) in enumerate(cases):
        impl = ref[i]
        cmd = line.split(" ", 1)[0]
        bad = None
        dead = impl.startswith(("CRASH", "TIMEOUT", "<no"))
        if dead:
            bad = None          # already reported with the process
        elif cmd in ("load", "loadx"):
            bad = judge_load(line, impl, meta)
        elif cmd == "rt":
            if not impl.startswith("rt ok "):
                bad = ("save/load round trip failed: " + impl[:80], "roundtrip")
        elif cmd in ("cj", "cjx"):
            f = impl.split()
            if len(f) >= 3 and f[1] == "ok":
                if meta["maxpixels"] and int(f[2]) * int(f[3]) > meta["maxpixels"]:
                    bad = ("cjpeg front end accepted %sx%s pixels with a limit of %d" % (f[2], f[3], meta["maxpixels"]), "pixel-limit")
            elif not (len(f) >= 3 and f[1] == "err"):
                bad = ("cjpeg front end produced no verdict: " + impl[:60], "no-verdict")
        elif cmd == "cmykrt":
            if not impl.startswith("cmykrt ok "):
                bad = ("CMYK save/load round trip (RGB -> CMYK -> file -> RGB/CMYK) is not exact: " + impl[:300], "cmyk-roundtrip")
            else:
                v = [int(x) for x in impl.split("|", 1)[1].split()]
                for j in range(0, len(v) - 6, 7):
                    why = cmyk_reference(meta["prec"], v[j:j + 7])
                    if why:
                        bad = ("rgb_to_cmyk at precision %d on RGB %s: %s" % (meta["prec"], v[j:j + 3], why), "cmyk-reference")
                        break
        elif cmd == "rd":
            f = impl.split()
            if len(f) >= 7 and f[1] == "ok":
                w, h, comps = int(f[2]), int(f[3]), int(f[4])
                smp = [int(x) for x in impl.split("|", 1)[1].split()]
                if len(smp) != w * h * comps:
                    bad = ("reader delivered %d samples for a %dx%dx%d image" % (len(smp), w, h, comps), "sample-count")
                elif smp and max(smp) > 255:
                    bad = ("reader delivered sample %d" % max(smp), "sample-out-of-range")
                elif meta["maxpixels"] and w * h > meta["maxpixels"]:
                    bad = ("reader accepted %dx%d pixels with a limit of %d" % (w, h, meta["maxpixels"]), "pixel-limit")
            elif not (len(f) >= 3 and f[1] == "err"):
                bad = ("reader produced no verdict: " + impl[:60], "no-verdict")
        elif cmd == "save":
            if not impl.startswith("bytes "):
                bad = ("tj3SaveImage failed on a valid image: " + impl[:80], "save-failed")
        if bad:
            ctx.violation(bad[0], {"case": line, "stream": kind, "meta": meta, "impl": impl[:2000]}, signature=bad[1] + ":" + kind)
        for fl in flavours[1:]:
            a, b = impl, outs[fl][i]
            if cmd in ("cj", "cjx"):        # checksum of a failed/partial read is not compared
                a, b = " ".join(a.split()[:5]), " ".join(b.split()[:5])
            if a != b and not dead and not b.startswith(("CRASH", "TIMEOUT", "<no")):
                ctx.violation("builds disagree (%s vs %s)" % (flavours[0], fl),
                              {"case": line, "stream": kind, "meta": meta, flavours[0]: impl[:1000], fl: outs[fl][i][:1000]},
                              signature="build-disagree:" + kind)
        if mlines is not None and cmd == "cjx" and not dead:
            # precision verdict of the reader selection: BAD_PRECISION exactly when the generated rule rejects
            compared += 1
            mv, iv = mlines[i], impl == "cj err BADPREC"
            if (mv == "cjx BADPREC") != iv and mv in ("cjx BADPREC", "cjx PASS"):
                disagree += 1
                if disagree <= 3:
                    ctx.log("model/impl disagree on", kind, "\n  case :", line[:200], "\n  model:", mv, "\n  impl :", impl[:200])
                ctx.broken_tie("correspondence:" + kind, "precision acceptance differs on: %s || model=%s || impl=%s" % (line[:400], mv, impl[:200]))
        if mlines is not None and cmd in ("load", "loadx", "save", "rd") and not mlines[i].startswith("skip") and not dead:
            compared += 1
            if mlines[i] != impl:
                disagree += 1
                if disagree <= 3:
                    ctx.log("model/impl disagree on", kind, "\n  case :", line[:200], "\n  model:", mlines[i][:200], "\n  impl :", impl[:200])
                if not bad:
                    ctx.broken_tie("correspondence:" + kind,
                                   "model and implementation differ on: %s || model=%s || impl=%s" % (line[:400], mlines[i][:200], impl[:200]))
        if impl.startswith("rd ok"):
            oc = "rd ok" + (" warn" if impl.split()[5] != "0" else "")
        elif impl.startswith(("ok", "bytes", "rt ok")):
            oc = impl.split()[0] + (" ok" if cmd == "rt" else "")
        else:
            oc = " ".join(impl.split()[:3 if cmd in ("cj", "cjx", "rd") else 2])
        outcomes.setdefault(kind, {})
        outcomes[kind][oc] = outcomes[kind].get(oc, 0) + 1
        ctx.count(kind, 1, (kind, impl[:120]))
        if i % 1499 == 0:
            ctx.sample({"case": line[:300], "impl": impl[:200]})
    ctx.cov["traces_validated_against_impl"] = compared
    ctx.cov["model_impl_disagreements"] = disagree
    # the extracted model abstains ("skip huge") on GIF/Targa images above 65536 pixels and BMP above 2^24 pixels: the
    # list-based model is quadratic in the pixel count (minutes per megapixel image); such cases are still judged by the
    # property-level oracle, and the theorems are for all sizes
    ctx.cov["model_abstentions"] = sum(1 for l in (mlines or []) if l.startswith("skip huge"))
    ctx.cov["outcomes_per_stream"] = outcomes
    ctx.cov["rule"] = ("structured PNM files (P2/P3/P5/P6 x header mutations x comments x truncation x maxval 1..65535 x precision 2..16 x "
                       "12 pixel formats x bottom-up x alignment x pixel limit), random bytes, tj3SaveImage outputs, BMP 8/24/32-bit with "
                       "OS/2 and Windows headers and palettes, save/load round trips (PPM at every precision, BMP at 8 bits), GIF and Targa "
                       "valid+mutated through the cjpeg front end at -precision 2..16; entry-point matrix: 9 format families x "
                       "{tj3LoadImage8,12,16, cjpeg} x precision 2..16, clean and mutated, one forked child per case in the sanitizer build; a case is distinct when (stream, implementation output) is distinct")
    ctx.assume += ["correspondence is differential testing of the hand model against the real functions; it supports the tie, not the theorem",
                   "cjpeg itself is not built by the library build: its front end (file-type selection, start_input, get_pixel_rows, "
                   "jpeg_write_scanlines) is replayed inside the harness with the real rdppm/rdbmp/rdgif/rdtarga objects",
                   "GIF/Targa: crash-freedom, termination and pixel limit only (no model); CMYK round trips are not claimed (cmyk.h is lossy)"]
    ctx.trusted += ["tools/gen_Pnm.py, tools/gen_ImgPrec.py (regular-expression reading of rdppm.c / wrppm.c / jinit_read_* / tj3LoadImage / cjpeg.c)",
                    "rgb_to_cmyk / cmyk_to_rgb: double arithmetic re-implemented in ml/C18_driver.ml, a parameter of the Coq model"]
