"""C20 -- planar YUV images follow the published geometry and compose correctly.

1. translator : tools/gen_Subsamp.py -> coq/gen/GenSubsamp.v (tables, macros PAD / IS_POW2 / TJSCALED, and every
   arithmetic statement and guard of the four size functions, the four unified-buffer functions and the pw[]/ph[]
   statements of the per-plane codec paths, translated from the C text of the CURRENT tree)
2. proofs     : coq/props/C20.v (model/Geometry.v, proofs/GeometryProofs.v, lib/PadLemmas.v)
3. correspondence: extracted model (ml/C20_driver) vs harness/c20.c calling the REAL tj3YUVPlaneWidth/Height,
   tj3YUVBufSize, tj3YUVPlaneSize, TJSCALED on the same lines: exhaustive w,h <= 70 x 7 levels x 7 alignments,
   random large / boundary / invalid arguments; both are also compared with the closed forms of the theorems
   (closed_* below = right-hand sides of plane_width_spec, bufsize_spec, planesize_spec, unified_layout_spec).
4. property-level oracles on the implementation (harness lines layenc / errs / cmp): tj3EncodeYUV8 writes exactly the
   bytes of the documented layout; unified == per-plane functions at the documented offsets with canaries;
   tj3DecompressToYUVPlanes8 == jpeg_read_raw_data cropped; tj3DecodeYUV8(planes) == tj3Decompress8(FASTUPSAMPLE);
   tj3CompressFromYUV8 == tj3CompressFromYUVPlanes8.
"""
import json
import os
from vlib import core
from vlib.core import sh2

INT_MAX = 2 ** 31 - 1
INT_MIN = -2 ** 31
ALIGNS = [1, 2, 4, 8, 16, 32, 64]
UNI = ["tj3CompressFromYUV8", "tj3EncodeYUV8", "tj3DecompressToYUV8", "tj3DecodeYUV8"]
GRAY = 3
T = {"mcuw": None, "mcuh": None, "sf": None}     # filled from the model's `tbl` line (= generated from the source)


def cdiv(a, b):
    return -((-a) // b)


def pad_up(a, b):
    return cdiv(a, b) * b


def ncomp(s):
    return 1 if s == GRAY else 3


def spec_pw(c, w, s):
    hs = T["mcuw"][s] // 8
    return pad_up(w, hs) if c == 0 else cdiv(w, hs)


def spec_ph(c, h, s):
    vs = T["mcuh"][s] // 8
    return pad_up(h, vs) if c == 0 else cdiv(h, vs)


def closed_pw(c, w, s):      # plane_width_spec / plane_width_invalid
    if w < 1 or s < 0 or s >= len(T["mcuw"]):
        return 0
    if not (0 <= c < ncomp(s)):
        return 0
    v = spec_pw(c, w, s)
    return v if v <= INT_MAX else 0


def closed_ph(c, h, s):
    if h < 1 or s < 0 or s >= len(T["mcuh"]):
        return 0
    if not (0 <= c < ncomp(s)):
        return 0
    v = spec_ph(c, h, s)
    return v if v <= INT_MAX else 0


def is_pow2(a):
    return a >= 1 and (a & (a - 1)) == 0


def plane_fits(i, w, a, h, s):
    return spec_pw(i, w, s) <= INT_MAX and spec_ph(i, h, s) <= INT_MAX and pad_up(spec_pw(i, w, s), a) <= INT_MAX


def plane_bytes(i, w, a, h, s):
    return pad_up(spec_pw(i, w, s), a) * spec_ph(i, h, s)


def spec_total(w, a, h, s):
    return sum(plane_bytes(i, w, a, h, s) for i in range(ncomp(s)))


def closed_bs(w, a, h, s, ulbits=64):   # bufsize_spec / bufsize_invalid / bufsize_invalid_dims
    if not is_pow2(a) or s < 0 or s >= len(T["mcuw"]):
        return 0
    if w < 1 or h < 1:
        return 0
    if not plane_fits(0, w, a, h, s):
        return 0
    t = spec_total(w, a, h, s)
    if ulbits < 64 and t > 2 ** ulbits - 1:
        return 0
    return t


def closed_ps(c, w, stride, h, s, ulbits=64):   # planesize_spec / planesize_invalid
    if w < 1 or h < 1 or s < 0 or s >= len(T["mcuw"]) or stride == INT_MIN:
        return 0
    if not (0 <= c < ncomp(s)):
        return 0
    pw, ph = spec_pw(c, w, s), spec_ph(c, h, s)
    if pw > INT_MAX or ph > INT_MAX:
        return 0
    st = pw if stride == 0 else abs(stride)
    v = st * (ph - 1) + pw
    if ulbits < 64 and v > 2 ** ulbits - 1:
        return 0
    return v


def closed_layout(w, a, h, s):   # unified_result / unified_layout_invalid ; None = error (-1)
    if w < 1 or h < 1 or not is_pow2(a) or s < 0 or s >= len(T["mcuw"]):
        return None
    if not (plane_fits(0, w, a, h, s) and spec_pw(0, w, s) + a <= INT_MAX):
        return None
    st = [pad_up(spec_pw(i, w, s), a) for i in range(3)]
    if s == GRAY:
        return ([0, None, None], [st[0], 0, 0])
    if plane_bytes(0, w, a, h, s) > INT_MAX or plane_bytes(1, w, a, h, s) > INT_MAX:
        return None
    o1 = plane_bytes(0, w, a, h, s)
    return ([0, o1, o1 + plane_bytes(1, w, a, h, s)], st)


def expected_for(line):
    """closed-form result line for a size-function / model line, or None when the line has no closed form"""
    f = line.split()
    if f[0] == "edge":     # cfp_edge_statement / raw_protocols_ok: the iteration initialises all it hands to the codec
        return "edge true calls=%d" % cdiv(int(f[3]), (T["mcuh"][int(f[4])] // 8) * 8)
    if f[0] in ("fp", "rawfp", "tbl", "gs", "cmp", "seq", "layenc", "errs"):
        return None
    k, v = f[0], [int(x) for x in f[1:]]
    if k == "pw":
        return "pw %d" % closed_pw(*v)
    if k == "ph":
        return "ph %d" % closed_ph(*v)
    if k == "bs":
        return "bs %d" % closed_bs(*v)
    if k == "bs32":
        return "bs32 %d" % closed_bs(*v, ulbits=32)
    if k == "ps":
        return "ps %d" % closed_ps(*v)
    if k == "ps32":
        return "ps32 %d" % closed_ps(*v, ulbits=32)
    if k == "pwr":
        c, s, lo, hi = v
        return "pwr " + " ".join(str(closed_pw(c, w, s)) for w in range(lo, hi + 1))
    if k == "phr":
        c, s, lo, hi = v
        return "phr " + " ".join(str(closed_ph(c, h, s)) for h in range(lo, hi + 1))
    if k == "bsr":
        s, a, h, lo, hi = v
        return "bsr " + " ".join(str(closed_bs(w, a, h, s)) for w in range(lo, hi + 1))
    if k == "psr":
        s, c, st, h, lo, hi = v
        return "psr " + " ".join(str(closed_ps(c, w, st, h, s)) for w in range(lo, hi + 1))
    if k == "sc":
        d, n, dn = v
        return "sc %d" % cdiv(d * n, dn)
    if k == "lay":
        fn, w, a, h, s = v
        r = closed_layout(w, a, h, s)
        if r is None:
            return "lay err"
        return "lay %s | %s" % (" ".join("null" if o is None else str(o) for o in r[0]), " ".join(map(str, r[1])))
    if k == "cd":
        c, w, h, s = v
        return "cd " + " ".join([str(spec_pw(c, w, s)), str(spec_ph(c, h, s))] * 3)
    if k == "dct":
        return "dct %d" % (8 * v[0] // v[1])
    return None


FP_DIST = {}
IMPL_KINDS = {"pw", "ph", "bs", "ps", "pwr", "phr", "bsr", "psr", "sc", "tbl", "gs", "fp", "rawfp", "layenc", "errs", "cmp", "seq"}
MODEL_KINDS = {"pw", "ph", "bs", "bs32", "ps", "ps32", "pwr", "phr", "bsr", "psr", "sc", "tbl", "gs", "fp", "rawfp", "edge", "lay", "cd", "dct"}


def layenc_line(w, a, h, s):
    lay = closed_layout(w, a, h, s)
    offs, st = lay
    parts = []
    for i in range(3):
        if i < ncomp(s):
            parts += [offs[i], st[i], spec_pw(i, w, s), spec_ph(i, h, s)]
        else:
            parts += [0, 0, 0, 0]
    return "layenc %d %d %d %d %s %d" % (w, a, h, s, " ".join(map(str, parts)), spec_total(w, a, h, s))


def gen_cases(ctx):
    rng = ctx.rng
    nsamp = len(T["mcuw"])
    cases = []   # (line, stream)
    add = lambda l, st: cases.append((l, st))
    add("tbl", "tables")
    # ---- exhaustive w,h <= 70 x levels x alignments, all four size functions
    for s in range(nsamp):
        for c in (-1, 0, 1, 2, 3):
            add("pwr %d %d 1 70" % (c, s), "exh-planewidth")
            add("phr %d %d 1 70" % (c, s), "exh-planeheight")
        for a in ALIGNS:
            for h in range(1, 71):
                add("bsr %d %d %d 1 70" % (s, a, h), "exh-bufsize")
        for c in range(3):
            for st in (0, 1, 37, 64, 100, -100):
                for h in range(1, 71):
                    add("psr %d %d %d %d 1 70" % (s, c, st, h), "exh-planesize")
    # ---- getSubsamp: every combination of sampling factors 1..4 (model vs the level the API reports for such a JPEG)
    for yh in range(1, 5):
        for yv in range(1, 5):
            for bh in range(1, 5):
                for bv in range(1, 5):
                    for rh in range(1, 5):
                        for rv in range(1, 5):
                            add("gs %d %d %d %d %d %d" % (yh, yv, bh, bv, rh, rv), "exh-getSubsamp")
    # ---- scaled dimensions: every factor x dims 0..200 + random JPEG dims + the int boundary
    for (n, d) in T["sf"]:
        for dim in list(range(0, 201)) + [rng.range(201, 65535) for _ in range(40)] + [65535, 65500, (INT_MAX - d) // n]:
            add("sc %d %d %d" % (dim, n, d), "scaled")
        add("dct %d %d" % (n, d), "model-dctsize")
    # ---- random large, boundary and invalid arguments
    def big(hs=1):
        k = rng.below(10)
        if k == 0:
            return INT_MAX - rng.below(8)
        if k == 1:
            return (1 << rng.range(1, 30)) + rng.range(-3, 3)
        if k == 2:
            return rng.choice([65535, 65536, 65500, 46341, 46340, 32768, 32767])
        if k == 3:
            return rng.range(1, 300)
        if k == 4:
            return rng.range(INT_MAX - 70, INT_MAX)
        return rng.range(1, INT_MAX)
    def anyalign():
        k = rng.below(8)
        if k == 0:
            return rng.choice([0, -1, -4, 3, 6, 12, 100, INT_MIN, INT_MAX, (1 << 30) + 1])
        return 1 << rng.range(0, 30)
    def anysamp():
        return rng.choice([-1, nsamp, 100, -7]) if rng.chance(1, 12) else rng.below(nsamp)
    def anydim():
        return rng.choice([0, -1, INT_MIN, -100]) if rng.chance(1, 12) else big()
    n = ctx.n(6000, 40000)
    for _ in range(n):
        add("pw %d %d %d" % (rng.range(-1, 3), anydim(), anysamp()), "rand-planewidth")
        add("ph %d %d %d" % (rng.range(-1, 3), anydim(), anysamp()), "rand-planeheight")
        w, a, h, s = anydim(), anyalign(), anydim(), anysamp()
        add("bs %d %d %d %d" % (w, a, h, s), "rand-bufsize")
        add("bs32 %d %d %d %d" % (w, a, h, s), "model-ilp32")
        st = rng.choice([0, 1, -1, INT_MIN, INT_MAX, INT_MIN + 1, rng.range(-70000, 70000), rng.range(INT_MIN, INT_MAX)])
        c, w, h, s = rng.range(-1, 3), anydim(), anydim(), anysamp()
        add("ps %d %d %d %d %d" % (c, w, st, h, s), "rand-planesize")
        add("ps32 %d %d %d %d %d" % (c, w, st, h, s), "model-ilp32")
    # stride / total straddling INT_MAX and ULONG_MAX(32): pad_up(pw, a) around 2^31, w*h around 2^32
    for s in range(nsamp):
        hs = T["mcuw"][s] // 8
        for k in range(1, 31):
            a = 1 << k
            for w in (a - hs, a, a + 1, INT_MAX - a, INT_MAX - a + 1, INT_MAX - a - hs, (INT_MAX // a) * a, (INT_MAX // a) * a - hs, (INT_MAX // a) * a + 1):
                if w >= 1:
                    hh = rng.choice([1, 2, 3, 70000])
                    add("bs %d %d %d %d" % (w, a, hh, s), "boundary-bufsize")
                    add("bs32 %d %d %d %d" % (w, a, hh, s), "model-ilp32")
                    for f in range(4):
                        add("lay %d %d %d %d %d" % (f, w, a, hh, s), "model-layout")
        for w in (65535, 65536, 46341, 37838, 37837):
            for h in (65535, 65536, 65537, 46341, 37838):
                add("bs32 %d 1 %d %d" % (w, h, s), "model-ilp32")
                add("bs %d 1 %d %d" % (w, h, s), "boundary-bufsize")
                for f in range(4):
                    add("lay %d %d %d %d %d" % (f, w, rng.choice(ALIGNS), h // 2, s), "model-layout")
    # ---- unified layout through the model (all four functions) and the codec-path dimensions
    nl = ctx.n(6000, 30000)
    for i in range(nl):
        w, h = (rng.range(1, 70), rng.range(1, 70)) if i % 2 == 0 else (big(), rng.choice([1, 2, rng.range(1, 70000)]))
        a = rng.choice(ALIGNS) if i % 3 else anyalign()
        add("lay %d %d %d %d %d" % (rng.below(4), w if rng.chance(15, 16) else anydim(), a, h, rng.range(-1, nsamp - 1)), "model-layout")
        add("cd %d %d %d %d" % (rng.below(3), rng.range(1, 65500), rng.range(1, 65500), rng.below(nsamp)), "model-codec-dims")
    # ---- behavioural layout of tj3EncodeYUV8: every byte of the buffer accounted for
    if ctx.thorough():
        for s in range(nsamp):
            for a in ALIGNS:
                for w in range(1, 71):
                    for h in range(1, 71):
                        add(layenc_line(w, a, h, s), "layout-encode")
    else:
        for s in range(nsamp):
            for a in ALIGNS:
                for w in range(1, 20):
                    for h in (1, 2, 3, 7, 8, 9, 15, 16, 17, 31, 33):
                        add(layenc_line(w, a, h, s), "layout-encode")
        for _ in range(4000):
            add(layenc_line(rng.range(1, 70), rng.choice(ALIGNS), rng.range(1, 70), rng.below(nsamp)), "layout-encode")
    for _ in range(60):
        w, h, a, s = rng.range(1, 600), rng.range(1, 600), 1 << rng.range(0, 12), rng.below(nsamp)
        add(layenc_line(w, a, h, s), "layout-encode")
    # ---- unified functions on geometry they must reject cleanly
    for fn in (0, 1, 3):
        for s in range(nsamp):
            hs = T["mcuw"][s] // 8
            for (w, a, h) in ((INT_MAX, 1, 1), (INT_MAX, 1 << 30, 1), (INT_MAX - hs + 1, 1, 1), (INT_MAX - 1, 2, 1), ((1 << 30) + 1, 1 << 30, 1),
                              (1, 1 << 30, 70000), (70000, 1, 70000), (1, 1, INT_MAX), (0, 1, 1), (1, 3, 1), (1, 0, 1), (1, 1, 0), (-5, 4, 7)):
                add("errs %d %d %d %d %d" % (fn, w, a, h, s), "unified-reject")
        add("errs %d 16 4 16 -1" % fn, "unified-reject")
    # ---- composition on random JPEGs
    pfs = [0, 1, 2, 3, 4, 5, 6, 7, 8, 9, 10]
    nsf = len(T["sf"])
    nc = ctx.n(7000, 50000)
    for i in range(nc):
        k = rng.below(20)
        if k < 14:
            w, h = rng.range(1, 70), rng.range(1, 70)
        elif k < 18:
            w, h = rng.range(1, 200), rng.range(1, 200)
        else:
            w, h = rng.range(200, 500), rng.range(1, 300)
        s = i % nsamp if i < 4 * nsamp * nsf else rng.below(nsamp)
        sfi = (i // nsamp) % nsf if i < 4 * nsamp * nsf else rng.below(nsf)
        ex = [rng.choice([-1, 0, 0, 1, 3, 7, 16, 33]) for _ in range(3)]
        add("cmp %d %d %d %d %d %d %d %d %d %d %d %d" % (rng.below(1 << 60), w, h, s, rng.choice([5, 30, 50, 75, 90, 95, 100]), sfi,
            rng.choice(ALIGNS), rng.choice(pfs), ex[0], ex[1], ex[2], rng.below(64)), "compose")
    # ---- footprint of the bytes tj3EncodeYUVPlanes8 / tj3DecompressToYUVPlanes8 write into each plane, for every kind of stride
    #      (NULL array, 0, exact, padded, negative, shorter than a row): real library vs model/YuvCopy.v (copy loops), incl.
    #      what libjpeg derives (blocks per component, output size) and which path (intermediate buffer / direct) is taken
    nf = ctx.n(3000, 24000)
    for i in range(nf):
        fn = "enc" if i % 2 == 0 else "dtp"
        s = rng.below(nsamp)
        w, h = rng.range(1, 70), rng.range(1, 70)
        if fn == "dtp" and rng.chance(1, 3):      # iMCU multiples: the direct path
            w, h = T["mcuw"][s] * rng.range(1, 5), T["mcuh"][s] * rng.range(1, 5)
        sfi = T["sf"].index((1, 1)) if (fn == "enc" or rng.chance(1, 2)) and (1, 1) in T["sf"] else rng.below(nsf)
        n_, d_ = T["sf"][sfi] if fn == "dtp" else (1, 1)
        sw = cdiv(w * n_, d_)
        snull = 1 if rng.chance(1, 8) else 0
        st, cls = [], []
        for c in range(3):
            pw = spec_pw(c, sw, s) if c < ncomp(s) else 1
            k = rng.below(9)
            v, name = [(0, "zero"), (pw, "exact"), (pw + rng.range(1, 40), "padded"), (-pw, "neg-exact"), (-(pw + rng.range(1, 40)), "neg-padded"),
                       (rng.range(1, max(1, pw - 1)), "short"), (-rng.range(1, max(1, pw - 1)), "neg-short"), (1, "one"), (rng.range(pw, 4 * pw + 5), "wide")][k]
            st.append(v)
            cls.append("null" if snull else name)
        add("fp %s %d %d %d %d %d %d %d %d" % (fn, snull, st[0], st[1], st[2], w, h, s, sfi), "footprint-" + fn)
        FP_DIST[(fn, cls[0])] = FP_DIST.get((fn, cls[0]), 0) + 1
    # ---- rows/columns every jpeg_read_raw_data call writes (real library) vs the generated library statements (model/RawData.v);
    #      edge replication of tj3CompressFromYUVPlanes8 through the executable event checker of the model
    nr = ctx.n(1500, 8000)
    for i in range(nr):
        s = rng.below(nsamp)
        sfi = rng.below(nsf)
        if s == 2 and T["sf"][sfi][0] < T["sf"][sfi][1]:      # libjpeg upsamples 4:2:0 chroma in the IDCT there: not modelled
            sfi = T["sf"].index((1, 1))
        w, h = (rng.range(1, 70), rng.range(1, 70)) if rng.chance(3, 4) else (T["mcuw"][s] * rng.range(1, 6), T["mcuh"][s] * rng.range(1, 6))
        add("rawfp %d %d %d %d" % (w, h, s, sfi), "rawdata-footprint")
    ne = ctx.n(3000, 15000)
    for i in range(ne):
        s = rng.below(nsamp)
        w, h = rng.range(1, 90), rng.range(1, 90)
        step = (T["mcuh"][s] // 8) * 8
        row = step * rng.below(cdiv(h, step))
        add("edge %d %d %d %d %d" % (rng.below(ncomp(s)), w, h, s, row), "model-edge-replication")
    # ---- TurboJPEG 2.x entry points (tjDecompressToYUV2/ToYUV/ToYUVPlanes/tjDecompress(TJ_YUV), tjDecodeYUV[Planes], tjEncodeYUV3/Planes,
    #      tjCompressFromYUV[Planes], tjBufSizeYUV2, tjPlaneSizeYUV, tjPlaneWidth/Height) on REUSED handles over image sequences with
    #      changing subsampling and dimensions (A, B, A', ...), with and without a header call in between: each result must be the
    #      tj3 result of a fresh instance, i.e. the documented layout of the current image (no state of the previous image)
    nq = ctx.n(2500, 25000)
    for i in range(nq):
        n = rng.range(2, 4)
        base = [rng.range(1, 70), rng.range(1, 70)]
        parts = []
        prev_s = None
        for k in range(n):
            s = rng.below(nsamp)
            if prev_s is not None and rng.chance(3, 4):
                while s == prev_s:
                    s = rng.below(nsamp)
            prev_s = s
            if k == 2 and rng.chance(1, 2):
                s, (w, h) = parts[2], (parts[0], parts[1])      # A again
            else:
                w, h = (base[0], base[1]) if rng.chance(1, 3) else (rng.range(1, 90), rng.range(1, 90))
            sfi = T["sf"].index((1, 1)) if rng.chance(1, 2) and (1, 1) in T["sf"] else rng.below(nsf)
            parts += [w, h, s, rng.choice([30, 75, 90, 97, 100]), sfi, rng.choice([0, 0, 0, 1, 2])]
        add("seq %d %d %d %s" % (rng.below(1 << 60), rng.choice(ALIGNS), n, " ".join(map(str, parts))), "legacy-sequences")
    # ---- composition on JPEGs built through the libjpeg API: sampling factors written in non-standard ways (denoting a
    #      TJSAMP level by ratio, or none) x scan scripts incl. incomplete progressive ones (DC only, partial AC bands,
    #      final Al > 0, per-component differences, random with refinements): block smoothing and the choice of the
    #      upsampler depend on these, and tj3Compress8 never produces them
    nx = ctx.n(6000, 60000)
    nfam, nscript = len(FAM_LEVEL), 8
    for i in range(nx):
        fam = i % nfam if i < 6 * nfam * nscript else rng.below(nfam)
        script = (i // nfam) % nscript if i < 6 * nfam * nscript else rng.below(nscript)
        s = FAM_LEVEL[fam] if FAM_LEVEL[fam] >= 0 else 0
        k = rng.below(20)
        w, h = (rng.range(1, 70), rng.range(1, 70)) if k < 15 else (rng.range(1, 200), rng.range(1, 200))
        sfi = T["sf"].index((1, 1)) if rng.chance(1, 2) and (1, 1) in T["sf"] else rng.below(nsf)
        ex = [rng.choice([-1, 0, 0, 1, 3, 7, 16, 33]) for _ in range(3)]
        add("cmp %d %d %d %d %d %d %d %d %d %d %d %d %d %d" % (rng.below(1 << 60), w, h, s, rng.choice([5, 30, 50, 75, 90, 95, 100]), sfi,
            rng.choice(ALIGNS), rng.choice(pfs), ex[0], ex[1], ex[2], rng.below(64), fam, script), "compose-libjpeg-sources")
    return cases


# harness/c20.c FAM[]: TJSAMP level each sampling-factor family denotes (-1: none)
FAM_LEVEL = [0, 1, 2, 3, 4, 5, 6, 1, 4, 0, 0, 0, 0, -1, -1, -1, -1, -1]
SCRIPT_NAME = ["sequential", "dc-only", "dc-only-al1", "dc+coarse-y-ac", "partial-bands", "final-al1", "random-incomplete", "simple-progression"]


def cmp_signature(line, out):
    f = line.split()
    s, sfi, flags = int(f[4]), int(f[6]), int(f[12])
    fastdct = (flags >> 1) & 1
    msg = out[len("cmp FAIL "):].split(";")[0]
    clause = msg.split(":")[0].split(" at ")[0]
    clause = "".join(ch for ch in clause if not ch.isdigit()).strip().replace("  ", " ")
    if s == 2 and fastdct and T["sf"][sfi] == (1, 2) and "raw data" in msg and len(f) < 15:
        return "yuv420-fastdct-halfscale"
    if len(f) >= 15:
        fam, script = int(f[13]), int(f[14])
        famk = "standard-factors" if fam <= 6 else ("nonstandard-444" if 9 <= fam <= 12 else "fam%d" % fam)
        return "compose-libjpeg:%s:%s:%s" % (clause[:50], famk, SCRIPT_NAME[script] if 0 <= script < len(SCRIPT_NAME) else script)
    return "compose:" + clause[:60]


def run(ctx):
    ctx.regen(["Subsamp"])
    ctx.prove()
    drv = ctx.model_driver()
    flavours = ["simd", "asan"] if not ctx.thorough() else ["simd", "plain", "asan"]
    exes = {fl: ctx.cc("c20", ["c20.c"], fl, libs=("turbojpeg",)) for fl in flavours}

    # the tables the closed forms use are the generated ones (model `tbl`); without the model fall back to the build
    tline = None
    if drv:
        rc, out, err = sh2([drv], input=b"tbl\n", timeout=60)
        if rc == 0:
            tline = out.decode().strip()
    if tline is None:
        rc, out, err = sh2([exes["simd"]], input=b"tbl\n", timeout=60)
        tline = out.decode().strip()
    a, b, c = [x.split() for x in tline[4:].split("|")]
    T["mcuw"], T["mcuh"] = [int(x) for x in a], [int(x) for x in b]
    T["sf"] = [tuple(int(y) for y in x.split("/")) for x in c]

    if ctx.replay:
        r = json.load(open(ctx.replay))
        cases = [(r["case"], "replay")] if r.get("case") else []
        only = r.get("flavour")
        if only in exes:
            exes = {only: exes[only]}
            flavours = [only]
        return run_cases(ctx, cases, exes, drv, flavours)

    cases = []
    cdir = os.path.join(core.VERIF, "corpus", "C20")
    if os.path.isdir(cdir):
        for fn in sorted(os.listdir(cdir)):
            for l in open(os.path.join(cdir, fn)):
                l = l.split("#")[0].strip()
                if l:
                    cases.append((l, "corpus"))
    cases += gen_cases(ctx)
    ctx.log("%d case lines generated" % len(cases))
    return run_cases(ctx, cases, exes, drv, flavours)


def run_stream(ctx, exe, lines, what, timeout):
    """run lines through exe; a crash loses only the crashing line: the rest of the stream is re-run (bounded).
    returns (outputs, crashes) with outputs[i] None for a line that crashed or was skipped"""
    res, crashes, start = [], [], 0
    while start < len(lines):
        rc, out, err = sh2([exe], input=("\n".join(lines[start:]) + "\n").encode(), timeout=timeout)
        got = out.decode("utf-8", "replace").split("\n")
        if got and got[-1] == "":
            got.pop()
        got = got[:len(lines) - start]
        res += got
        if rc == 0 and len(res) == len(lines):
            break
        k = len(res)
        if k >= len(lines):
            crashes.append((len(lines) - 1, rc, err))    # died after the last answer (e.g. leak report at exit)
            break
        crashes.append((k, rc, err))
        res.append(None)
        start = k + 1
        if len(crashes) >= 12:
            res += [None] * (len(lines) - len(res))
            break
    return res, crashes


def run_cases(ctx, cases, exes, drv, flavours):
    impl_idx = [i for i, (l, st) in enumerate(cases) if l.split()[0] in IMPL_KINDS]
    model_idx = [i for i, (l, st) in enumerate(cases) if l.split()[0] in MODEL_KINDS]
    # asan build: everything except that the compose stream is thinned in the quick tier
    # the builds and the extracted model run concurrently (independent processes)
    from concurrent.futures import ThreadPoolExecutor
    jobs = {}
    pool = ThreadPoolExecutor(max_workers=len(flavours) + 1)
    for fl in flavours:
        idx = impl_idx
        if fl != flavours[0] and not ctx.thorough() and not ctx.replay:
            keep, ncmp = [], 0
            for i in idx:
                if cases[i][0].startswith("cmp ") or cases[i][0].startswith("seq "):
                    ncmp += 1
                    if ncmp % 3:
                        continue
                keep.append(i)
            idx = keep
        lines = [cases[i][0] for i in idx]
        jobs[fl] = (idx, lines, pool.submit(run_stream, ctx, exes[fl], lines, fl, 3000))
    if drv:
        mlines = [cases[i][0] for i in model_idx]
        jobs["model"] = (model_idx, mlines, pool.submit(run_stream, ctx, drv, mlines, "model", 3000))
    outs = {}
    for fl in flavours:
        idx, lines, fut = jobs[fl]
        res, crashes = fut.result()
        ctx.log("harness (%s build): %d lines done" % (fl, len(lines)))
        for (k, rc, err) in crashes:
            ctx.violation("implementation crashed/aborted (%s build, rc=%s) on: %s :: %s" % (fl, rc, lines[k][:120], err[-400:]),
                          {"case": lines[k], "flavour": fl, "stderr": err[-3000:]},
                          signature="crash:" + lines[k].split()[0] + ":" + ("sanitizer" if "runtime error" in err or "Sanitizer" in err else "signal"))
        outs[fl] = dict(zip(idx, res))
    mout = {}
    if drv:
        idx, lines, fut = jobs["model"]
        res, crashes = fut.result()
        ctx.log("extracted model: %d lines done" % len(lines))
        for (k, rc, err) in crashes[:2]:
            ctx.broken_tie("model-driver", "extracted model failed on %s: rc=%s %s" % (lines[k][:100], rc, err[-200:]))
        mout = dict(zip(model_idx, res))
    pool.shutdown()

    ref = outs[flavours[0]]
    disagree = 0
    validated = 0
    for i, (line, stream) in enumerate(cases):
        kind = line.split()[0]
        impl = ref.get(i)
        model = mout.get(i)
        exp = expected_for(line)
        key = None
        if kind == "tbl":
            if impl is not None and model is not None and impl != model:
                ctx.broken_tie("tables", "tables compiled into the library differ from the generated facts: %s vs %s" % (impl, model))
            key = ("tbl",)
        elif kind in ("layenc", "errs", "cmp", "seq"):
            for fl in flavours:
                o = outs[fl].get(i)
                if o is None:
                    continue
                if kind == "layenc" and o != "layenc ok":
                    ctx.violation("tj3EncodeYUV8 does not write the documented planar layout (%s build): %s" % (fl, o),
                                  {"case": line, "flavour": fl, "impl": o}, signature="layout-encode:" + " ".join(o.split()[2:5]))
                elif kind == "errs" and o != "errs -1":
                    ctx.violation("unified-buffer function accepted out-of-range geometry (%s build): %s -> %s" % (fl, line, o),
                                  {"case": line, "flavour": fl, "impl": o}, signature="unified-reject:" + line.split()[1])
                elif kind == "cmp" and not o.startswith("cmp ok"):
                    if o.startswith("cmp FAIL"):
                        ctx.violation("composition clause fails (%s build): %s" % (fl, o[9:300]), {"case": line, "flavour": fl, "impl": o},
                                      signature=cmp_signature(line, o))
                    else:
                        ctx.broken_tie("compose-harness", "could not set up case %s: %s" % (line, o))
            if kind == "seq":
                for fl in flavours:
                    o = outs[fl].get(i)
                    if o is not None and not o.startswith("seq ok"):
                        if o.startswith("seq FAIL") and not o.startswith("seq FAIL setup"):
                            step = o[9:].split(":")[0].split(" failed")[0].split(" wrote")[0].split(" !=")[0]
                            ctx.violation("2.x entry point on a reused handle disagrees with the tj3 function on a fresh instance (%s build): %s" % (fl, o[9:330]),
                                          {"case": line, "flavour": fl, "impl": o}, signature="legacy-sequence:" + step[:40])
                        else:
                            ctx.broken_tie("sequence-harness", "could not set up %s: %s" % (line[:120], o[:200]))
            if kind == "cmp" and impl:
                f = line.split()
                key = ("cmp", f[4], f[6], f[7], impl.split("dec=")[-1] if "dec=" in impl else impl[:16], min(int(f[2]), 99) // 8, min(int(f[3]), 99) // 8,
                       tuple(f[13:15]))
            else:
                key = (kind, line)
        else:
            if kind == "fp":
                for fl in flavours:
                    o = outs[fl].get(i)
                    if o is not None and o.startswith("fp FAIL"):
                        ctx.violation("per-plane function writes outside the tj3YUVPlaneSize extent (%s build): %s :: %s" % (fl, line, o[8:200]),
                                      {"case": line, "flavour": fl, "impl": o}, signature="footprint:" + line.split()[1])
                if impl is not None and " lj " in impl:
                    FP_DIST[("dtp-path", impl.split()[-1])] = FP_DIST.get(("dtp-path", impl.split()[-1]), 0) + 1
            # size functions: implementation vs closed form (the published geometry) is the property-level oracle
            if impl is not None and exp is not None and impl != exp:
                ctx.violation("%s: implementation returns `%s`, published geometry gives `%s`" % (line, impl[:80], exp[:80]),
                              {"case": line, "impl": impl, "expected": exp}, signature="size:" + kind + ":" + stream)
            for fl in flavours[1:]:
                o = outs[fl].get(i)
                if o is not None and impl is not None and o != impl:
                    ctx.violation("builds disagree (%s vs %s) on %s" % (flavours[0], fl, line), {"case": line, flavours[0]: impl, fl: o},
                                  signature="build-disagree:" + kind)
            if kind == "rawfp" and impl is not None and impl.startswith("rawfp skip"):
                impl = None
                model = None
            if model is not None:
                other = impl if impl is not None else exp
                if model != other or (exp is not None and model != exp):
                    disagree += 1
                    if disagree <= 3:
                        ctx.log("model disagrees on", line, "\n  model:", model[:160], "\n  impl :", str(impl)[:160], "\n  closed:", str(exp)[:160])
                        ctx.broken_tie("correspondence:" + kind, "model `%s` vs implementation `%s` vs closed form `%s` on: %s" % (
                            model[:100], str(impl)[:100], str(exp)[:100], line))
                elif impl is not None:
                    validated += 1
            key = (kind, impl if impl is not None else model)
        n = 1
        if kind in ("pwr", "phr", "bsr", "psr"):
            n = int(line.split()[-1]) - int(line.split()[-2]) + 1
        ctx.count(stream, n, key)
        if i % 4001 == 17 or (kind == "cmp" and i % 2003 == 0):
            ctx.sample({"case": line[:200], "impl": str(impl)[:200], "model": str(model)[:100]})
    ctx.cov["footprint_case_distribution"] = {"%s:%s" % k: v for k, v in sorted(FP_DIST.items())}
    ctx.cov["traces_validated_against_impl"] = validated
    ctx.cov["model_impl_disagreements"] = disagree
    ctx.cov["rule"] = ("size functions: exhaustive w,h<=70 x 7 levels x 7 alignments x components/strides through the real API, the extracted model and the "
                       "proved closed forms; random large/boundary/invalid arguments; ILP32 instance of the model against the closed form; unified layout "
                       "of the 4 functions through the model; behavioural layout of tj3EncodeYUV8 (every byte); composition clauses on random JPEGs "
                       "(7 levels x 16 scaling factors x alignments x strides x 11 pixel formats, progressive/fast-DCT/fast-upsample flags). A size case is "
                       "distinct when its output line is distinct; a compose case by (level, factor, alignment, clause applicability, size class)")
    ctx.assume += ["correspondence and oracles are differential testing: they tie the hand-written control flow of model/Geometry.v to the code and "
                   "search for failing inputs; the theorems quantify over all arguments",
                   "clause `tj3DecodeYUV8(planes) == tj3Decompress8(FASTUPSAMPLE)` is applied only when libjpeg does not upsample a component inside the IDCT "
                   "(4:2:0 with a factor < 1: different pipelines by design); there the chroma reference is the component re-wrapped as a grayscale JPEG",
                   "plane rows/columns beyond the last real DCT block row/column (padding copied from a scratch buffer) are not compared",
                   "unsigned long / size_t are 64-bit on the test platform; the 32-bit instance of the model is compared with the closed form only"]
    ctx.trusted += ["tools/gen_Subsamp.py (C-expression translator: macro expansion, precedence, casts dropped, +,-,*,~ wrapped per declared C type)",
                    "harness/c20.c incl. its libjpeg raw-data / coefficient-extraction reference decoders"]
