"""C16 -- header parameters and embedded metadata round-trip intact.

1. translator   : gen_IccConst (constants, identifier bytes, field orders, enum values read from
                  jcicc.c jdicc.c jcmarker.c jdmarker.c jpeglib.h transupp.[ch] turbojpeg.c)
2. proofs       : coq/props/C16.v over model/MarkerRT.v, model/Icc.v, model/CopyMarkers.v
3. correspondence: harness/c16.c (REAL jpeg_write_icc_profile / jpeg_read_icc_profile / jpeg_write_marker /
                  jpeg_save_markers / jpeg_read_header / jcopy_markers_* / tj3* of the working tree) against
                  the extracted model (ml/C16_driver): the model's emitted bytes are compared byte for
                  byte with the segments of the real streams, and the model's header/marker/ICC reader is
                  run on the real streams (also after shuffling / damaging the APP2 segments).
4. property-level oracle on the implementation's own outputs for every case (recovered == written).
"""
import json
import os
from vlib import core
from vlib.core import sh2, SplitMix64

SIG = bytes([0x49, 0x43, 0x43, 0x5F, 0x50, 0x52, 0x4F, 0x46, 0x49, 0x4C, 0x45, 0])
CHUNK = 65519
STANDALONE = set(range(0xD0, 0xDA)) | {0x01}
ALLSAVE = ",".join("%d:65535" % c for c in [254] + list(range(224, 240)))
CSNUM = {"gray": 1, "rgb": 2, "ycc": 3, "cmyk": 4, "ycck": 5, "yccin": 3, "ycckin": 5, "unk2": 0, "unk3": 0, "unk4": 0}
# jpeg_set_colorspace: (id, h, v, tq, dc, ac)
CSCOMPS = {
    1: [(1, 1, 1, 0, 0, 0)],
    2: [(0x52, 1, 1, 0, 0, 0), (0x47, 1, 1, 0, 0, 0), (0x42, 1, 1, 0, 0, 0)],
    3: [(1, 2, 2, 0, 0, 0), (2, 1, 1, 1, 1, 1), (3, 1, 1, 1, 1, 1)],
    4: [(0x43, 1, 1, 0, 0, 0), (0x4D, 1, 1, 0, 0, 0), (0x59, 1, 1, 0, 0, 0), (0x4B, 1, 1, 0, 0, 0)],
    5: [(1, 2, 2, 0, 0, 0), (2, 1, 1, 1, 1, 1), (3, 1, 1, 1, 1, 1), (4, 2, 2, 0, 0, 0)],
}
TJ_MCU = {0: (8, 8), 1: (16, 8), 2: (16, 16), 3: (8, 8), 4: (8, 16), 5: (32, 8), 6: (8, 32)}
TJCS_TO_JCS = {0: 2, 1: 3, 2: 1, 3: 4, 4: 5}
JCS_TO_TJCS = {v: k for k, v in TJCS_TO_JCS.items()}


def fnv(b):
    h = 0xcbf29ce484222325
    for x in b:
        h = ((h ^ x) * 0x100000001b3) & 0xFFFFFFFFFFFFFFFF
    return "%016x" % h


def hx(b):
    return b.hex() if b else "-"


def content(seed, n):
    return SplitMix64(seed).bytes(n)


def seg_bytes(code, data):
    return bytes([0xFF, code]) + (len(data) + 2).to_bytes(2, "big") + data


def parse(jpg):
    """header segments up to and including the first SOS header; returns (segs, tail)"""
    segs, i = [], 2
    if jpg[:2] != b"\xff\xd8":
        return None, None
    while i + 4 <= len(jpg):
        if jpg[i] != 0xFF:
            return None, None
        code = jpg[i + 1]
        if code in STANDALONE or code == 0xD8:
            return None, None
        l = int.from_bytes(jpg[i + 2:i + 4], "big")
        segs.append((code, jpg[i + 4:i + 2 + l]))
        i += 2 + l
        if code == 0xDA:
            return segs, jpg[i:]
    return None, None


def rebuild(segs, tail):
    return b"\xff\xd8" + b"".join(seg_bytes(c, d) for c, d in segs) + tail


def is_appcom(code):
    return code == 0xFE or 0xE0 <= code <= 0xEF


def eff_limit(code, lim):
    if lim == 0:
        return 0
    if code == 0xE0 and lim < 14:
        return 14
    if code == 0xEE and lim < 12:
        return 12
    return lim


def is_icc(code, data):
    return code == 0xE2 and len(data) >= 14 and data[:12] == SIG


def py_read_icc(markers):
    """independent reference for the expected outcome: ('ok', bytes) | ('bogus',) | ('absent',)"""
    icc = [(c, d) for c, d in markers if is_icc(c, d)]
    if not icc:
        return ("absent",)
    n = icc[0][1][13]
    seen = {}
    for c, d in icc:
        if d[13] != n or d[12] == 0 or d[12] > n or d[12] in seen:
            return ("bogus",)
        seen[d[12]] = d[14:]
    if any(k not in seen for k in range(1, n + 1)):
        return ("bogus",)
    p = b"".join(seen[k] for k in range(1, n + 1))
    return ("ok", p) if p else ("bogus",)


def icc_str(r):
    return "icc ok %d %s" % (len(r[1]), fnv(r[1])) if r[0] == "ok" else "icc " + r[0]


class Runner:
    def __init__(self, ctx, exes, drv):
        self.ctx, self.exes, self.drv = ctx, exes, drv
        self.flav = list(exes)
        self.model_ok = drv is not None
        self.disagree = 0
        self.validated = 0

    def harness(self, lines, case_of=None):
        """run lines through every flavour; returns the outputs of the first"""
        if not lines:
            return []
        inp = ("\n".join(lines) + "\n").encode()
        ref = None
        for fl in self.flav:
            rc, out, err = sh2([self.exes[fl]], input=inp, timeout=3000)
            res = out.decode().split("\n")
            if rc != 0 or len(res) < len(lines) + 1:
                idx = min(max(0, len(res) - 1), len(lines) - 1)
                cs = case_of(idx) if case_of else {"line": lines[idx][:2000]}
                self.ctx.violation("implementation crashed/aborted (%s build, rc=%d): %s" % (fl, rc, err[-300:]),
                                   {"case": cs, "flavour": fl, "stderr": err[-2000:]},
                                   signature="crash:" + lines[idx].split(" ", 1)[0])
                res += ["<no output>"] * (len(lines) - len(res) + 1)
            res = res[:len(lines)]
            if ref is None:
                ref = res
            else:
                for i, (a, b) in enumerate(zip(ref, res)):
                    if a != b:
                        self.ctx.violation("builds disagree (%s vs %s)" % (self.flav[0], fl),
                                           {"case": case_of(i) if case_of else {"line": lines[i][:2000]},
                                            self.flav[0]: a[:500], fl: b[:500]}, signature="build-disagree:" + lines[i].split(" ", 1)[0])
                        break
        return ref

    def model(self, lines):
        if not lines or not self.model_ok:
            return [None] * len(lines)
        inp = ("\n".join(lines) + "\n").encode()
        rc, out, err = sh2("ulimit -s unlimited 2>/dev/null || ulimit -s 4000000 2>/dev/null; exec '%s'" % self.drv,
                           input=inp, timeout=3000)
        res = out.decode().split("\n")
        if rc != 0 or len(res) < len(lines) + 1:
            self.ctx.broken_tie("model-driver", "extracted model failed: rc=%d %s (after %d of %d lines)" % (rc, err[-200:], len(res) - 1, len(lines)))
            self.model_ok = False
            return [None] * len(lines)
        return res[:len(lines)]

    def corr(self, stream, what, model, impl, case, prop_failed=False):
        """model-vs-implementation comparison of one item"""
        if model is None:
            return
        self.validated += 1
        if model != impl:
            self.disagree += 1
            if self.disagree <= 4:
                self.ctx.log("model/impl disagree on", stream, what, "\n  model:", str(model)[:300], "\n  impl :", str(impl)[:300])
            if not prop_failed:
                self.ctx.broken_tie("correspondence:" + stream,
                                    "model and implementation differ (%s): model=%s || impl=%s || case=%s" % (
                                        what, str(model)[:200], str(impl)[:200], json.dumps(case)[:300]))


# ----------------------------------------------------------------------------- ICC
def icc_producer_line(c, prof):
    if c["api"] == "tj":
        return "tjc 6 8 8 8 %s subsamp=3,quality=75" % hx(prof)
    return "jc 8 8 gray - 8 b 1 0 0 - d d 0 %s -" % hx(prof)


def icc_cases(ctx):
    rng = ctx.rng
    lens = [1, 2, 13, 14, CHUNK - 1, CHUNK, CHUNK + 1, 2 * CHUNK - 1, 2 * CHUNK, 2 * CHUNK + 1]
    k = rng.range(3, 5)
    lens += [k * CHUNK + rng.choice([-1, 0, 1]), rng.range(15, 4000), rng.range(CHUNK + 2, 2 * CHUNK - 2)]
    if ctx.thorough():
        lens += [k2 * CHUNK + d for k2 in (3, 7, 20) for d in (-1, 0, 1)]
        lens += [100 * CHUNK, 255 * CHUNK - 1, 255 * CHUNK]
    cases = []
    for i, n in enumerate(lens):
        for api in ("tj", "jpeg"):
            if n > 20 * CHUNK and api == "jpeg" and n != 255 * CHUNK:
                continue
            cases.append({"kind": "icc", "api": api, "len": n, "seed": rng.next(), "vseed": rng.next()})
    return cases


def icc_variants(c, segs, tail, prof):
    """(name, stream bytes, expected result, savecfg) for the reads of one ICC stream"""
    rng = SplitMix64(c["vseed"])
    big = c["len"] > 30 * CHUNK
    idx = [i for i, (code, d) in enumerate(segs) if code == 0xE2]
    out = [("plain", rebuild(segs, tail), ("ok", prof), "226:65535")]
    icc = [segs[i] for i in idx]
    n = len(icc)

    def with_icc(new_icc, extra_between=None):
        s2 = segs[:idx[0]] + list(new_icc) + segs[idx[-1] + 1:]
        return rebuild(s2, tail)
    if n >= 2:
        out.append(("shuffled", with_icc(rng.shuffle(icc)), ("ok", prof), "226:65535"))
        out.append(("reversed", with_icc(icc[::-1]), ("ok", prof), "226:65535"))
    if big:
        return out
    # interleave with non-ICC markers (COM, APP1, short APP2, APP2 with another identifier)
    mix = list(rng.shuffle(icc))
    fillers = [(0xFE, b"interleaved comment"), (0xE1, b"Exif\0\0" + rng.bytes(rng.range(0, 40))), (0xE2, b"ICC_PROF"),
               (0xE2, b"ICC_PROFILX\0\x01\x01abc"), (0xE2, b"MPF\0" + rng.bytes(20)), (0xED, rng.bytes(rng.range(0, 300)))]
    for fl in fillers:
        mix.insert(rng.below(len(mix) + 1), fl)
    out.append(("interleaved", with_icc(mix), ("ok", prof), ALLSAVE))
    # malformed numbering
    def patched(seg, pos, val):
        d = bytearray(seg[1]); d[pos] = val
        return (seg[0], bytes(d))
    j = rng.below(n)
    bad = [("dup", icc[:j + 1] + [icc[j]] + icc[j + 1:], ("bogus",)),
           ("dup-other-data", icc + [(0xE2, icc[j][1][:14] + b"other")], ("bogus",)),
           ("drop", icc[:j] + icc[j + 1:], ("absent",) if n == 1 else ("bogus",)),
           ("count+1", icc[:j] + [patched(icc[j], 13, (n + 1) & 255)] + icc[j + 1:], ("bogus",)),
           ("seq0", icc[:j] + [patched(icc[j], 12, 0)] + icc[j + 1:], ("bogus",)),
           ("seq>count", icc[:j] + [patched(icc[j], 12, min(255, n + 1))] + icc[j + 1:], ("bogus",) if n < 255 else ("ok", prof)),
           ("count0", [patched(s, 13, 0) for s in icc], ("bogus",)),
           ("empty-payload", [(0xE2, SIG + bytes([1, 1]))], ("bogus",))]
    pick = rng.shuffle(range(len(bad)))[:3 if c["len"] > 70000 else len(bad)]
    for bi in pick:
        name, lst, exp = bad[bi]
        ref = py_read_icc(lst)
        out.append((name, with_icc(rng.shuffle(lst) if rng.chance(1, 2) else lst), ref, "226:65535"))
        assert ref[0] == exp[0], (name, ref[0], exp[0])
    return out


def run_icc(ctx, R, cases):
    profs = [content(c["seed"], c["len"]) for c in cases]
    outs = R.harness([icc_producer_line(c, p) for c, p in zip(cases, profs)], lambda i: cases[i])
    hl, ml, meta = [], [], []
    for ci, (c, prof, o) in enumerate(zip(cases, profs, outs)):
        key = "icc-%s" % c["api"]
        if not o.startswith("ok "):
            ctx.violation("compressor failed with an ICC profile of %d bytes: %s" % (c["len"], o[:80]), {"case": c}, signature="icc-write-failed:%s" % c["api"])
            continue
        jpg = bytes.fromhex(o[3:])
        segs, tail = parse(jpg)
        if segs is None:
            ctx.violation("stream with ICC profile is not parsable", {"case": c}, signature="icc-stream-unparsable")
            continue
        icc = [d for code, d in segs if code == 0xE2]
        n = (c["len"] + CHUNK - 1) // CHUNK
        bad = None
        if len(icc) != n:
            bad = "%d APP2 segments, expected %d" % (len(icc), n)
        else:
            for i, d in enumerate(icc):
                if len(d) > 65533 or d[:12] != SIG or d[12] != i + 1 or d[13] != n:
                    bad = "segment %d: length %d seq %d count %d" % (i, len(d), d[12], d[13]); break
                if i + 1 < n and len(d) != 65533:
                    bad = "segment %d is not full (%d)" % (i, len(d)); break
            if not bad and b"".join(d[14:] for d in icc) != prof:
                bad = "concatenated payload differs from the profile"
        if bad:
            ctx.violation("ICC segments malformed (len %d, %s API): %s" % (c["len"], c["api"], bad), {"case": c}, signature="icc-segments:%s" % c["api"])
        ml.append("emit icc " + hx(prof)); hl.append("-")
        meta.append((ci, "emit", b"".join(seg_bytes(0xE2, d) for d in icc), None))
        for name, stream, exp, cfg in icc_variants(c, segs, tail, prof):
            line = "rd %s %s" % (cfg, stream.hex())
            # the extracted model's second pass costs segments x length list operations: on the very long
            # profiles it reads the stream-order and the reversed variant only
            big_model = name == "plain" and (c["len"] <= 100 * CHUNK or (c["len"] == 255 * CHUNK and c["api"] == "jpeg"))
            hl.append(line); ml.append(line if c["len"] <= 30 * CHUNK or big_model else "-")
            meta.append((ci, "rd:" + name, exp, None))
            if c["len"] <= 30 * CHUNK or name == "plain":
                hl.append("tjrd -1 " + stream.hex()); ml.append("-"); meta.append((ci, "tjrd:" + name, exp, None))
        ctx.count(key, 1, ("icc", c["len"]))
    hres = R.harness(hl, lambda i: cases[meta[i][0]])
    mres = R.model(ml)
    for (ci, what, exp, _), h, m in zip(meta, hres, mres):
        c = cases[ci]
        if what == "emit":
            R.corr("icc-write", "APP2 bytes, len %d" % c["len"], m, exp.hex(), c)
            continue
        failed = False
        want = icc_str(exp)
        if what.startswith("rd:"):
            got = h.rsplit("| ", 1)[-1]
            if got != want:
                failed = True
                ctx.violation("jpeg_read_icc_profile on %s stream (profile of %d bytes, written by %s API): got '%s', expected '%s'" % (
                    what[3:], c["len"], c["api"], got[:60], want), {"case": c, "variant": what, "impl": h[-200:]},
                    signature="icc-read:%s:%s" % (what[3:], "ok" if exp[0] == "ok" else exp[0]))
            R.corr("icc-read", what, None if m == "-" else m, h, c, failed)
        else:
            got = h.rsplit("| ", 1)[-1].replace(" second-get-succeeded", "")
            w2 = want if exp[0] == "ok" else "icc absent"
            if got != w2 or "second-get-succeeded" in h or (exp[0] == "bogus") != ("warn=1" in h):
                ctx.violation("tj3DecompressHeader/tj3GetICCProfile on %s stream (profile of %d bytes): got '%s', expected '%s'" % (
                    what[5:], c["len"], h[-90:], w2), {"case": c, "variant": what, "impl": h[-200:]},
                    signature="icc-tjread:%s:%s" % (what[5:], exp[0]))
        ctx.count("icc-" + what.split(":")[0] + "-" + exp[0], 1, (what, c["len"], c["api"]))


# ------------------------------------------------------------------------- markers
def mk_cases(ctx):
    rng = ctx.rng
    codes = [254] + list(range(224, 240))
    lens = [0, 1, 13, 14, 15, 65532, 65533]
    limits = [0, 1, 13, 14, 100, 0xFFFF]
    cases = []
    n = ctx.n(70, 700)
    allpairs = rng.shuffle([(c, l) for c in codes for l in lens])
    pi = 0
    for i in range(n):
        nm = rng.range(1, 6)
        ms = []
        for _ in range(nm):
            if pi < len(allpairs) and rng.chance(3, 4):
                code, ln = allpairs[pi]; pi += 1
            else:
                code, ln = rng.choice(codes), rng.choice(lens + [rng.range(2, 300), rng.range(300, 65531)])
            if ln > 60000 and sum(1 for m in ms if m[1] > 60000) >= 2:
                ln = rng.range(0, 200)
            style = "rand"
            if code == 224 and rng.chance(1, 2):
                style = rng.choice(["jfif", "jfxx", "jfif-short"])
            if code == 238 and rng.chance(1, 2):
                style = rng.choice(["adobe", "adobe-short"])
            ms.append([code, ln, rng.next(), style])
        cfg = []
        for code in rng.shuffle(codes)[:rng.range(1, 17)]:
            cfg.append([code, rng.choice(limits)])
        if rng.chance(1, 4):      # a later call overrides an earlier one
            cfg.append([cfg[0][0], rng.choice(limits)])
        cases.append({"kind": "mk", "cs": rng.choice(["gray", "ycc", "rgb", "cmyk", "ycck"]), "markers": ms, "cfg": cfg})
    # a marker whose last payload byte lands exactly on a destination-buffer boundary (jpeg_mem_dest: 4096, then doubling;
    # file header of a grayscale image = SOI + JFIF APP0 = 20 bytes, marker header 4 bytes)
    for end in (4096, 8192, 16384, 32768, 65536):
        for first in (0, 1):
            pre = [[225, 50, rng.next(), "rand"]] if first else []
            off = 20 + (54 if first else 0) + 4
            cases.append({"kind": "mk", "cs": "gray", "markers": pre + [[rng.choice(codes), end - off, rng.next(), "rand"], [254, 7, rng.next(), "rand"]],
                          "cfg": [[c_, 65535] for c_ in codes]})
    # the writer's length limit
    for ln in (65533, 65534, 65535, 70000):
        cases.append({"kind": "mk", "cs": "gray", "markers": [[rng.choice(codes), ln, rng.next(), "rand"]], "cfg": [[254, 65535]]})
    return cases


def marker_data(m):
    code, ln, seed, style = m
    d = content(seed, ln)
    pre = {"jfif": b"JFIF\0\x01\x02\x01\x00\x48\x00\x60\x00\x00", "jfxx": b"JFXX\0\x13", "jfif-short": b"JFIF\0\x01",
           "adobe": b"Adobe\0\x64\x80\0\0\0\x01", "adobe0": b"Adobe\0\x64\x80\0\0\0\x00", "adobe1": b"Adobe\0\x64\x80\0\0\0\x01",
           "adobe2": b"Adobe\0\x64\x80\0\0\0\x02", "adobe-short": b"Adobe", "iccsig": SIG, "exif": b"Exif\0\0"}.get(style, b"")
    if pre:
        d = (pre + d)[:max(ln, 0)] if ln >= len(pre) else pre
    if style == "adobe-short":
        d = d[:11]              # shorter than APP14_DATA_LEN: never taken for an Adobe marker
    return d


def susp_spec(rng, segs, lim):
    """partitions of the header for the suspending-source reads"""
    hlen = 2 + sum(4 + len(d) for _, d in segs)
    if hlen <= 1500:
        return "every:1:%d" % (hlen + 2)
    pts, off = set(), 2
    for code, d in segs:
        for k in range(off, off + 7):                     # marker code, length word, first data bytes
            pts.add(k)
        L = lim.get(code, 0)
        if is_appcom(code) and L:
            for k in (off + 4 + min(L, len(d)) + e for e in (-1, 0, 1)):   # end of the saved part
                pts.add(k)
        for k in (off + 4 + len(d) + e for e in (-2, -1)):
            pts.add(k)
        off += 4 + len(d)
    parts = [str(k) for k in sorted(pts) if 0 < k < hlen + 2]
    for _ in range(40):                                    # random partitions with 2..6 cuts
        cuts = sorted(set(rng.range(1, hlen + 1) for _ in range(rng.range(2, 6))))
        parts.append("+".join(str(k) for k in cuts))
    for _ in range(10):                                    # small fixed-size chunks over a window
        st, step = rng.range(1, max(1, hlen - 200)), rng.range(1, 7)
        parts.append("+".join(str(st + i * step) for i in range(40)))
    return "pts:" + "/".join(parts)


def judge_rds(ctx, R, c, h, m, stream):
    """h: harness rds line; every partition must give the one-buffer header line"""
    main = h.split(" || ")[0]
    items = main.split()
    bad = [it.split("=")[0] for it in items if "=" in it and it.split("=")[1][:1] != "S"]
    failed = bool(bad) or not items
    if failed:
        detail = h.split(" || ")[1][:400] if " || " in h else h[:200]
        ctx.violation("reading the header through a suspending data source with the data split at %s does not give the markers / header "
                      "that the one-buffer read gives: %s" % (bad[:6], detail), {"case": c, "bad_partitions": bad[:20], "impl": detail},
                      signature="suspend-split:%s" % stream)
    if m not in (None, "-"):
        mitems = m.split(" || ")[0].split()
        labels = set(it.split("=")[0] for it in mitems)
        sub = [it for it in items if it.split("=")[0] in labels]
        R.corr("suspend", "restart points / results per partition", " ".join(sorted(mitems)), " ".join(sorted(sub)), c, failed)
    ctx.count("%s-suspend" % stream, len(items), ("susp", len(items), hash(main) & 0xffffffff))


def run_mk(ctx, R, cases):
    datas = [[(m[0], marker_data(m)) for m in c["markers"]] for c in cases]
    lines = []
    for c, ds in zip(cases, datas):
        lines.append("jc 8 8 %s - 8 b 1 0 0 - d d 0 - %s" % (c["cs"], ",".join("%d:%s" % (code, d.hex()) for code, d in ds)))
    outs = R.harness(lines, lambda i: cases[i])
    hl, ml, meta = [], [], []
    for ci, (c, ds, o) in enumerate(zip(cases, datas, outs)):
        toolong = any(len(d) > 65533 for _, d in ds)
        ml.append("emit markers " + ",".join("%d:%s" % (code, d.hex()) for code, d in ds)); hl.append("-")
        if toolong:
            if not o.startswith("err"):
                ctx.violation("jpeg_write_marker accepted %d data bytes (limit 65533)" % max(len(d) for _, d in ds), {"case": c}, signature="marker-too-long-accepted")
            meta.append((ci, "emit-err", None)); ctx.count("mk-too-long", 1, ("mk-too-long", len(ds[0][1])))
            continue
        if not o.startswith("ok "):
            ctx.violation("compressor failed while writing markers: " + o[:60], {"case": c}, signature="marker-write-failed")
            meta.append((ci, "skip", None))
            continue
        jpg = bytes.fromhex(o[3:])
        segs, tail = parse(jpg)
        head = [s for s in segs[:next(i for i, s in enumerate(segs) if not is_appcom(s[0]))]]
        nlib = len(head) - len(ds)
        if nlib < 0 or head[nlib:] != ds:
            ctx.violation("markers in the stream differ from the markers written", {"case": c}, signature="marker-stream-differs")
        meta.append((ci, "emit", b"".join(seg_bytes(*s) for s in head[max(nlib, 0):])))
        if sum(len(d) for _, d in ds) < 3000:      # the model appends byte by byte
            hl.append("-"); ml.append("mapi " + ",".join("%d:%s" % (code, d.hex()) for code, d in ds))
            meta.append((ci, "emit", b"".join(seg_bytes(*s) for s in head[max(nlib, 0):])))
        cfgs = ",".join("%d:%d" % (a, b) for a, b in c["cfg"])
        line = "rd %s %s" % (cfgs, jpg.hex())
        hl.append(line); ml.append(line)
        lim = {}
        for a, b in c["cfg"]:
            lim[a] = eff_limit(a, b)
        exp = []
        for code, d in head:
            L = lim.get(code, 0)
            if L:
                dl = min(len(d), L)
                exp.append(" m %d %d %d %s ;" % (code, len(d), dl, fnv(d[:dl])))
        meta.append((ci, "rd", "".join(exp)))
        # trace / warning messages of the COM/APPn routines (JFIF version, thumbnail consistency, JFXX codes, Adobe)
        if sum(len(d) for _, d in head) < 3000:
            hl.append("rdt %s %s" % (cfgs, jpg.hex()))
            ml.append("trace %s %s" % (cfgs, ",".join("%d:%s" % (code, d.hex()) for code, d in head)))
            meta.append((ci, "trace", nlib))
        # the same header through a suspending source: every split position when the header is short, else every
        # position around each segment start / length word / save limit, plus random partitions
        spec = susp_spec(SplitMix64(c["markers"][0][2] ^ 0x5a5a), segs, lim)
        stream2 = rebuild(segs, tail[:64]).hex()
        hl.append("rds %s %s %s" % (cfgs, spec, stream2))
        # the extracted model walks lists: on long headers it gets a sample of the partitions
        mspec = spec
        if spec.startswith("pts:"):
            parts = spec[4:].split("/")
            rs = SplitMix64(len(parts) * 7919 + c["markers"][0][2])
            mspec = "pts:" + "/".join(rs.shuffle(parts)[:10])
        ml.append("rds %s %s %s" % (cfgs, mspec, stream2)); meta.append((ci, "rds", None))
        for code, d in ds:
            ctx.count("mk-code-%d" % code, 1, ("mk", code, len(d), lim.get(code, 0)))
    hres = R.harness(hl, lambda i: cases[meta[i][0]])
    mres = R.model(ml)
    for (ci, what, exp), h, m in zip(meta, hres, mres):
        c = cases[ci]
        if what == "skip":
            continue
        if what == "emit-err":
            R.corr("marker-write", "length limit", m, "err", c)
        elif what == "emit":
            R.corr("marker-write", "marker bytes", m, exp.hex() if exp else "-", c)
        elif what == "rds":
            judge_rds(ctx, R, c, h, m, "marker")
        elif what == "trace":
            lib = h.split()[1:1 + max(exp, 0)]
            if any(x.startswith(("TrThumb", "TrBadThumbSize", "WarnJfifMajor")) for x in lib if c["cs"] in ("gray", "ycc")):
                ctx.violation("the JFIF marker written by the library is reported with a thumbnail / inconsistent size / version warning: %s" % lib,
                              {"case": c}, signature="jfif-own-marker-trace")
            R.corr("marker-trace", "APPn/COM messages", m, h, c)
            ctx.count("mk-trace", 1, ("trace", h[:200]))
        else:
            failed = False
            parts = h.split(" |")
            got = parts[1] if len(parts) >= 3 else "<%s>" % h[:40]
            if got != exp:
                failed = True
                ctx.violation("saved marker list differs from the markers in the stream: got '%s' expected '%s'" % (got[:200], exp[:200]),
                              {"case": c, "impl": h[:600]}, signature="marker-save-list")
            R.corr("marker-read", "rd", m, h, c, failed)


# ------------------------------------------------------------------ header parameters
def hp_cases(ctx):
    rng = ctx.rng
    cases = []
    for i in range(ctx.n(250, 2500)):          # TurboJPEG API
        pf = rng.choice([0, 0, 6, 11, 2, 7])
        lossless = rng.chance(1, 3)
        bits = rng.choice([8, 8, 12, 16]) if lossless else rng.choice([8, 8, 12])
        p = {}
        if lossless:
            p["lossless"] = 1
            prec = rng.range(2, 16)
            if rng.chance(3, 4):
                p["prec"] = prec
            effp = p.get("prec", bits)
            if not ((2 if bits == 8 else bits - 3) <= effp <= bits):
                effp = bits
            p["psv"] = rng.range(1, 7)
            p["pt"] = rng.range(0, effp - 1) if rng.chance(9, 10) else rng.range(0, 15)
            if rng.chance(1, 3):
                p["subsamp"] = rng.range(0, 6)
        else:
            p["subsamp"] = rng.range(0, 6)
            p["quality"] = rng.range(1, 100)
            if rng.chance(1, 3):
                p["cs"] = rng.range(0, 4)
        if rng.chance(1, 3):
            p["prog"] = 1
        if rng.chance(1, 3):
            p["arith"] = 1
        if rng.chance(1, 3):
            p["optimize"] = 1
        r = rng.below(4)
        if r == 1:
            p["rblocks"] = rng.choice([1, 2, 7, 255, 256, 65535, rng.range(1, 65535)])
        elif r == 2:
            p["rrows"] = rng.choice([1, 2, 3, 65535])
        if rng.chance(2, 3):
            p["xd"] = rng.choice([1, 72, 255, 256, 65535, rng.range(1, 65535)])
            p["yd"] = rng.choice([1, 96, 255, 256, 65535, rng.range(1, 65535)])
            p["unit"] = rng.range(0, 2)
        W, H = rng.range(1, 40), rng.range(1, 40)
        if rng.chance(1, 12):
            W, H = rng.choice([(65500, 1), (1, 65500), (65500, 2), (256, 255), (255, 256), (65501, 1)])
        if pf == 6 and not lossless and rng.chance(7, 8):
            p["subsamp"] = 3
            p.pop("cs", None)
        if pf == 11 and p.get("cs", 3) not in (3, 4) and rng.chance(7, 8):
            p.pop("cs", None)
        if pf not in (6, 11) and p.get("cs", 0) in (3, 4) and rng.chance(7, 8):
            p.pop("cs", None)
        if lossless and "rblocks" in p and rng.chance(7, 8):
            p["rblocks"] = min(65535, W * rng.range(1, 3)) if W * 1 <= 65535 else 0
        cases.append({"kind": "hp", "api": "tj", "pf": pf, "W": W, "H": H, "bits": bits, "p": p})
    # the full matrix in_color_space x process x {library markers, no markers}, on every run
    for cs in ["gray", "ycc", "rgb", "cmyk", "ycck", "yccin", "ycckin", "unk2", "unk3", "unk4"]:
        for mode, prec in (("b", 8), ("l", 8), ("l", 12), ("p", 8)):
            for wjwa in (("d", "d"), ("0", "0")):
                if mode == "p" and cs == "unk2":
                    continue
                cases.append({"kind": "hp", "api": "jpeg", "cs": cs, "W": 9, "H": 7, "prec": prec, "mode": mode, "psv": rng.range(1, 7), "pt": 0,
                              "samp": "-", "restart": 0, "jfif": "-", "wj": wjwa[0], "wa": wjwa[1], "ids": "-"})
    for i in range(ctx.n(250, 2500)):          # libjpeg API
        # every in_color_space x process: lossless keeps the input colourspace (YCbCr, YCCK and UNKNOWN inputs included)
        cs = rng.choice(["gray", "ycc", "rgb", "cmyk", "ycck", "ycc", "yccin", "yccin", "ycckin", "unk2", "unk3", "unk4"])
        mode = "".join(ch for ch in "pao" if rng.chance(1, 3))
        lossless = rng.chance(1, 3)
        if lossless:
            mode = mode.replace("p", "") + "l"
            prec = rng.range(2, 16)
        else:
            prec = rng.choice([8, 8, 12])
        nc = int(cs[3:]) if cs.startswith("unk") else len(CSCOMPS[CSNUM[cs]])
        samp = "-"
        if rng.chance(1, 2):
            for _try in range(20):
                fs = [(rng.choice([1, 1, 2, 2, 3, 4]), rng.choice([1, 1, 2, 2, 3, 4])) for _ in range(nc)]
                if sum(a * b for a, b in fs) <= 10 or _try == 19 and rng.chance(1, 8):
                    break
            else:
                fs = [(1, 1)] * nc
            samp = ",".join("%dx%d" % f for f in fs)
        jf = "-"
        if rng.chance(2, 3):
            jf = "%d.%d.%d.%d.%d" % (rng.choice([1, 1, 1, 2, 255]), rng.range(0, 255), rng.choice([0, 1, 2, 3, 255]),
                                      rng.choice([0, 1, 255, 256, 65535, rng.range(0, 65535)]), rng.choice([0, 1, 255, 256, 65535, rng.range(0, 65535)]))
        W, H = rng.range(1, 40), rng.range(1, 40)
        if rng.chance(1, 10):
            W, H = rng.choice([(65500, 1), (1, 65500), (65500, 2), (256, 255), (255, 256), (65535, 1), (65536, 1), (1, 65536)])
        restart = rng.choice([0, 0, 1, 255, 256, 65535, rng.range(1, 65535)])
        if lossless and restart and rng.chance(7, 8):
            restart = min(65535, W * rng.range(1, 4)) if W <= 65535 else 0
        cases.append({"kind": "hp", "api": "jpeg", "cs": cs, "W": W, "H": H, "prec": prec, "mode": mode or "b",
                      "psv": rng.range(1, 7), "pt": rng.range(0, prec - 1), "samp": samp,
                      "restart": restart, "jfif": jf,
                      "wj": rng.choice(["d", "d", "d", "0", "1"]), "wa": rng.choice(["d", "d", "d", "0", "1"]),
                      # component-id conventions: the library's, or 1,2,3 / 'R','G','B' / arbitrary ones set by the application
                      "ids": rng.choice(["-", "-", "-", "-", ".".join(str(x) for x in rng.choice([[1, 2, 3, 4], [82, 71, 66, 65], [0, 1, 2, 3], [rng.range(0, 255) for _ in range(4)]])[:nc])])})
    return cases


def hp_line(c):
    if c["api"] == "tj":
        return "tjc %d %d %d %d - %s" % (c["pf"], c["W"], c["H"], c["bits"], ",".join("%s=%d" % kv for kv in c["p"].items()) or "-")
    return "jc %d %d %s %s %d %s %d %d %d %s %s %s 0 - - %s" % (c["W"], c["H"], c["cs"], c["samp"], c["prec"], c["mode"], c["psv"], c["pt"],
                                                           c["restart"], c["jfif"], c["wj"], c["wa"], c.get("ids", "-"))


def hp_expect(c):
    """what the header must say, from the parameters alone (None for a field = not judged)"""
    e = {"W": c["W"], "H": c["H"]}
    if c["api"] == "tj":
        p = c["p"]; lossless = p.get("lossless", 0); pf = c["pf"]; bits = c["bits"]
        ingray, incmyk = pf == 6, pf == 11
        if lossless:
            prec = p.get("prec", bits)
            if not ((2 if bits == 8 else bits - 3) <= prec <= bits):
                prec = bits
            jcs = 1 if ingray else 4 if incmyk else 2
            e.update(prec=prec, prog=0, arith=0, lossless=1, psv=p["psv"], pt=p["pt"], sub=3 if ingray else 0)
        else:
            sub = p["subsamp"]
            if "cs" in p:
                jcs = TJCS_TO_JCS[p["cs"]]
            else:
                jcs = 1 if sub == 3 else 5 if incmyk else 3
            # TJSAMP_GRAY with a colour JPEG colourspace means 1x1 factors, i.e. 4:4:4
            e.update(prec=bits, prog=p.get("prog", 0), arith=p.get("arith", 0), lossless=0, sub=3 if jcs == 1 else (0 if sub == 3 else sub))
        e["jcs"] = jcs
        if jcs in (1, 3):
            e["dens"] = (p.get("unit", 0), p.get("xd", 1), p.get("yd", 1))
        else:
            e["dens"] = (0, 1, 1)
        if "rblocks" in p:
            e["ri"] = p["rblocks"]
        elif "rrows" not in p:
            e["ri"] = 0
    else:
        lossless = "l" in c["mode"]
        jcs = CSNUM[c["cs"]]
        if lossless and c["cs"] in ("ycc", "ycck"):
            jcs = 2 if c["cs"] == "ycc" else 4      # jpeg_default_colorspace for RGB / CMYK input
        comps = [list(t) for t in CSCOMPS[jcs]] if jcs else [[i, 1, 1, 0, 0, 0] for i in range(int(c["cs"][3:]))]
        if c.get("ids", "-") != "-" and not lossless:
            for k, v in enumerate(c["ids"].split(".")[:len(comps)]):
                comps[k][0] = int(v)
        if c["samp"] != "-" and not lossless:
            for k, s in enumerate(c["samp"].split(",")):
                comps[k][1], comps[k][2] = [int(x) for x in s.split("x")]
        if lossless:
            for k in comps:
                k[1] = k[2] = 1
        wj = jcs in (1, 3) if c["wj"] == "d" or lossless else c["wj"] == "1"
        wa = jcs in (2, 4, 5) if c["wa"] == "d" or lossless else c["wa"] == "1"
        e.update(prec=c["prec"], prog=int("p" in c["mode"]), arith=int("a" in c["mode"]), lossless=int(lossless), jcs_written=jcs,
                 comps=comps, wj=wj, wa=wa, ri=c["restart"])
        if lossless:
            e.update(psv=c["psv"], pt=c["pt"])
        jf = [1, 1, 0, 1, 1] if c["jfif"] == "-" else [int(x) for x in c["jfif"].split(".")]
        e["jfif"] = jf
        e["dens"] = (jf[2], jf[3], jf[4]) if wj else (0, 1, 1)
    return e


def run_hp(ctx, R, cases):
    outs = R.harness([hp_line(c) for c in cases], lambda i: cases[i])
    hl, ml, meta = [], [], []
    for ci, (c, o) in enumerate(zip(cases, outs)):
        if not o.startswith("ok "):
            if c["api"] == "jpeg" and max(c["W"], c["H"]) > 65535 and not o.startswith("err"):
                ctx.violation("image dimension > 65535 accepted", {"case": c}, signature="dim-too-big-accepted")
            ctx.count("hp-%s-rejected" % c["api"], 1, None)
            continue
        if c["api"] == "jpeg" and max(c["W"], c["H"]) > 65535:
            ctx.violation("image dimension > 65535 accepted by emit_sof", {"case": c}, signature="dim-too-big-accepted")
            continue
        jpg = bytes.fromhex(o[3:])
        segs, tail = parse(jpg)
        if segs is None:
            ctx.violation("emitted header is not a well-formed marker sequence", {"case": c}, signature="hp-unparsable")
            continue
        e = hp_expect(c)
        line = "rd %s %s" % (ALLSAVE, hx(rebuild(segs, b"")))
        hl.append(line); ml.append(line); meta.append((ci, "rd", e, segs))
        hl.append("tjrd -1 " + hx(jpg)); ml.append("-"); meta.append((ci, "tjrd", e, segs))
        if c["api"] == "jpeg":
            # the model's emitters against the bytes of the real stream
            jcs = e["jcs_written"]; comps = e["comps"]; jf = e["jfif"]
            exp_head = b"".join(seg_bytes(*s) for s in segs[:next(i for i, s in enumerate(segs) if not is_appcom(s[0]))])
            if c["wj"] == "d" and c["wa"] == "d" or e["lossless"]:
                hl.append("-"); ml.append("emit filehdr %d %d %d %d %d %d" % (jcs, jf[0], jf[1], jf[2], jf[3], jf[4]))
                meta.append((ci, "emit-filehdr", b"\xff\xd8" + exp_head, None))
            sof = [s for s in segs if 0xC0 <= s[0] <= 0xCF and s[0] not in (0xC4, 0xCC, 0xC8)]
            baseline = int(c["prec"] == 8 and not e["prog"] and not e["arith"] and not e["lossless"])
            hl.append("-"); ml.append("emit sofcode %d %d %d %d" % (e["arith"], e["prog"], e["lossless"], baseline))
            meta.append((ci, "emit-sofcode", str(sof[0][0]) if sof else "none", None))
            hl.append("-"); ml.append("emit sof %d %d %d %d %s" % (sof[0][0] if sof else 0xC0, c["prec"], c["H"], c["W"],
                                                                    ",".join("%d.%d.%d.%d" % tuple(k[:4]) for k in comps)))
            meta.append((ci, "emit-sof", seg_bytes(*sof[0]) if sof else b"", None))
            if e["lossless"]:
                Ss, Se, Ah, Al = c["psv"], 0, 0, c["pt"]
            elif e["prog"]:
                Ss, Se, Ah, Al = 0, 0, 0, 1
            else:
                Ss, Se, Ah, Al = 0, 63, 0, 0
            hl.append("-"); ml.append("emit sos %d %s %s %d %d %d %d" % (e["lossless"], ",".join(str(k[0]) for k in comps),
                                                                          ",".join("%d.%d.%d" % (i, k[4], k[5]) for i, k in enumerate(comps)), Ss, Se, Ah, Al))
            meta.append((ci, "emit-sos", seg_bytes(*segs[-1]), None))
            dri = [s for s in segs if s[0] == 0xDD]
            if c["restart"]:
                hl.append("-"); ml.append("emit dri %d" % c["restart"])
                meta.append((ci, "emit-dri", seg_bytes(*dri[0]) if dri else b"", None))
            elif dri:
                ctx.violation("DRI emitted although restart_interval = 0", {"case": c}, signature="dri-unexpected")
    hres = R.harness(hl, lambda i: cases[meta[i][0]])
    mres = R.model(ml)
    run_subsamp(ctx, R, cases, meta, hres)
    for (ci, what, e, segs), h, m in zip(meta, hres, mres):
        c = cases[ci]
        if what.startswith("emit-"):
            R.corr("header-write", what, m, e.hex() if isinstance(e, bytes) else e, c)
            ctx.count("hp-" + what, 1, (what, m))
            continue
        bad = []
        if what == "rd":
            f = h.split()
            if len(f) < 12 or f[0] != "hdr":
                bad.append("jpeg_read_header failed: " + h[:60])
            else:
                kv = dict(x.split("=", 1) for x in f if "=" in x)
                if (int(f[1]), int(f[2])) != (e["W"], e["H"]):
                    bad.append("dimensions %s x %s" % (f[1], f[2]))
                if int(f[3]) != e["prec"]:
                    bad.append("precision %s, compressed with %d" % (f[3], e["prec"]))
                if kv["flags"] != "%d%d%d" % (e["prog"], e["lossless"], e["arith"]):
                    bad.append("progressive/lossless/arithmetic flags %s, expected %d%d%d" % (kv["flags"], e["prog"], e["lossless"], e["arith"]))
                unit, xd, yd = [int(x) for x in kv["dens"].split(".")]
                if (unit, xd, yd) != tuple(e["dens"]):
                    bad.append("density (unit,x,y) = %s, expected %s" % ((unit, xd, yd), tuple(e["dens"])))
                if "ri" in e and int(kv["ri"]) != e["ri"]:
                    bad.append("restart interval %s, expected %d" % (kv["ri"], e["ri"]))
                sc = kv["scan"].split(";")
                if e["lossless"] and (int(sc[1]), int(sc[4])) != (e["psv"], e["pt"]):
                    bad.append("lossless PSV/Pt = %s/%s, expected %d/%d" % (sc[1], sc[4], e["psv"], e["pt"]))
                if "comps" in e:
                    want = ",".join("%d.%d.%d.%d" % tuple(k[:4]) for k in e["comps"])
                    if kv["comps"] != want:
                        bad.append("components %s, expected %s" % (kv["comps"], want))
                    used_dc = e["lossless"] or True
                    wsc = ",".join("%d.%d.%d" % (i, k[4], 0 if (e["lossless"] or e["prog"]) else k[5]) for i, k in enumerate(e["comps"]))
                    if sc[0] != wsc:
                        bad.append("scan component table selectors %s, compressor used %s" % (sc[0], wsc))
                    if c["jfif"] != "-" and e["wj"] and kv["ver"] != "%d.%d" % (e["jfif"][0], e["jfif"][1]):
                        bad.append("JFIF version %s" % kv["ver"])
                    if int(kv["jfif"]) != int(e["wj"]) or int(kv["adobe"]) != int(e["wa"]):
                        bad.append("saw_JFIF/saw_Adobe = %s/%s, written %d/%d" % (kv["jfif"], kv["adobe"], e["wj"], e["wa"]))
                    if (c["wj"] == "d" and c["wa"] == "d" or e["lossless"]) and int(kv["cs"]) != e["jcs_written"] and \
                            not (e["jcs_written"] == 0 and len(e["comps"]) in (1, 3, 4)):
                        bad.append("jpeg_color_space %s after jpeg_read_header, the compressor used %d (in_color_space %s, %s)" % (
                            kv["cs"], e["jcs_written"], c["cs"], "lossless" if e["lossless"] else "lossy"))
                if "jcs" in e and int(kv["cs"]) != e["jcs"]:
                    bad.append("jpeg_color_space %s, expected %d" % (kv["cs"], e["jcs"]))
            sig = "header-rd"
            if bad and any("table selectors" in b for b in bad) and e["lossless"]:
                sig = "lossless-sos-td0:" + c.get("cs", "tj")
            if bad and any("jpeg_color_space" in b for b in bad):
                sig = "colorspace-inference:%s:%s" % (c.get("cs", "tj"), "lossless" if e["lossless"] else "lossy")
            for b in bad[:1]:
                ctx.violation("jpeg_read_header does not return what was used to compress: " + "; ".join(bad), {"case": c, "impl": h[:400]}, signature=sig)
            R.corr("header-read", "rd", m, h, c, bool(bad))
            ctx.count("hp-%s-rd" % c["api"], 1, ("hp", h.split(" |")[0][:200]))
        else:
            f = h.split()
            if len(f) < 10 or f[0] != "tj":
                bad.append("tj3DecompressHeader failed: " + h[:60])
            else:
                kv = dict(x.split("=", 1) for x in f if "=" in x)
                if (int(f[1]), int(f[2]), int(f[3])) != (e["W"], e["H"], e["prec"]):
                    bad.append("width/height/precision %s %s %s" % (f[1], f[2], f[3]))
                if kv["flags"] != "%d%d%d" % (e["prog"], e["lossless"], e["arith"]):
                    bad.append("progressive/lossless/arithmetic %s" % kv["flags"])
                if e["lossless"] and (int(kv["psv"]), int(kv["pt"])) != (e["psv"], e["pt"]):
                    bad.append("PSV/Pt %s/%s expected %d/%d" % (kv["psv"], kv["pt"], e["psv"], e["pt"]))
                if tuple(int(x) for x in kv["dens"].split(".")) != tuple(e["dens"]):
                    bad.append("density %s expected %s" % (kv["dens"], tuple(e["dens"])))
                if "jcs" in e and int(kv["cs"]) != JCS_TO_TJCS[e["jcs"]]:
                    bad.append("colorspace %s expected %d" % (kv["cs"], JCS_TO_TJCS[e["jcs"]]))
                if e.get("sub") is not None and int(kv["sub"]) != e["sub"]:
                    bad.append("subsampling %s expected %d" % (kv["sub"], e["sub"]))
            if c["api"] == "tj" and bad:
                ctx.violation("tj3DecompressHeader/tj3Get do not return what was used to compress: " + "; ".join(bad), {"case": c, "impl": h[:300]}, signature="header-tjrd")
            if c["api"] == "tj":
                ctx.count("hp-tj-tjrd", 1, ("tjrd", h[:200]))


def run_subsamp(ctx, R, cases, meta, hres):
    """getSubsamp: the level reported by tj3DecompressHeader against the model's get_subsamp on the
    colourspace and sampling factors that jpeg_read_header reports for the same stream"""
    rd = {}
    pairs = []
    for (ci, what, e, segs), h in zip(meta, hres):
        if what == "rd" and h.startswith("hdr"):
            rd[ci] = h
        elif what == "tjrd" and ci in rd and h.startswith("tj "):
            kv = dict(x.split("=", 1) for x in rd[ci].split(" |")[0].split() if "=" in x)
            tkv = dict(x.split("=", 1) for x in h.split(" |")[0].split() if "=" in x)
            comps = ",".join(".".join(k.split(".")[1:3]) for k in kv["comps"].split(","))
            pairs.append((ci, "subsamp %s %s" % (kv["cs"], comps), tkv["sub"]))
    mres = R.model([p[1] for p in pairs])
    for (ci, line, sub), m in zip(pairs, mres):
        R.corr("subsamp", line, m, sub, cases[ci])
        ctx.count("hp-subsamp", 1, ("subsamp", line, sub))


# --------------------------------------------------------------------------- copying
def xf_cases(ctx):
    rng = ctx.rng
    cases = []
    for i in range(ctx.n(30, 300)):
        ms = []
        cs = rng.choice(["gray", "ycc", "rgb", "cmyk", "ycck"])
        for _ in range(rng.range(2, 7)):
            code = rng.choice([254, 254, 224, 225, 226, 226, 227, 237, 238, 239, rng.range(224, 239)])
            style = "rand"
            if code == 224:
                style = rng.choice(["jfif", "jfxx", "jfif-short", "rand"])
            if code == 238:      # a transform code that the decompressor accepts without a warning for this component count
                style = rng.choice([rng.choice({1: ["adobe0", "adobe1", "adobe2"], 3: ["adobe0", "adobe1"], 4: ["adobe0", "adobe2"]}[len(CSCOMPS[CSNUM[cs]])]),
                                    "adobe-short", "rand"])
            ms.append([code, rng.choice([0, 1, 4, 5, 6, 14, rng.range(0, 400), rng.range(0, 400)]), rng.next(), style])
        icclen = rng.choice([0, 0, rng.range(1, 3000), rng.range(1, 3000), CHUNK + rng.range(1, 50)])
        cases.append({"kind": "xf", "cs": cs, "markers": ms, "icclen": icclen,
                      "iccseed": rng.next(), "iccpos": rng.choice([0, -1, 1, 2]), "op": rng.choice([0, 0, 1, 3, 6]),
                      "dsticc": rng.choice([0, 0, 0, rng.range(1, 500)]), "dstseed": rng.next()})
    return cases


def policy(opt, code):
    return {0: False, 1: code == 254, 2: True, 3: code != 226, 4: code == 226}[opt]


def run_xf(ctx, R, cases):
    srcl = []
    for c in cases:
        ds = [(m[0], marker_data(m)) for m in c["markers"]]
        icc = content(c["iccseed"], c["icclen"])
        pos = c["iccpos"] if c["iccpos"] <= len(ds) else -1
        srcl.append("jc 16 16 %s 1x1,1x1,1x1,1x1 8 b 1 0 0 - d d %d %s %s" % (c["cs"], pos, hx(icc), ",".join("%d:%s" % (code, d.hex()) for code, d in ds)))
    srcs = R.harness(srcl, lambda i: cases[i])
    # the colourspace the decompressor attributes to the source decides which of JFIF / Adobe the output gets
    rdl = ["rd %s %s" % (ALLSAVE, o[3:]) if o.startswith("ok ") else "-" for o in srcs]
    srd = R.harness(rdl, lambda i: cases[i])
    smd = R.model(rdl)
    src_jcs = []
    for c, h, m in zip(cases, srd, smd):
        kv = dict(x.split("=", 1) for x in h.split() if "=" in x)
        src_jcs.append(int(kv.get("cs", "0").split()[0]) if h.startswith("hdr") else 0)
        if h.startswith("hdr"):
            R.corr("copy-read", "rd of source", m, h, c)
    hl, meta = [], []
    for ci, (c, o) in enumerate(zip(cases, srcs)):
        if not o.startswith("ok "):
            continue
        dst = content(c["dstseed"], c["dsticc"])
        for opt in range(5):
            for api, cn in (("tj", 0), ("jpeg", 0), ("tj", 1)):
                dicc = dst if api == "tj" else b""
                hl.append("xf %s %d %d %d %s %s" % (api, opt, cn, c["op"] if api == "tj" else 0, hx(dicc), o[3:]))
                meta.append((ci, api, opt, cn, dicc))
    outs = R.harness(hl, lambda i: cases[meta[i][0]])
    hl2, ml2, meta2 = [], [], []
    for (ci, api, opt, cn, dicc), o in zip(meta, outs):
        c = cases[ci]
        src = bytes.fromhex(srcs[ci][3:])
        if not o.startswith("ok "):
            ctx.violation("transform failed: " + o[:60], {"case": c, "api": api, "opt": opt}, signature="xf-failed:%s" % api)
            continue
        out = bytes.fromhex(o[3:])
        osegs, _ = parse(out)
        ssegs, _ = parse(src)
        if osegs is None:
            ctx.violation("transformed stream unparsable", {"case": c, "api": api, "opt": opt}, signature="xf-unparsable")
            continue
        jcs = src_jcs[ci]
        wj, wa = jcs in (1, 3), jcs in (2, 4, 5)
        eopt = 0 if cn else opt
        shead = [s for s in ssegs[:next(i for i, s in enumerate(ssegs) if not is_appcom(s[0]))]]
        ohead = [s for s in osegs[:next(i for i, s in enumerate(osegs) if not is_appcom(s[0]))]]
        # independent expectation: the library's own JFIF/Adobe marker, then the policy sub-list
        exp = []
        for code, d in shead:
            if not policy(eopt, code):
                continue
            if wj and code == 0xE0 and len(d) >= 5 and d[:5] == b"JFIF\0":
                continue
            if wa and code == 0xEE and len(d) >= 5 and d[:5] == b"Adobe":
                continue
            exp.append((code, d))
        nlib = 1
        got = ohead[nlib:]
        tail_icc = []
        if dicc:
            n = (len(dicc) + CHUNK - 1) // CHUNK
            tail_icc = [(0xE2, SIG + bytes([k + 1, n]) + dicc[k * CHUNK:(k + 1) * CHUNK]) for k in range(n)]
        failed = False
        # the copied markers are the specified sub-list; what follows is the instance profile or nothing
        if got[:len(exp)] != exp or got[len(exp):] not in ([], tail_icc):
            failed = True
            ctx.violation("copy option %d (%s API%s): extra markers of the output are not the specified sub-list of the source's: got %s expected %s" % (
                opt, api, ", TJXOPT_COPYNONE" if cn else "", [(a, len(b)) for a, b in got][:12], [(a, len(b)) for a, b in exp + tail_icc][:12]),
                {"case": c, "api": api, "opt": opt, "copynone": cn}, signature="copy-policy:%d:%s" % (opt, api))
        # the model: setup+read+execute(+instance profile) on the source stream
        sopt = 0 if cn else opt
        gotline = "x" + "".join(" m %d %d %s ;" % (a, len(b), fnv(b)) for a, b in got)
        if api == "tj":
            hl2.append("-"); ml2.append("tjx %d %d %d %d %s %s" % (opt, cn, int(wj), int(wa), hx(dicc), hx(rebuild(ssegs, b""))))
        else:
            hl2.append("-"); ml2.append("copy %d %d %d %d %s" % (sopt, eopt, int(wj), int(wa), hx(rebuild(ssegs, b""))))
        meta2.append((ci, "copy", gotline, failed, opt, api))
        # ICC profile of the output as seen by the readers: the source's when the option copies APP2 and the
        # source has one, else the instance's if set, else what the copied markers give
        src_icc = py_read_icc([s for s in exp])
        if src_icc[0] == "ok" or not dicc:
            want = src_icc
        elif src_icc[0] == "absent":
            want = ("ok", dicc)      # nothing copied that looks like an ICC marker: the instance profile is written
        else:
            want = None
        line = "rd %s %s" % (ALLSAVE, hx(rebuild(osegs, b"")))
        hl2.append(line); ml2.append(line)
        meta2.append((ci, "rd", want, failed, opt, api if not (dicc and eopt in (2, 4) and src_icc[0] == "ok") else "tj-double"))
        ctx.count("xf-%s-opt%d%s%s" % (api, opt, "-copynone" if cn else "", "-instanceicc" if dicc else ""), 1,
                  ("xf", api, opt, cn, tuple((a, len(b)) for a, b in got)))
    hres = R.harness(hl2, lambda i: cases[meta2[i][0]])
    mres = R.model(ml2)
    for (ci, what, exp, failed, opt, api), h, m in zip(meta2, hres, mres):
        c = cases[ci]
        if what == "copy":
            R.corr("copy", "option %d %s" % (opt, api), m, exp, c, failed)
        else:
            got = h.rsplit("| ", 1)[-1]
            if exp is not None and got != icc_str(exp):
                failed = True
                if api == "tj-double":
                    ctx.violation("tj3Transform with TJPARAM_SAVEMARKERS=%d and a profile set by tj3SetICCProfile: the output carries the source's and "
                                  "the instance's ICC segments; reading it back gives '%s' instead of the source profile" % (opt, got[:40]),
                                  {"case": c, "opt": opt}, signature="transform-double-icc:savemarkers%d" % opt)
                else:
                    ctx.violation("ICC profile of the transformed image: got '%s' expected '%s'" % (got[:60], icc_str(exp)), {"case": c, "opt": opt, "api": api},
                                  signature="xf-icc:%d:%s" % (opt, api))
            R.corr("copy-read", "rd", m, h, c, failed)


# ----------------------------------------------------------- copying: histories on one handle
DEMO_HISTORIES = [[("t", 2, 0), ("t", 1, 0), ("t", 3, 0), ("t", 4, 0), ("t", 2, 1)], [("h", 2), ("t", 3, 0)], [("h", 4), ("t", 1, 0)],
                  [("t", 4, 0), ("t", 1, 0)], [("t", 3, 0), ("t", 4, 0)], [("t", 2, 0), ("t", 0, 0), ("t", 4, 0)]]


def xh_cases(ctx):
    """sequences of (copy option, TJXOPT_COPYNONE, header reads) on ONE tj handle / ONE jpeg_decompress_struct"""
    rng = ctx.rng
    cases = []
    hists = [list(h) for h in DEMO_HISTORIES]
    for i in range(ctx.n(24, 300)):
        st = [rng.choice([("t", 2, 0), ("t", 2, 0), ("t", 3, 0), ("t", 4, 0), ("h", 2), ("h", 4), ("t", 1, 0)])]   # wider first
        for _ in range(rng.range(1, 4)):
            st.append(rng.choice([("t", rng.range(0, 4), 0), ("t", rng.range(0, 4), 0), ("t", rng.range(0, 4), 1), ("h", rng.choice([0, 1, 2, 3, 4]))]))
        if all(x[0] == "h" for x in st):
            st.append(("t", rng.range(1, 4), 0))
        hists.append(st)
    for hi, st in enumerate(hists):
        cs = rng.choice(["gray", "ycc", "rgb", "cmyk", "ycck"])
        ms = [[254, rng.range(1, 60), rng.next(), "rand"], [225, rng.range(0, 80), rng.next(), "rand"], [229, rng.range(0, 40), rng.next(), "rand"]]
        for _ in range(rng.range(0, 3)):
            code = rng.choice([254, 224, 226, 227, 237, 238, 239])
            style = "rand"
            if code == 224:
                style = rng.choice(["jfif", "jfxx", "rand"])
            if code == 238:
                style = rng.choice([{1: "adobe0", 3: "adobe0", 4: "adobe0"}[len(CSCOMPS[CSNUM[cs]])], "adobe-short", "rand"])
            ms.append([code, rng.choice([0, 5, 14, rng.range(0, 300)]), rng.next(), style])
        ms = rng.shuffle(ms)
        cases.append({"kind": "xh", "api": "tj" if hi % 2 == 0 or any(x[0] == "t" and x[2] for x in st) else "jpeg", "cs": cs, "markers": ms,
                      "icclen": rng.choice([rng.range(1, 2000), rng.range(1, 2000), CHUNK + rng.range(1, 40)]), "iccseed": rng.next(),
                      "iccpos": rng.choice([0, -1, 1, 2]), "steps": [list(x) for x in st]})
    return cases


def run_xh(ctx, R, cases):
    srcl = []
    for c in cases:
        ds = [(m[0], marker_data(m)) for m in c["markers"]]
        icc = content(c["iccseed"], c["icclen"])
        pos = c["iccpos"] if c["iccpos"] <= len(ds) else -1
        srcl.append("jc 16 16 %s 1x1,1x1,1x1,1x1 8 b 1 0 0 - d d %d %s %s" % (c["cs"], pos, hx(icc), ",".join("%d:%s" % (code, d.hex()) for code, d in ds)))
    srcs = R.harness(srcl, lambda i: cases[i])
    rdl = ["rd %s %s" % (ALLSAVE, o[3:]) if o.startswith("ok ") else "-" for o in srcs]
    srd = R.harness(rdl, lambda i: cases[i])
    hl = []
    for c, o in zip(cases, srcs):
        steps = ",".join("t%d.%d" % (x[1], x[2]) if x[0] == "t" else "h%d" % x[1] for x in c["steps"])
        hl.append("xfh %s %s %s" % (c["api"], steps, o[3:]) if o.startswith("ok ") else "-")
    outs = R.harness(hl, lambda i: cases[i])
    ml, meta = [], []
    for ci, (c, o, h) in enumerate(zip(cases, outs, srd)):
        if not o.startswith("ok") or not h.startswith("hdr"):
            if srcs[ci].startswith("ok "):
                ctx.violation("transform history failed: " + o[:60], {"case": c}, signature="xh-failed:%s" % c["api"])
            continue
        kv = dict(x.split("=", 1) for x in h.split() if "=" in x)
        jcs = int(kv["cs"])
        wj, wa = jcs in (1, 3), jcs in (2, 4, 5)
        src = bytes.fromhex(srcs[ci][3:])
        ssegs, _ = parse(src)
        shead = [s for s in ssegs[:next(i for i, s in enumerate(ssegs) if not is_appcom(s[0]))]]
        res = o.split()[1:]
        ti = 0
        hist = []
        for x in c["steps"]:
            if x[0] == "h":
                hist.append("h%d" % (x[1] if c["api"] == "tj" else 2))
                continue
            eopt = 0 if x[2] else x[1]
            r = res[ti] if ti < len(res) else "-"
            ti += 1
            if r == "-" or r == "err":
                ctx.violation("transform step %s of history failed" % (x,), {"case": c}, signature="xh-failed:%s" % c["api"])
                break
            osegs, _ = parse(bytes.fromhex(r))
            if osegs is None:
                ctx.violation("transformed stream unparsable", {"case": c}, signature="xh-unparsable")
                break
            ohead = [s for s in osegs[:next(i for i, s in enumerate(osegs) if not is_appcom(s[0]))]]
            exp = []
            for code, d in shead:
                if not policy(eopt, code):
                    continue
                if wj and code == 0xE0 and len(d) >= 5 and d[:5] == b"JFIF\0":
                    continue
                if wa and code == 0xEE and len(d) >= 5 and d[:5] == b"Adobe":
                    continue
                exp.append((code, d))
            got = ohead[1:]
            failed = got != exp
            hdesc = ",".join(hist) or "-"
            if failed:
                ctx.violation("copy option %d%s after history [%s] on the same %s: extra markers of the output are not the sub-list the CURRENT option "
                              "specifies: got %s expected %s" % (x[1], " +TJXOPT_COPYNONE" if x[2] else "", hdesc,
                                                                 "tj handle" if c["api"] == "tj" else "jpeg_decompress_struct",
                                                                 [(a, len(b)) for a, b in got][:12], [(a, len(b)) for a, b in exp][:12]),
                              {"case": c, "step": x, "history": hdesc}, signature="copy-history:%d:%s" % (eopt, c["api"]))
            ml.append("copyh %s %d %d %d %d %s" % (hdesc, eopt, eopt, int(wj), int(wa), hx(rebuild(ssegs, b""))))
            meta.append((ci, "x" + "".join(" m %d %d %s ;" % (a, len(b), fnv(b)) for a, b in got), failed, hdesc, eopt))
            ctx.count("xh-%s-opt%d-after-%s" % (c["api"], eopt, "wider" if hist else "nothing"), 1, ("xh", c["api"], hdesc, eopt, tuple((a, len(b)) for a, b in got)))
            hist.append("s%d" % eopt)
    mres = R.model(ml)
    for (ci, got, failed, hdesc, eopt), m in zip(meta, mres):
        R.corr("copy-history", "option %d after [%s]" % (eopt, hdesc), m, got, cases[ci], failed)


# ------------------------------------- all marker sequences: header and between scans (tables redefined)
NATORDER = [0, 1, 8, 16, 9, 2, 3, 10, 17, 24, 32, 25, 18, 11, 4, 5, 12, 19, 26, 33, 40, 48, 41, 34, 27, 20, 13, 6, 7, 14, 21, 28,
            35, 42, 49, 56, 57, 50, 43, 36, 29, 22, 15, 23, 30, 37, 44, 51, 58, 59, 52, 45, 38, 31, 39, 46, 53, 60, 61, 54, 47, 55, 62, 63]


def split_file(jpg):
    """[('seg', code, data) | ('ecs', bytes)] for the whole file, or None"""
    out, i, n = [], 2, len(jpg)
    if jpg[:2] != b"\xff\xd8":
        return None
    while i < n:
        if jpg[i] != 0xFF or i + 1 >= n:
            return None
        code = jpg[i + 1]
        if code == 0xD9:
            out.append(("seg", code, b""))
            return out
        if i + 4 > n:
            return None
        l = int.from_bytes(jpg[i + 2:i + 4], "big")
        out.append(("seg", code, jpg[i + 4:i + 2 + l]))
        i += 2 + l
        if code == 0xDA:
            j = i
            while j + 1 < n and not (jpg[j] == 0xFF and jpg[j + 1] != 0 and not (0xD0 <= jpg[j + 1] <= 0xD7) and jpg[j + 1] != 0xFF):
                j += 1
            out.append(("ecs", jpg[i:j]))
            i = j
    return None


def join_file(units):
    b = b"\xff\xd8"
    for u in units:
        if u[0] == "ecs":
            b += u[1]
        elif u[1] == 0xD9:
            b += b"\xff\xd9"
        else:
            b += seg_bytes(u[1], u[2])
    return b


def expected_views(units, cfg_all=True):
    """independent 'last definition wins' reading of the marker sequence: one dict per SOS"""
    ri, qt, dc, ac, nm, views = 0, [None] * 4, [None] * 4, [None] * 4, 0, []
    L, U, K = [0] * 16, [1] * 16, [5] * 16
    for u in units:
        if u[0] != "seg":
            continue
        code, d = u[1], u[2]
        if is_appcom(code):
            nm += 1
        elif code == 0xDD:
            ri = int.from_bytes(d[:2], "big")
        elif code == 0xDB:
            k = 0
            while k < len(d):
                prec, n = d[k] >> 4, d[k] & 15
                w = 2 if prec else 1
                zz = [int.from_bytes(d[k + 1 + w * i:k + 1 + w * (i + 1)], "big") for i in range(64)]
                nat = [0] * 64
                for i in range(64):
                    nat[NATORDER[i]] = zz[i]
                qt[n] = fnv(b"".join(v.to_bytes(2, "big") for v in nat))
                k += 1 + 64 * w
        elif code == 0xC4:
            k = 0
            while k < len(d):
                idx = d[k]; bits = d[k + 1:k + 17]; cnt = sum(bits)
                f = fnv(bits + d[k + 17:k + 17 + cnt])
                if idx & 0x10:
                    ac[idx - 16] = f
                else:
                    dc[idx] = f
                k += 17 + cnt
        elif code == 0xCC:
            for k in range(0, len(d) - 1, 2):
                if d[k] < 16:
                    L[d[k]], U[d[k]] = d[k + 1] & 15, d[k + 1] >> 4
                else:
                    K[d[k] - 16] = d[k + 1]
        elif code == 0xDA:
            views.append("ri=%d qt=%s dc=%s ac=%s ar=%s nm=%d" % (ri, ",".join(x or "-" for x in qt), ",".join(x or "-" for x in dc), ",".join(x or "-" for x in ac),
                                                               fnv(bytes(L + U + K)), nm))
    return views


def ms_cases(ctx):
    rng = ctx.rng
    cases = []
    for i in range(ctx.n(36, 360)):
        cs = rng.choice(["gray", "ycc", "ycc", "rgb", "cmyk", "ycck"])
        mode = rng.choice(["b", "p", "p", "pR", "bR", "o", "a", "pa", "l", "lR", "l", "b"])
        nm = rng.range(0, 3)
        prec = rng.range(2, 16) if "l" in mode else rng.choice([8, 8, 12, 12])
        cases.append({"kind": "ms", "cs": cs, "mode": mode, "W": rng.range(8, 48), "H": rng.range(8, 48), "prec": prec, "psv": rng.range(1, 7),
                      "pt": rng.range(0, prec - 1),
                      "restart": rng.choice([0, 1, 2, 3, 7]), "markers": [[rng.choice([254, 225, 237]), rng.range(0, 40), rng.next(), "rand"] for _ in range(nm)],
                      "edits": rng.range(0, 6), "eseed": rng.next()})
    return cases


def ms_edit(rng, units):
    """insert well-formed extra markers (repeated / overriding) in the header and between scans"""
    units = list(units)
    sos = [i for i, u in enumerate(units) if u[0] == "seg" and u[1] == 0xDA]
    dhts = [u for u in units if u[0] == "seg" and u[1] == 0xC4]
    kind = rng.choice(["dqt8", "dqt16", "dqt2", "dri", "dri", "com", "jfif", "dht-dup", "dht-unused", "adobe", "dqt-after", "dnl", "dac", "dac", "sof-dup", "rst"])
    # position: before some SOS (index 0 = in the header, others = between scans)
    si = rng.choice(sos)
    # never between an SOS header and its entropy-coded data
    cand = [i for i in range(1, si + 1) if not (units[i - 1][0] == "seg" and units[i - 1][1] == 0xDA)]
    pos = si if rng.chance(2, 3) or not cand else rng.choice(cand)
    if kind in ("dqt8", "dqt16", "dqt2", "dqt-after"):
        def tbl(n, p16):
            vals = [rng.range(1, 65535 if p16 else 255) for _ in range(64)]
            return bytes([(16 if p16 else 0) + n]) + b"".join(v.to_bytes(2 if p16 else 1, "big") for v in vals)
        n = rng.range(0, 3)
        if kind == "dqt2":
            seg = tbl(n, False) + tbl(rng.range(0, 3), True) + tbl(n, False)       # the same slot twice in one marker
        else:
            seg = tbl(n, kind == "dqt16")
        if pos <= next(i for i, u in enumerate(units) if u[0] == "seg" and 0xC0 <= u[1] <= 0xCF and u[1] not in (0xC4, 0xC8, 0xCC)) and kind == "dqt16":
            pass
        units.insert(pos, ("seg", 0xDB, seg))
    elif kind == "dri":
        units.insert(pos, ("seg", 0xDD, rng.choice([0, 1, 5, 255, 256, 65535]).to_bytes(2, "big")))
    elif kind == "com":
        units.insert(pos, ("seg", rng.choice([0xFE, 0xE1, 0xED]), rng.bytes(rng.range(0, 30))))
    elif kind == "jfif":
        units.insert(pos, ("seg", 0xE0, b"JFIF\0\x01" + bytes([rng.range(0, 2), rng.range(0, 2)]) + rng.range(1, 65535).to_bytes(2, "big") + rng.range(1, 65535).to_bytes(2, "big") + b"\0\0"))
    elif kind == "adobe":
        units.insert(pos, ("seg", 0xEE, b"Adobe\0\x64\0\0\0\0" + bytes([units and 1 or 0])))
    elif kind == "dnl":
        units.insert(pos, ("seg", 0xDC, rng.choice([b"", (rng.range(1, 65535)).to_bytes(2, "big"), rng.bytes(rng.range(1, 9))])))
    elif kind == "dac":
        prs = b""
        for _ in range(rng.range(1, 5)):
            idx = rng.range(0, 31)
            if idx < 16:
                u = rng.range(0, 15); val = (u << 4) | rng.range(0, u)
            else:
                val = rng.range(0, 255)
            prs += bytes([idx, val])
        units.insert(pos, ("seg", 0xCC, prs))
    elif kind == "sof-dup":
        sof = next(u for u in units if u[0] == "seg" and 0xC0 <= u[1] <= 0xCF and u[1] not in (0xC4, 0xC8, 0xCC))
        si2 = units.index(sof)
        if pos > si2:
            units.insert(pos, sof)                     # a second SOFn: JERR_SOF_DUPLICATE, also after the first SOS
    elif kind == "rst":
        pass
    elif kind == "dht-dup" and dhts:
        units.insert(pos, rng.choice(dhts))
    elif kind == "dht-unused" and dhts:
        d = bytearray(rng.choice(dhts)[2])
        d[0] = (d[0] & 0x10) | rng.choice([2, 3])                                 # same (valid) table into an unused slot
        cnt = sum(d[1:17])
        units.insert(pos, ("seg", 0xC4, bytes(d[:17 + cnt])))
    return units


def run_ms(ctx, R, cases):
    lines = []
    for c in cases:
        ds = [(m[0], marker_data(m)) for m in c["markers"]]
        samp = {1: "1x1", 3: "2x2,1x1,1x1", 4: "1x1,1x1,1x1,1x1"}[len(CSCOMPS[CSNUM[c["cs"]]])]
        restart = c["restart"] if "l" not in c["mode"] or "R" in c["mode"] else c["restart"] * c["W"]
        lines.append("jc %d %d %s %s %d %s %d %d %d - d d 0 - %s" % (c["W"], c["H"], c["cs"], samp, c["prec"], c["mode"], c.get("psv", 1), c.get("pt", 0), restart,
                                                               ",".join("%d:%s" % (code, d.hex()) for code, d in ds) or "-"))
    outs = R.harness(lines, lambda i: cases[i])
    hl, meta = [], []
    for ci, (c, o) in enumerate(zip(cases, outs)):
        if not o.startswith("ok "):
            ctx.count("ms-rejected", 1, None)
            continue
        units = split_file(bytes.fromhex(o[3:]))
        if units is None:
            ctx.violation("emitted file is not a well-formed marker / scan sequence", {"case": c}, signature="ms-unparsable")
            continue
        rng = SplitMix64(c["eseed"])
        for _ in range(c["edits"]):
            units = ms_edit(rng, units)
        # an Adobe marker inserted by the edit must not make the colourspace guess fail: harmless for this stream
        hl.append("rdall %s %s" % (ALLSAVE, join_file(units).hex())); meta.append((ci, units))
    hres = R.harness(hl, lambda i: cases[meta[i][0]])
    mres = R.model(hl)
    # next_marker: garbage bytes, FF fill bytes and stuffed FF 00 pairs in front of header markers.  The header must read as
    # without them, and next_marker must report (JWRN_EXTRANEOUS_DATA) exactly the discarded bytes and the marker it found.
    jl, jm, jmeta = [], [], []
    for ci, units in meta:
        c = cases[ci]
        rng = SplitMix64(c["eseed"] ^ 0x6a756e6b)
        nsos = next(i for i, u in enumerate(units) if u[0] == "seg" and u[1] == 0xDA)
        hsegs = [u for u in units[:nsos + 1]]
        clean = b"\xff\xd8" + b"".join(seg_bytes(u[1], u[2]) for u in hsegs)
        junky, exp = b"\xff\xd8", []
        for u in hsegs:
            d = 0
            if rng.chance(1, 2):
                for _ in range(rng.range(1, 5)):
                    t = rng.below(4)
                    if t == 0:
                        junky += bytes([rng.range(1, 254)]); d += 1
                    elif t == 1:
                        junky += b"\xff\x00"; d += 2
                    elif t == 2:
                        junky += b"\xff" * rng.range(2, 4) + b"\x00"; d += 2
                    else:
                        junky += b"\x00"; d += 1
            if rng.chance(1, 3):
                junky += b"\xff" * rng.range(1, 5)          # fill bytes: legal, not counted
            if d:
                exp.append("%d:%d" % (d, u[1]))
            junky += seg_bytes(u[1], u[2])
        jl.append("rdx %s %s" % (ALLSAVE, clean.hex())); jm.append("-"); jmeta.append((ci, "clean", None))
        jl.append("rdx %s %s" % (ALLSAVE, junky.hex())); jm.append("nmscan " + junky.hex()); jmeta.append((ci, "junk", exp))
    jres = R.harness(jl, lambda i: cases[jmeta[i][0]])
    jmod = R.model(jm)
    last_clean = None
    for (ci, what, exp), h, m in zip(jmeta, jres, jmod):
        if what == "clean":
            last_clean = h.split(" || x")[0]
            continue
        if not (last_clean or "").startswith("hdr"):
            continue                  # the edited marker sequence is refused anyway (second SOFn, ...): nothing to compare
        line, x = (h.split(" || x") + [""])[:2]
        got = x.split()
        if line != last_clean or got != exp:
            ctx.violation("header with garbage / fill bytes / stuffed zeros between markers: %s" % (
                "header differs from the clean stream's" if line != last_clean else "next_marker reported discarded:marker %s, expected %s" % (got, exp)),
                {"case": cases[ci], "expected": exp, "impl": h[-300:]}, signature="next-marker-scan")
        R.corr("next-marker", "discarded bytes and marker found", m, "x" + "".join(" " + g for g in got), cases[ci])
        ctx.count("ms-junk-%s" % ("some" if exp else "fill-only"), 1, ("junk", tuple(exp)))
    for (ci, units), h, m in zip(meta, hres, mres):
        c = cases[ci]
        failed = False
        if " || err" in h or not h.startswith("view"):
            msg = h.split(" || err", 1)[1] if " || err" in h else h
            if "SOF" in msg or "Unsupported_marker" in msg or "Invalid_SOS" in msg:
                # header-level error (second SOFn, reserved marker): the model must refuse the file as well
                R.corr("marker-sequence", "header-level error", m, "err", c)
                ctx.count("ms-header-error", 1, ("mserr", msg[:60]))
            else:
                # a redefined table may make the entropy decoder give up: not a header question
                ctx.count("ms-decode-error", 1, None)
            continue
        got = [v for v in h.split(" | ") if v.startswith("view ")]
        exp = expected_views(units)
        gv = [v.split(" ", 2)[2] for v in got]
        # jinit_huff_decoder installs the standard tables into undefined DC/AC slots 0 and 1 after the header: those slots
        # of the later views are not judged by this oracle (the model decides them)
        def masked(v, e):
            vf, ef = v.split(), e.split()
            for k in (2, 3):          # the dc= and ac= fields
                a, b = vf[k].split("=")[1].split(","), ef[k].split("=")[1].split(",")
                for j in (0, 1):
                    if b[j] == "-":
                        a[j] = "-"
                vf[k] = vf[k].split("=")[0] + "=" + ",".join(a)
            return " ".join(vf)
        gv = [gv[0]] + [masked(v, e) for v, e in zip(gv[1:], exp[1:])] + gv[max(1, len(exp)):] if gv and exp else gv
        if gv != exp:
            failed = True
            k = next((i for i in range(min(len(gv), len(exp))) if gv[i] != exp[i]), min(len(gv), len(exp)))
            ctx.violation("marker-reader state at SOS #%d is not what the marker sequence before it defines (last definition wins): got '%s' expected '%s'" % (
                k + 1, gv[k][:200] if k < len(gv) else "<missing>", exp[k][:200] if k < len(exp) else "<none>"), {"case": c, "scan": k + 1}, signature="marker-sequence-state")
        R.corr("marker-sequence", "views at every SOS", m, h, c, failed)
        nsos = len(got)
        ctx.count("ms-%s-%dscans" % ("edited" if c["edits"] else "plain", min(nsos, 10)), 1, ("ms", h[:300]))
    # jpeg_write_marker / jpeg_write_m_header / jpeg_write_icc_profile at every point of the compressor's life
    wl = ["wst %s %d %d" % (mode, what, ln) for mode in "sr" for what in (0, 1, 2) for ln in (0, 1, 65533, 65534)]
    wres = R.harness(wl, lambda i: {"kind": "wst", "line": wl[i]})
    ml, mm = [], []
    for line, h in zip(wl, wres):
        _, mode, what, ln = line.split()
        for it in h.split():
            name, gs, res = it.split(":")
            gs = int(gs[3:])
            ns = {"created": 0, "started": 0, "after1line": 1, "afterraw": 8, "finished": 16}[name]
            ml.append("wst %d %d %s %s" % (gs, ns, what, ln)); mm.append((line, name, res))
            allowed = ns == 0 and gs in (101, 102, 103)
            want = "BUFFER_SIZE" if (what == "2" and ln == "0") else ("BAD_STATE" if not allowed else ("BAD_LENGTH" if int(ln) > 65533 and what != "2" else "ok"))
            if res != want:
                ctx.violation("marker-writing API at '%s' (global_state %d, next_scanline %d): %s, expected %s" % (name, gs, ns, res, want),
                              {"case": {"kind": "wst"}, "line": line}, signature="marker-api-state:%s" % name)
            ctx.count("wst-%s" % name, 1, ("wst", line, name, res))
    for (line, name, res), m in zip(mm, R.model(ml)):
        R.corr("marker-api-state", "%s %s" % (line, name), m, res, {"kind": "wst", "line": line})


# ------------------------------------------------ copying: several transforms in ONE tj3Transform call
def xm_cases(ctx):
    rng = ctx.rng
    cases = []
    fixed = [(2, "01"), (2, "10"), (4, "01"), (2, "11"), (3, "01"), (1, "10"), (2, "010"), (4, "1001")]
    # every TJPARAM_SAVEMARKERS value x {single transform with / without COPYNONE, mixed call} x instance profile x source profile
    fixed += [(sm, fl) for sm in range(5) for fl in ("0", "1", "01")]
    for i in range(ctx.n(40, 300)):
        sm, flags = fixed[i] if i < len(fixed) else (rng.range(0, 4), "".join(rng.choice("01") for _ in range(rng.range(1, 4))))
        cs = rng.choice(["gray", "ycc", "rgb", "cmyk", "ycck"])
        ms = [[254, rng.range(1, 60), rng.next(), "rand"]] if rng.chance(3, 4) else []                       # COM
        if rng.chance(3, 4):
            ms.append([225, rng.range(6, 200), rng.next(), "exif"])                                         # EXIF APP1
        if rng.chance(1, 3):
            ms.append([226, rng.choice([3, 12, 13, 40]), rng.next(), rng.choice(["rand", "iccsig"])])
        if rng.chance(1, 4):
            ms.append([224, rng.choice([5, 14, 30]), rng.next(), rng.choice(["jfif", "jfxx"])])
        icclen = rng.choice([0, rng.range(1, 2000), rng.range(1, 2000), rng.range(1, 2000), CHUNK + rng.range(1, 40)])
        cases.append({"kind": "xm", "cs": cs, "markers": rng.shuffle(ms), "icclen": icclen,
                      "iccseed": rng.next(), "iccpos": rng.choice([0, -1, 1]), "sm": sm, "flags": flags,
                      # the source profile re-cut into many small APP2 chunks (k chunks, shuffled or not)
                      "rechunk": rng.choice([0, 0, rng.range(2, 60), rng.range(2, 255)]) if icclen else 0, "reshuffle": int(rng.chance(1, 2)),
                      "bufsize": int(rng.chance(1, 2)),
                      "dsticc": rng.choice([0, rng.range(1, 900), rng.range(1, 900), CHUNK + rng.range(0, 3)]), "dstseed": rng.next()})
    return cases


def run_xm(ctx, R, cases):
    srcl = []
    for c in cases:
        ds = [(m[0], marker_data(m)) for m in c["markers"]]
        icc = content(c["iccseed"], c["icclen"])
        pos = c["iccpos"] if c["iccpos"] <= len(ds) else -1
        srcl.append("jc 16 16 %s 1x1,1x1,1x1,1x1 8 b 1 0 0 - d d %d %s %s" % (c["cs"], pos, hx(icc), ",".join("%d:%s" % (code, d.hex()) for code, d in ds)))
    srcs = R.harness(srcl, lambda i: cases[i])
    for ci, (c, o) in enumerate(zip(cases, srcs)):
        if c.get("rechunk") and o.startswith("ok "):
            segs, tail = parse(bytes.fromhex(o[3:]))
            idx = [i for i, s_ in enumerate(segs) if is_icc(*s_)]
            prof = b"".join(segs[i][1][14:] for i in idx)
            k = min(c["rechunk"], len(prof))
            if idx and k >= 1:
                cuts = [len(prof) * j // k for j in range(k + 1)]
                new = [(0xE2, SIG + bytes([j + 1, k]) + prof[cuts[j]:cuts[j + 1]]) for j in range(k)]
                if c.get("reshuffle"):
                    new = SplitMix64(c["iccseed"]).shuffle(new)
                segs = segs[:idx[0]] + new + segs[idx[-1] + 1:]
                srcs[ci] = "ok " + rebuild(segs, tail).hex()
    srd = R.harness(["rd %s %s" % (ALLSAVE, o[3:]) if o.startswith("ok ") else "-" for o in srcs], lambda i: cases[i])
    hl = ["xfm %d %s %s %s %s" % (c["sm"], c["flags"], hx(content(c["dstseed"], c["dsticc"])), o[3:], "b" if c.get("bufsize") else "n") if o.startswith("ok ") else "-" for c, o in zip(cases, srcs)]
    outs = R.harness(hl, lambda i: cases[i])
    # Exact-size NOREALLOC buffers.  tj3TransformBufSize() promises room for the image plus ONE ICC profile (the source's when it is
    # copied, else the instance's) "when no other extra markers are written".  So success with buffers of exactly that size is
    # required only when (a) the MODEL's jpeg_read_icc_profile accepts the source's ICC marker set whenever APP2 markers are copied and
    # (b) every marker a transform writes besides that profile is accounted for, i.e. there is none.  Otherwise only "success, or the
    # clean 'too small' error" is required (no overrun: sanitizer build in the thorough tier); counted as xm_exact_size_not_required.
    icc_lines, icc_idx = [], {}
    for ci, (c, o) in enumerate(zip(cases, srcs)):
        if c.get("bufsize") and o.startswith("ok "):
            sg, _ = parse(bytes.fromhex(o[3:]))
            hd = [s_ for s_ in sg[:next(i for i, s_ in enumerate(sg) if not is_appcom(s_[0]))]]
            icc_idx[ci] = len(icc_lines)
            icc_lines.append("iccms " + (",".join("%d:%s" % (code, d.hex()) for code, d in hd) or "-"))
    icc_model = R.model(icc_lines)

    def exact_size_required(ci, c):
        m = icc_model[icc_idx[ci]] if ci in icc_idx else None
        sg, _ = parse(bytes.fromhex(srcs[ci][3:]))
        hd = [s_ for s_ in sg[:next(i for i, s_ in enumerate(sg) if not is_appcom(s_[0]))]]
        for fl in c["flags"]:
            eopt = 0 if fl == "1" else c["sm"]
            copied = [(code, d) for code, d in hd[1:] if policy(eopt, code)]          # hd[0] is the library's own JFIF / Adobe marker
            if any(code != 0xE2 or not is_icc(code, d) for code, d in copied):
                return False          # other extra markers are written: outside the size promise
            if copied and not (m or "").startswith("icc ok"):
                return False          # the copied APP2 markers are not a profile jpeg_read_icc_profile accepts (model)
        return True
    ml, meta, hl2, meta2, bl, bmeta, yl, ymeta = [], [], [], [], [], [], [], []
    for ci, (c, o, h) in enumerate(zip(cases, outs, srd)):
        if not srcs[ci].startswith("ok ") or not h.startswith("hdr"):
            continue
        if c.get("bufsize"):
            req = exact_size_required(ci, c)
            ctx.count("xm_exact_size_required" if req else "xm_exact_size_not_required", 1, ("xmsz", req, c["sm"], c["flags"]))
            ctx.cov["xm_exact_size_not_required"] = ctx.cov.get("xm_exact_size_not_required", 0) + (0 if req else 1)
            if not o.startswith("ok ") and not req and "too_small" in o:
                continue              # the clean error, outside the size promise
        if not o.startswith("ok "):
            ctx.violation("tj3Transform with %d transforms failed%s: %s" % (len(c["flags"]), " (buffers of tj3TransformBufSize() bytes, TJPARAM_NOREALLOC; one ICC profile and no other extra marker)" if c.get("bufsize") else "", o[:160]),
                          {"case": c}, signature="xm-failed" + ("-bufsize" if "noreal" in o else ""))
            continue
        kv = dict(x.split("=", 1) for x in h.split() if "=" in x)
        jcs = int(kv["cs"]); wj, wa = jcs in (1, 3), jcs in (2, 4, 5)
        ssegs, _ = parse(bytes.fromhex(srcs[ci][3:]))
        shead = [s for s in ssegs[:next(i for i, s in enumerate(ssegs) if not is_appcom(s[0]))]]
        dicc = content(c["dstseed"], c["dsticc"])
        tail_icc = []
        if dicc:
            n = (len(dicc) + CHUNK - 1) // CHUNK
            tail_icc = [(0xE2, SIG + bytes([k + 1, n]) + dicc[k * CHUNK:(k + 1) * CHUNK]) for k in range(n)]
        res = [x for x in o.split()[1:] if not x.startswith("bs=")]
        bss = [x[3:].split(":") for x in o.split()[1:] if x.startswith("bs=")]
        if bss:
            # tj3TransformBufSize: the ICC term for each transform, against the model; the transform has succeeded with
            # buffers of exactly that size (TJPARAM_NOREALLOC)
            src_icc = py_read_icc(shead)
            tsz = len(src_icc[1]) if src_icc[0] == "ok" and c["sm"] in (2, 4) else 0
            tmk = sum(1 for code, d in shead if is_icc(code, d)) if tsz else 0
            for ti, fl in enumerate(c["flags"]):
                bl.append("bufsz %d %s %d %d %d" % (c["sm"], fl, tsz, tmk, len(dicc)))
                bmeta.append((ci, ti, int(bss[ti][0]) - int(bss[ti][1])))
        gots = []
        for ti, fl in enumerate(c["flags"]):
            eopt = 0 if fl == "1" else c["sm"]
            osegs, _ = parse(bytes.fromhex(res[ti])) if ti < len(res) and res[ti] != "-" else (None, None)
            if osegs is None:
                ctx.violation("output %d of a %d-transform call unparsable" % (ti, len(c["flags"])), {"case": c}, signature="xm-unparsable")
                gots.append([]); continue
            ohead = [s for s in osegs[:next(i for i, s in enumerate(osegs) if not is_appcom(s[0]))]]
            got = ohead[1:]
            gots.append(got)
            exp = [(code, d) for code, d in shead if policy(eopt, code)
                   and not (wj and code == 0xE0 and d[:5] == b"JFIF\0" and len(d) >= 5) and not (wa and code == 0xEE and d[:5] == b"Adobe" and len(d) >= 5)]
            # the instance profile is written unless THIS transform copied an ICC-looking APP2 marker
            copied = eopt in (2, 4) and any(code == 0xE2 and len(d) >= 12 and d[:12] == SIG for code, d in shead)
            want = exp + ([] if copied else tail_icc)
            if got != want:
                ctx.violation("tj3Transform, transform %d of %d (TJPARAM_SAVEMARKERS=%d, TJXOPT_COPYNONE flags %s%s): extra markers %s, expected %s "
                              "(the policy sub-list for this transform's own option, then the instance profile unless this transform copied one)" % (
                                  ti, len(c["flags"]), c["sm"], c["flags"], ", instance profile set" if dicc else "",
                                  [(a, len(b)) for a, b in got][:10], [(a, len(b)) for a, b in want][:10]),
                              {"case": c, "transform": ti}, signature="copy-multi:%d:%s" % (eopt, "icc" if dicc else "noicc"))
            wi = py_read_icc(want)
            hl2.append("tjrd -1 " + res[ti]); meta2.append((ci, ti, wi))
            ctx.count("xm-opt%d-%s" % (eopt, "mixed" if len(set(c["flags"])) > 1 else "uniform"), 1, ("xm", c["sm"], c["flags"], ti, tuple((a, len(b)) for a, b in got)))
        # byte level: the model's whole output header (SOI, JFIF/Adobe with the copied version and density, extras)
        yl.append("tjmb %d %s %d %s %s" % (c["sm"], c["flags"], jcs, hx(dicc), hx(rebuild(ssegs, b""))))
        heads = []
        for ti in range(len(c["flags"])):
            ob = bytes.fromhex(res[ti]) if ti < len(res) and res[ti] != "-" else b""
            osegs, _ = parse(ob) if ob else (None, None)
            if osegs is None:
                heads.append("?"); continue
            nh = next(i for i, s_ in enumerate(osegs) if not is_appcom(s_[0]))
            heads.append((b"\xff\xd8" + b"".join(seg_bytes(*s_) for s_ in osegs[:nh])).hex())
        ymeta.append((ci, "b " + " ".join(heads)))
        ml.append("tjm %d %s %d %d %s %s" % (c["sm"], c["flags"], int(wj), int(wa), hx(dicc), hx(rebuild(ssegs, b""))))
        meta.append((ci, "x " + " | ".join("".join(" m %d %d %s ;" % (a, len(b), fnv(b)) for a, b in g) for g in gots)))
    mres = R.model(ml)
    for (ci, got), m in zip(meta, mres):
        R.corr("copy-multi", "per-transform extras", m, got, cases[ci])
    for (ci, got), m in zip(ymeta, R.model(yl)):
        R.corr("copy-multi-bytes", "output header bytes", m, got, cases[ci])
    for (ci, ti, got), m in zip(bmeta, R.model(bl)):
        R.corr("transform-bufsize", "ICC term of tj3TransformBufSize, transform %d" % ti, m, str(got), cases[ci])
        ctx.count("xm-bufsize", 1, ("bufsz", got))
    hres = R.harness(hl2, lambda i: cases[meta2[i][0]])
    for (ci, ti, wi), h in zip(meta2, hres):
        got = h.rsplit("| ", 1)[-1].replace(" second-get-succeeded", "")
        want = icc_str(wi) if wi[0] == "ok" else "icc absent"
        if got != want:
            ctx.violation("ICC profile of output %d of a multi-transform call: got '%s' expected '%s'" % (ti, got[:50], want), {"case": cases[ci], "transform": ti},
                          signature="copy-multi-icc")


# ------------------------------------------------------------------- known-finding probes
def run_probes(ctx, R):
    """Regression cases of the two defects found with this check and since fixed in the tree (design/C16.md,
    KNOWN_FINDINGS.txt fixed: entries): reported again, with their old signatures, if the behaviour returns."""
    # 1. lossless scan with dc_tbl_no = 1 (YCbCr input): emit_sos writes Td = 0 because Ss = PSV <> 0
    c1 = {"kind": "probe", "name": "lossless-yccin"}
    o = R.harness(["jc 16 16 yccin - 8 l 1 0 0 - d d 0 - -"], lambda i: c1)[0]
    if o.startswith("ok "):
        segs, tail = parse(bytes.fromhex(o[3:]))
        h = R.harness(["rd - " + o[3:]], lambda i: c1)[0]
        kv = dict(x.split("=", 1) for x in h.split() if "=" in x)
        sc = kv.get("scan", "?").split(";")[0]
        ctx.count("probe-lossless-yccin", 1, ("probe1", sc))
        if sc != "0.0.0,1.1.0,2.1.0":
            ctx.violation("lossless compression of YCbCr input: the compressor codes Cb/Cr with DC table 1 but emit_sos writes Td=0 "
                          "(scan selectors read back: %s); the stream does not decode to the input" % sc,
                          {"case": c1, "line": "jc 16 16 yccin - 8 l 1 0 0 - d d 0 - -", "impl": h[:300]}, signature="lossless-sos-td0:yccin")
    # 2. tj3Transform with TJPARAM_SAVEMARKERS copying APP2 and an instance profile set with tj3SetICCProfile
    c2 = {"kind": "probe", "name": "transform-double-icc"}
    src = R.harness(["tjc 0 16 16 8 %s subsamp=0,quality=90" % content(7, 300).hex()], lambda i: c2)[0]
    if src.startswith("ok "):
        for opt in (2, 4):
            o = R.harness(["xf tj %d 0 0 %s %s" % (opt, content(8, 200).hex(), src[3:])], lambda i: c2)[0]
            if not o.startswith("ok "):
                continue
            h = R.harness(["tjrd -1 " + o[3:]], lambda i: c2)[0]
            segs, _ = parse(bytes.fromhex(o[3:]))
            nicc = sum(1 for s in segs if is_icc(*s))
            ctx.count("probe-transform-double-icc", 1, ("probe2", opt, nicc))
            if "icc ok" not in h or nicc != 1:
                ctx.violation("tj3Transform with TJPARAM_SAVEMARKERS=%d and a profile set by tj3SetICCProfile: the output carries %d ICC APP2 "
                              "segments (source's and the instance's, both numbered 1 of 1); reading it back gives '%s'" % (opt, nicc, h.split(" | ")[-1]),
                              {"case": c2, "opt": opt, "impl": h[:300]}, signature="transform-double-icc:savemarkers%d" % opt)


def run(ctx):
    ctx.regen(["IccConst", "StdHuff"])
    ctx.prove()
    drv = ctx.model_driver()
    flavours = ["simd"] if not ctx.thorough() else ["simd", "asan"]
    exes = {fl: ctx.cc("c16", ["c16.c"], fl, libs=("turbojpeg",)) for fl in flavours}
    R = Runner(ctx, exes, drv)
    runners = {"icc": run_icc, "mk": run_mk, "hp": run_hp, "xf": run_xf, "xh": run_xh, "xm": run_xm, "ms": run_ms}
    if ctx.replay:
        r = json.load(open(ctx.replay))
        c = r.get("case")
        if isinstance(c, dict) and c.get("kind") in runners:
            runners[c["kind"]](ctx, R, [c])
        elif isinstance(c, dict) and c.get("kind") == "probe":
            run_probes(ctx, R)
        return finish(ctx, R)
    cdir = os.path.join(core.VERIF, "corpus", "C16")
    if os.path.isdir(cdir):
        for fn in sorted(os.listdir(cdir)):
            try:
                c = json.load(open(os.path.join(cdir, fn)))
                runners[c["kind"]](ctx, R, [c])
            except Exception as ex:      # a malformed corpus file must not stop the check
                ctx.log("corpus file %s skipped: %s" % (fn, ex))
    run_probes(ctx, R)
    run_icc(ctx, R, icc_cases(ctx))
    ctx.log("icc stream done")
    run_mk(ctx, R, mk_cases(ctx))
    ctx.log("marker stream done")
    run_hp(ctx, R, hp_cases(ctx))
    ctx.log("header stream done")
    run_xf(ctx, R, xf_cases(ctx))
    run_xh(ctx, R, xh_cases(ctx))
    run_xm(ctx, R, xm_cases(ctx))
    run_ms(ctx, R, ms_cases(ctx))
    ctx.log("copy stream done")
    return finish(ctx, R)


def finish(ctx, R):
    ctx.cov["traces_validated_against_impl"] = R.validated
    ctx.cov["model_impl_disagreements"] = R.disagree
    ctx.cov["rule"] = ("ICC profiles at every boundary length (1, 65518..65520, k*65519+-1, 255*65519 in thorough) through tj3SetICCProfile and "
                       "jpeg_write_icc_profile, read back plain / shuffled / reversed / interleaved with other markers / with damaged numbering; "
                       "COM and APP0..15 markers of lengths {0,1,13,14,15,65532,65533,..} with save limits {0,1,13,14,100,65535}; header parameters "
                       "over what tj3Set and the libjpeg API accept; 5 copy options x {tj3Transform, jcopy_markers_*} (+TJXOPT_COPYNONE); "
                       "a case is distinct when its (kind, parameters, implementation output) key is distinct")
    ctx.assume += ["correspondence is differential testing of the hand model against the real functions; it supports the tie, not the theorems",
                   "DQT/DHT/DAC segments are stepped over by their length word in the model's header reader",
                   "density/units are judged only when a JFIF marker is written (documented: no effect unless YCbCr or grayscale)"]
    ctx.trusted.append("translator tools/gen_IccConst.py; harness/c16.c; Python-side JPEG segment splitter of checks/C16.py")
