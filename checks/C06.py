"""C06 -- lossless transforms move DCT blocks exactly and obey the group laws.

1. proofs        : coq/props/C06.v (model/Transform.v, proofs/TransformProofs.v)
2. correspondence: harness/c06.c builds source JPEGs with the real encoder (or
   jpeg_write_coefficients), runs tj3Transform / the jtransform_* sequence of
   jpegtran / the same sequence on injected full-range coefficients, dumps source
   and destination coefficient arrays, quantisation tables, dimensions and
   return codes; ml/C06_driver (extracted model) computes the expected
   destination from the dumped source; compared stage by stage.
3. property-level oracle on the implementation's own output, independent of the
   Coq model: perfect flag, quantisation tables, block relocation against a
   direct geometric spec, composition probes (op chains whose D4 product is the
   identity must restore the source coefficients on whole-iMCU images).
"""
import json
import os
import zlib
from vlib import core
from vlib.core import sh2

OPS = ["none", "hflip", "vflip", "transpose", "transverse", "rot90", "rot180", "rot270"]
TRANSPOSING = {3, 4, 5, 7}
# 2x2 integer matrices acting on (x, y) image coordinates (y down): destination = M * source
MAT = {0: (1, 0, 0, 1), 1: (-1, 0, 0, 1), 2: (1, 0, 0, -1), 3: (0, 1, 1, 0),
       4: (0, -1, -1, 0), 5: (0, -1, 1, 0), 6: (-1, 0, 0, -1), 7: (0, 1, -1, 0)}


def mmul(a, b):   # a after b
    return (a[0] * b[0] + a[1] * b[2], a[0] * b[1] + a[1] * b[3], a[2] * b[0] + a[3] * b[2], a[2] * b[1] + a[3] * b[3])


def inverse_op(m):
    for o, mo in MAT.items():
        if mmul(mo, m) == (1, 0, 0, 1):
            return o


STD = {"444": [(1, 1), (1, 1), (1, 1)], "422": [(2, 1), (1, 1), (1, 1)], "420": [(2, 2), (1, 1), (1, 1)],
       "440": [(1, 2), (1, 1), (1, 1)], "411": [(4, 1), (1, 1), (1, 1)], "441": [(1, 4), (1, 1), (1, 1)],
       "gray": [(1, 1)]}
# (name, colour space, factors, integral ratios (usable with the pixel compressor), tj crop allowed)
NONSTD = [("gray2x2", 1, [(2, 2)], True), ("3x1", 3, [(3, 1), (1, 1), (1, 1)], True),
          ("1x3", 3, [(1, 3), (1, 1), (1, 1)], True), ("4x2", 3, [(4, 2), (1, 1), (1, 1)], True),
          ("2x2-2x1-1x2", 3, [(2, 2), (2, 1), (1, 2)], True), ("3x2-2x1-1x2", 3, [(3, 2), (2, 1), (1, 2)], False),
          ("2x3-1x2-2x1", 3, [(2, 3), (1, 2), (2, 1)], False), ("ynotmax", 3, [(1, 1), (2, 2), (1, 1)], False),
          ("rgb", 2, [(1, 1), (1, 1), (1, 1)], True), ("cmyk", 4, [(1, 1)] * 4, True),
          ("ycck", 5, [(2, 2), (1, 1), (1, 1), (2, 2)], True), ("4x1-2x1-1x1", 3, [(4, 1), (2, 1), (1, 1)], True)]


def gen_dim(rng, imcu, whole):
    a = rng.range(0, 3)
    if whole:
        return max(1, a) * imcu
    r = rng.choice([0, 1, 7, 8, 9, imcu - 1, rng.range(0, imcu - 1)]) % imcu
    return max(1, a * imcu + r)


def gen_xf(rng, path, W, H, fac, cs, std, force_plain=False, op=None):
    """one transform: 13 model ints + eopt"""
    op = rng.below(8) if op is None else op
    eopt = rng.below(16)
    if force_plain:
        return [op, 0, 0, 0, 0, 0, 0, 0, 0, 0, 0, 0, 0, eopt]
    perfect = 1 if rng.chance(1, 5) else 0
    trim = 1 if rng.chance(1, 3) else 0
    gray = 1 if rng.chance(1, 6) else 0
    crop = 1 if rng.chance(2, 5) else 0
    nc1 = len(fac) == 1 or (gray and cs == 3 and len(fac) == 3)
    mh = 1 if nc1 else max(f[0] for f in fac)
    mv = 1 if nc1 else max(f[1] for f in fac)
    dw, dh, imw, imh = (H, W, mv * 8, mh * 8) if op in TRANSPOSING else (W, H, mh * 8, mv * 8)
    f = [0] * 8
    if crop:
        if path == 0:
            cx = rng.range(0, dw // imw + (1 if rng.chance(1, 10) else 0)) * imw
            cy = rng.range(0, dh // imh + (1 if rng.chance(1, 10) else 0)) * imh
            if rng.chance(1, 10):
                cx += rng.range(1, imw - 1)
            if rng.chance(1, 10):
                cy += rng.range(1, imh - 1)
            cw = 0 if rng.chance(1, 3) else rng.range(1, max(1, dw - cx + (2 if rng.chance(1, 12) and op != 0 else 0)))
            ch = 0 if rng.chance(1, 3) else rng.range(1, max(1, dh - cy + (2 if rng.chance(1, 12) and op != 0 else 0)))
            if op == 0:
                cw, ch = min(cw, dw), min(ch, dh)
            f = [cw, 1 if cw else 0, ch, 1 if ch else 0, cx, 1, cy, 1]
        else:
            cwset = 1 if rng.chance(3, 4) else 0
            chset = 1 if rng.chance(3, 4) else 0
            cxset = rng.choice([0, 1, 1, 2])
            cyset = rng.choice([0, 1, 1, 2]) if cxset else 0
            slack = 1 if (rng.chance(1, 12) and op != 0) else 0
            cw = rng.range(1, dw + slack) if cwset else 0
            ch = rng.range(1, dh + slack) if chset else 0
            cx = rng.range(0, max(0, dw - cw + slack)) if cxset else 0
            cy = rng.range(0, max(0, dh - ch + slack)) if cyset else 0
            f = [cw, cwset, ch, chset, cx, cxset, cy, cyset]
    return [op, perfect, trim, gray, crop] + f + [eopt]


def gen_case(rng, idx):
    """returns (line, kind, meta)"""
    if rng.chance(2, 3):
        name = rng.choice(sorted(STD))
        fac, cs, integral, std = STD[name], (1 if name == "gray" else 3), True, True
    else:
        name, cs, fac, integral = rng.choice(NONSTD)
        std = name == "gray2x2"
    mh, mv = max(f[0] for f in fac), max(f[1] for f in fac)
    if len(fac) == 1:
        mh = mv = 1          # a single component is never interleaved: iMCU = one block
    shape = rng.choice(["chain", "tj1", "tj1", "tjn", "jt", "jt", "inj", "inj"])
    whole = shape == "chain" or rng.chance(1, 4)
    # whole-iMCU in BOTH the source's and the 1x1 sense
    W = gen_dim(rng, 8 * max(f[0] for f in fac), whole)
    H = gen_dim(rng, 8 * max(f[1] for f in fac), whole)
    prec = 12 if rng.chance(1, 4) else 8
    kind = 0 if (integral and rng.chance(1, 2)) else 1
    mode = rng.below(5)
    amp = rng.choice([75, 90, 97, 100]) if kind == 0 else (rng.choice([3, 60, 1000]) if prec == 8 else rng.choice([5, 1000, 16000]))
    seed = rng.next() % (1 << 40)
    stages = []
    meta = {"name": name, "fac": fac, "cs": cs, "W": W, "H": H, "shape": shape, "identity": False}
    if shape == "chain":
        m = (1, 0, 0, 1)
        ops = []
        for _ in range(rng.range(1, 3)):
            o = rng.range(1, 7)
            ops.append(o)
            m = mmul(MAT[o], m)
        ops.append(inverse_op(m))
        w, h, fc = W, H, fac
        for o in ops:
            path = rng.choice([0, 0, 1])
            stages.append((path, [gen_xf(rng, path, w, h, fc, cs, std, force_plain=True, op=o)]))
            if o in TRANSPOSING:
                w, h, fc = h, w, [(b, a) for a, b in fc]
        meta["identity"] = True
    elif shape == "tj1":
        stages.append((0, [gen_xf(rng, 0, W, H, fac, cs, std)]))
    elif shape == "tjn":
        stages.append((0, [gen_xf(rng, 0, W, H, fac, cs, std) for _ in range(rng.range(2, 4))]))
    elif shape == "jt":
        stages.append((1, [gen_xf(rng, 1, W, H, fac, cs, std)]))
    else:
        stages.append((2, [gen_xf(rng, 2, W, H, fac, cs, std)]))
    toks = [W, H, prec, cs, len(fac)] + [v for f in fac for v in f] + [kind, mode, amp, seed, len(stages)]
    for path, xfs in stages:
        toks += [path, len(xfs)]
        for x in xfs:
            toks += x
    return "case " + " ".join(map(str, toks)), shape, meta


def gen_sweep(ctx, rng):
    """every iMCU-aligned crop offset of a small 4:2:0 / 4:1:1 image under every operation (tj3Transform,
    crop to the right/bottom edge or a fixed extent), whole and partial iMCUs"""
    out = []
    for name, (mw, mh) in (("420", (3, 2)), ("411", (2, 3))) if not ctx.thorough() else (("420", (5, 4)), ("411", (3, 4)), ("440", (4, 3))):
        fac = STD[name]
        iw, ih = 8 * fac[0][0], 8 * fac[0][1]
        for extra in ((0, 0), (5, 9)):
            W, H = mw * iw + extra[0], mh * ih + extra[1]
            for op in range(8):
                dw, dh, dmw, dmh = (H, W, ih, iw) if op in TRANSPOSING else (W, H, iw, ih)
                for cx in range(0, dw, dmw):
                    for cy in range(0, dh, dmh):
                        trim = 1 if rng.chance(1, 2) else 0
                        cw = 0 if rng.chance(1, 2) else rng.range(1, dw - cx)
                        ch = 0 if rng.chance(1, 2) else rng.range(1, dh - cy)
                        x = [op, 0, trim, 0, 1, cw, 1 if cw else 0, ch, 1 if ch else 0, cx, 1, cy, 1, rng.below(16)]
                        toks = [W, H, 8, 3, 3] + [v for f in fac for v in f] + [1, 0, 60, rng.next() % (1 << 40), 1, 0, 1] + x
                        out.append(("case " + " ".join(map(str, toks)), "sweep", {"identity": False}))
    return out


def gen_edgecrop(rng, thorough):
    """(a) every operation, sources with partial iMCUs on the right and bottom edge, NO trim, crop with x and y
    origin > 0 reaching the right / bottom edge: the edge-block branches of every do_* routine with non-zero
    x_crop_blocks / y_crop_blocks (tj3Transform and the jtransform sequence)"""
    out = []
    layouts = [("444", 3, STD["444"]), ("422", 3, STD["422"]), ("420", 3, STD["420"]), ("440", 3, STD["440"]),
               ("411", 3, STD["411"]), ("441", 3, STD["441"]), ("2x2-2x1-1x2", 3, [(2, 2), (2, 1), (1, 2)]), ("gray", 1, STD["gray"])]
    for name, cs, fac in layouts:
        iw, ih = 8 * max(f[0] for f in fac), 8 * max(f[1] for f in fac)
        if len(fac) == 1:
            iw = ih = 8
        for op in range(8):
            for rep in range(3 if thorough else 1):
                W = rng.range(2, 3) * iw + rng.range(1, iw - 1)
                H = rng.range(2, 3) * ih + rng.range(1, ih - 1)
                dw, dh, dmw, dmh = (H, W, ih, iw) if op in TRANSPOSING else (W, H, iw, ih)
                path = rng.choice([0, 1, 1, 2]) if name in STD else rng.choice([1, 2])
                cx = rng.range(1, dw // dmw) * dmw
                cy = rng.range(1, dh // dmh) * dmh
                if cx >= dw:
                    cx -= dmw
                if cy >= dh:
                    cy -= dmh
                if path != 0 and rng.chance(1, 2):      # unaligned origins are moved to the grid by transupp.c
                    cx += rng.range(0, dmw - 1) if cx + dmw - 1 < dw else 0
                    cy += rng.range(0, dmh - 1) if cy + dmh - 1 < dh else 0
                to_edge_x, to_edge_y = rng.chance(5, 6), rng.chance(5, 6)
                cw = (0 if rng.chance(1, 2) else dw - cx) if to_edge_x else rng.range(1, dw - cx)
                ch = (0 if rng.chance(1, 2) else dh - cy) if to_edge_y else rng.range(1, dh - cy)
                x = [op, 0, 0, 0, 1, cw, 1 if cw else 0, ch, 1 if ch else 0, cx, 1, cy, 1, rng.below(16)]
                toks = [W, H, 8, cs, len(fac)] + [v for f in fac for v in f] + [1, rng.below(5), 60, rng.next() % (1 << 40), 1, path, 1] + x
                out.append(("case " + " ".join(map(str, toks)), "edgecrop", {"identity": False}))
    return out


def gen_cropext(rng, thorough):
    """crop EXTENSION as tj3Transform / jpegtran reach it: JXFORM_NONE, region wider and/or taller than the image
    (do_crop_ext_zero): extension in x only, y only, both; source with whole / partial edge iMCUs; offsets 0, inside
    the allowed range, on its boundary, and just beyond (refused)"""
    out = []
    for name in ("444", "420", "422", "411", "440", "gray") + (("441",) if thorough else ()):
        fac, cs = STD[name], (1 if name == "gray" else 3)
        iw, ih = 8 * fac[0][0], 8 * fac[0][1]
        for rep in range(6 if thorough else 3):
            W = rng.range(1, 2) * iw + rng.choice([0, rng.range(1, iw - 1)])
            H = rng.range(1, 2) * ih + rng.choice([0, rng.range(1, ih - 1)])
            mode = ["x", "y", "xy"][rep % 3]
            cw = W + rng.range(1, 3 * iw) if "x" in mode else rng.range(1, W)
            ch = H + rng.range(1, 3 * ih) if "y" in mode else rng.range(1, H)
            maxx = cw - W if "x" in mode else W - cw
            maxy = ch - H if "y" in mode else H - ch
            cx = rng.choice([0, (maxx // iw) * iw, rng.range(0, maxx // iw) * iw, (maxx // iw + 1) * iw if rng.chance(1, 6) else 0])
            cy = rng.choice([0, (maxy // ih) * ih, rng.range(0, maxy // ih) * ih, (maxy // ih + 1) * ih if rng.chance(1, 6) else 0])
            path = rng.choice([0, 0, 1])
            if path == 1 and rng.chance(1, 2):
                cx += rng.range(0, iw - 1) if cx + iw - 1 <= maxx else 0
            x = [0, 0, rng.below(2), 0, 1, cw, 1, ch, 1, cx, 1, cy, 1, rng.below(16)]
            toks = [W, H, 8, cs, len(fac)] + [v for f in fac for v in f] + [1, rng.below(4), 50, rng.next() % (1 << 40), 1, path, 1] + x
            out.append(("case " + " ".join(map(str, toks)), "cropext", {"identity": False}))
    return out


def gen_tjgrid(rng, thorough):
    """(b) tj3Transform crops on 4:4:1 / 4:1:1 / 4:2:2 / 4:4:0 sources, every operation class, origins on every
    multiple of 8 up to 64 in both directions: acceptance must follow the DESTINATION iMCU grid and the result
    must have the requested size"""
    out = []
    # regression family (F55, fixed by 7d69fcb): layouts getSubsamp() maps to a TJSAMP level whose tjMCU grid is
    # finer than the image's iMCU grid; origins off the iMCU grid must be refused
    NONSTD_TJ = {"ns444-2x1": [(2, 1)] * 3, "ns444-1x2": [(1, 2)] * 3, "ns444-3x1": [(3, 1)] * 3, "ns444-1x3": [(1, 3)] * 3,
                 "ns422": [(2, 2), (1, 2), (1, 2)], "ns440": [(2, 2), (2, 1), (2, 1)]}
    for name in ("441", "411", "422", "440") + tuple(sorted(NONSTD_TJ)):
        fac = STD[name] if name in STD else NONSTD_TJ[name]
        for op in ((3, 4, 5, 7, 0, 6) if thorough else (rng.choice([3, 4]), rng.choice([5, 7]), rng.choice([0, 1, 2, 6]))):
            W, H = rng.choice([(72, 80), (80, 72), (96, 72), (75, 83)])
            dw, dh = (H, W) if op in TRANSPOSING else (W, H)
            origins = [(a, b) for a in range(0, 65, 8) for b in range(0, 65, 8)]
            if not thorough:
                origins = [o for o in origins if o[0] % 32 == 0 or o[1] % 32 == 0 or rng.chance(1, 4)]
                if name not in STD:
                    origins = [o for o in origins if rng.chance(1, 2)]
            seed = rng.next() % (1 << 40)
            for cx, cy in origins:
                cw = 0 if rng.chance(1, 3) else rng.range(1, dw - cx)
                ch = 0 if rng.chance(1, 3) else rng.range(1, dh - cy)
                x = [op, 0, 0, 0, 1, cw, 1 if cw else 0, ch, 1 if ch else 0, cx, 1, cy, 1, 0]
                toks = [W, H, 8, 3, 3] + [v for f in fac for v in f] + [1, 0, 30, seed, 1, 0, 1] + x
                out.append(("case " + " ".join(map(str, toks)), "tjgrid", {"identity": False}))
    return out


def gen_reslot(rng):
    """multi-scan sources whose quantization-table slots are redefined by DQT segments spliced in
    between the scans; components sharing / not sharing slots"""
    if rng.chance(3, 4):
        name = rng.choice(["444", "422", "420", "440", "411", "gray"])
        fac, cs = STD[name], (1 if name == "gray" else 3)
    else:
        name, cs, fac, _ = rng.choice([n for n in NONSTD if n[3] and n[0] != "gray2x2"])
    nc = len(fac)
    W = gen_dim(rng, 8 * max(f[0] for f in fac), rng.chance(1, 3))
    H = gen_dim(rng, 8 * max(f[1] for f in fac), rng.chance(1, 3))
    prec = 12 if rng.chance(1, 5) else 8
    mode = rng.choice([0, 0, 1, 2, 3])
    if nc == 1:
        tq = [rng.choice([0, 0, 2])]
    elif nc == 3:
        tq = rng.choice([[0, 0, 0], [0, 0, 0], [0, 1, 1], [0, 1, 1], [0, 0, 1], [1, 0, 1], [0, 1, 2], [3, 3, 3]])
    else:
        tq = [rng.below(4) for _ in range(nc)]
    nscan = nc if mode not in (2, 4) else (6 if nc == 1 else 10)
    spl = []
    for _ in range(rng.choice([0, 1, 1, 1, 2, 2])):
        after = rng.range(1, nscan)
        slot = rng.choice(tq) if rng.chance(5, 6) else rng.below(4)
        spl.append([after, slot, rng.choice([0, 9, 9, 40])])
    path = rng.choice([0, 0, 1, 2])
    std = name in STD
    xfs = [gen_xf(rng, path, W, H, fac, cs, std, force_plain=rng.chance(1, 2))]
    if path == 0 and rng.chance(1, 4):
        xfs.append(gen_xf(rng, path, W, H, fac, cs, std))
    toks = [W, H, prec, cs, nc] + [v for f in fac for v in f] + [2, mode, rng.choice([75, 90, 97]), rng.next() % (1 << 40)]
    toks += tq + [rng.below(2), len(spl)] + [v for s_ in spl for v in s_] + [1, path, len(xfs)]
    for x in xfs:
        toks += x
    return "case " + " ".join(map(str, toks)), "reslot", {"identity": False}


# ---------------------------------------------------------------- parsing
def parse_case(line):
    t = [int(x) for x in line.split()[1:]]
    W, H, prec, cs, nc = t[:5]
    p = 5
    fac = [(t[p + 2 * i], t[p + 2 * i + 1]) for i in range(nc)]
    p += 2 * nc
    kind, mode, amp, seed = t[p:p + 4]
    p += 4
    if kind == 2:
        p += nc + 1
        p += 1 + 3 * t[p]
    nst = t[p]
    p += 1
    stages = []
    for _ in range(nst):
        path, n = t[p], t[p + 1]
        p += 2
        xfs = []
        for _ in range(n):
            xfs.append(t[p:p + 14])
            p += 14
        stages.append((path, xfs))
    return {"W": W, "H": H, "prec": prec, "cs": cs, "fac": fac, "stages": stages}


def parse_image(s):
    """image dump -> dict or None"""
    try:
        a = [int(x) for x in s.split()]
    except ValueError:
        return None
    if len(a) < 4:
        return None
    W, H, cs, nc = a[:4]
    p = 4
    slots = []
    for _ in range(4):
        if p < len(a) and a[p] == 1:
            slots.append(a[p + 1:p + 65])
            p += 65
        else:
            slots.append(None)
            p += 1
    comps = []
    for _ in range(nc):
        if p + 5 > len(a):
            return None
        hs, vs, wb, hb, tq = a[p:p + 5]
        p += 5
        q = a[p:p + 64]
        p += 64
        n = wb * hb * 64
        blocks = a[p:p + n]
        p += n
        if len(blocks) != n:
            return None
        comps.append({"hs": hs, "vs": vs, "wb": wb, "hb": hb, "tq": tq, "q": q, "b": blocks})
    if p != len(a):
        return None
    return {"W": W, "H": H, "cs": cs, "slots": slots, "comps": comps}


def blk(c, x, y):
    o = (y * c["wb"] + x) * 64
    return c["b"][o:o + 64]


def neg16(v):
    return ((-v + 32768) % 65536) - 32768


def block_op(b, tr, negc, negr):
    """geometric in-block action: optional transposition, then sign (-1)^col and/or (-1)^row"""
    out = [0] * 64
    for r in range(8):
        for c in range(8):
            v = b[c * 8 + r] if tr else b[r * 8 + c]
            if (negc and c & 1) != (negr and r & 1):
                v = neg16(v)
            out[r * 8 + c] = v
    return out


def spec_check(src, dst, op, gray_forced, xco=0, yco=0):
    """direct geometric spec (crop origin at iMCU (xco, yco) of the transformed image): every destination block is the
    relocated, sign/transposition adjusted source block; blocks of partial iMCUs on a mirrored
    edge stay in place (transposed when the operation transposes).  Returns None or a message."""
    ncd = len(dst["comps"])
    sc = src["comps"][:ncd]
    fac = [(1, 1)] if ncd == 1 else [(c["hs"], c["vs"]) for c in sc]
    mh, mv = max(f[0] for f in fac), max(f[1] for f in fac)
    tr = op in TRANSPOSING
    mx = op in (1, 4, 5, 6)      # destination mirrored in x
    my = op in (2, 4, 6, 7)      # destination mirrored in y
    for ci in range(ncd):
        s, d = sc[ci], dst["comps"][ci]
        hs, vs = fac[ci]
        dhs, dvs = (vs, hs) if tr else (hs, vs)
        dmh, dmv = (mv, mh) if tr else (mh, mv)
        sw_px, sh_px = src["W"], src["H"]
        dW0, dH0 = (sh_px, sw_px) if tr else (sw_px, sh_px)      # untrimmed destination size
        cw = (dW0 // (dmh * 8)) * dhs      # mirrorable width / height in destination blocks
        chh = (dH0 // (dmv * 8)) * dvs
        X, Y = xco * dhs, yco * dvs       # crop origin in blocks of this component
        for y in range(d["hb"]):
            for x in range(d["wb"]):
                fx = mx and X + x < cw
                fy = my and Y + y < chh
                sx_d = cw - 1 - (X + x) if fx else X + x
                sy_d = chh - 1 - (Y + y) if fy else Y + y
                sx, sy = (sy_d, sx_d) if tr else (sx_d, sy_d)
                if not (0 <= sx < s["wb"] and 0 <= sy < s["hb"]):
                    return "comp %d block (%d,%d): source position (%d,%d) outside the source plane" % (ci, x, y, sx, sy)
                exp = block_op(blk(s, sx, sy), tr, fx, fy)
                if exp != blk(d, x, y):
                    return "comp %d destination block (%d,%d)%s is not the %s image of source block (%d,%d)%s" % (
                        ci, x, y, " of the region cropped at block (%d,%d)" % (X, Y) if (X or Y) else "", OPS[op], sx, sy,
                        "" if (fx or not mx) and (fy or not my) else " (edge block that stays in place)")
    return None


def crop_region(x, dw, dh, imw, imh):
    """accepted crop request -> (xco, yco, width, height) as the transupp.c documentation prescribes: the
    region's origin is moved left/up to an iMCU boundary and the extent grows accordingly"""
    if not x[4]:
        return 0, 0, dw, dh
    cw, cwset, ch, chset, cx, cxset, cy, cyset = x[5:13]
    cx = cx if cxset else 0
    cy = cy if cyset else 0
    w = cw if cwset else dw - cx
    h = ch if chset else dh - cy
    ex, ey = w > dw, h > dh            # crop extension (JXFORM_NONE only): the image is placed inside a larger canvas
    xoff = (w - dw - cx if ex else dw - w - cx) if cxset == 2 else cx
    yoff = (h - dh - cy if ey else dh - h - cy) if cyset == 2 else cy
    return xoff // imw, yoff // imh, (w if ex else w + xoff % imw), (h if ey else h + yoff % imh)


def ext_check(src, dst, x, xco, yco):
    """crop extension (do_crop_ext_zero): inside the whole-iMCU source area placed at the crop offset the blocks are the
    source blocks, everything else (canvas, partial edge iMCU of the source in an extended direction) is zero"""
    ncd = len(dst["comps"])
    fac = [(1, 1)] if ncd == 1 else [(c["hs"], c["vs"]) for c in src["comps"][:ncd]]
    mh, mv = max(f[0] for f in fac), max(f[1] for f in fac)
    ex, ey = dst["W"] > src["W"], dst["H"] > src["H"]
    for ci in range(ncd):
        s_, d = src["comps"][ci], dst["comps"][ci]
        hs, vs = fac[ci]
        X, Y = xco * hs, yco * vs
        cw, chh = (src["W"] // (8 * mh)) * hs, (src["H"] // (8 * mv)) * vs
        for y in range(d["hb"]):
            for xx in range(d["wb"]):
                inx = (X <= xx < X + cw) if ex else True
                iny = (Y <= y < Y + chh) if ey else True
                sx, sy = (xx - X if ex else xx + X), (y - Y if ey else y + Y)
                if inx and iny:
                    if not (0 <= sx < s_["wb"] and 0 <= sy < s_["hb"]):
                        return "comp %d block (%d,%d) of the extended image: source position (%d,%d) outside the source plane" % (ci, xx, y, sx, sy)
                    exp = blk(s_, sx, sy)
                else:
                    exp = [0] * 64
                if blk(d, xx, y) != exp:
                    return "comp %d block (%d,%d) of the extended image is not %s" % (
                        ci, xx, y, "source block (%d,%d)" % (sx, sy) if inx and iny else "a zero block")
    return None



def dims_check(src, dst, x):
    """size, component count and sampling factors of the result; returns (message, xco, yco)"""
    op, trim, gray = x[0], x[2], x[3]
    fac = [(c["hs"], c["vs"]) for c in src["comps"]]
    nc1 = len(fac) == 1 or (gray and src["cs"] == 3 and len(fac) == 3)
    if nc1:
        fac = [(1, 1)]
    tr = op in TRANSPOSING
    dfac = [(b, a) for a, b in fac] if tr else fac
    dw, dh = (src["H"], src["W"]) if tr else (src["W"], src["H"])
    imw, imh = 8 * max(f[0] for f in dfac), 8 * max(f[1] for f in dfac)
    fw, fh = dw, dh
    xco, yco, dw, dh = crop_region(x, dw, dh, imw, imh)
    # trim: a mirrored edge of the region that coincides with the last whole iMCU of the image loses its partial iMCU
    if trim and op in (1, 4, 5, 6) and dw >= imw and xco + dw // imw == fw // imw:
        dw -= dw % imw
    if trim and op in (2, 4, 6, 7) and dh >= imh and yco + dh // imh == fh // imh:
        dh -= dh % imh
    if (dst["W"], dst["H"]) != (dw, dh):
        return "result is %dx%d, expected %dx%d%s" % (dst["W"], dst["H"], dw, dh, " for the requested region" if x[4] else ""), xco, yco
    if [(c["hs"], c["vs"]) for c in dst["comps"]] != dfac:
        return "sampling factors of the result are not those of the source%s" % (" swapped" if tr else ""), xco, yco
    for c, f in zip(dst["comps"], dfac):
        if (c["wb"], c["hb"]) != (-(-dw * f[0] // imw), -(-dh * f[1] // imh)):
            return "component size in blocks inconsistent with the image size", xco, yco
    return None, xco, yco


def dst_imcu(fac, cs, x):
    op, gray = x[0], x[3]
    nc1 = len(fac) == 1 or (gray and cs == 3 and len(fac) == 3)
    mh = 1 if nc1 else max(f[0] for f in fac)
    mv = 1 if nc1 else max(f[1] for f in fac)
    return (8 * mv, 8 * mh) if op in TRANSPOSING else (8 * mh, 8 * mv)


def is_std_layout(fac, cs):
    return (cs == 1 and len(fac) == 1) or (cs == 3 and fac in [STD[k] for k in STD if k != "gray"])


def imperfect(W, H, fac, cs, x):
    op, gray = x[0], x[3]
    nc1 = len(fac) == 1 or (gray and cs == 3 and len(fac) == 3)
    mw = 8 if nc1 else 8 * max(f[0] for f in fac)
    mh = 8 if nc1 else 8 * max(f[1] for f in fac)
    px, py = W % mw != 0, H % mh != 0
    return {0: False, 3: False, 1: px, 7: px, 2: py, 5: py, 4: px or py, 6: px or py}[op]


def transpose64(q):
    return [q[(k % 8) * 8 + k // 8] for k in range(64)]


# -------------------------------------------------------------------- run
def run(ctx):
    rng = ctx.rng
    ctx.regen(["Xform"])
    ctx.prove()
    drv = ctx.model_driver()
    ctx.trusted += ["tools/gen_Xform.py (regex translator of the dispatch switches and tables of transupp.c / turbojpeg.[ch])",
                    "harness/c06.c (#include \"transupp.c\" of the working tree; dumps via jpeg_read_coefficients / direct array access)"]
    flavours = ["simd"] if not ctx.thorough() else ["simd", "asan"]
    exes = {fl: ctx.cc("c06", ["c06.c"], fl, libs=("turbojpeg",)) for fl in flavours}
    cases = []
    if drv and not ctx.replay:
        run_subsamp(ctx, exes[flavours[0]], drv)
    if not ctx.replay:
        run_histories(ctx, exes[flavours[0]])
    if ctx.replay:
        r = json.load(open(ctx.replay))
        if r.get("hist"):
            rc, out, err = sh2([exes[flavours[0]]], input=(r["hist"] + "\n").encode(), timeout=600)
            parts = out.decode("latin1").strip().split(" ; ")
            ctx.count("history", 1, None)
            if rc != 0 or len(parts) != 3 or parts[1] != parts[2]:
                ctx.violation("history replay: step 2 on the same instance differs from a fresh instance (or crashed, rc=%d)" % rc,
                              {"hist": r["hist"]}, signature="history:replay")
            return
        if r.get("case"):
            cases.append((r["case"], "replay", {"identity": bool(r.get("identity"))}))
        return run_cases(ctx, cases, exes, drv, flavours)
    cdir = os.path.join(core.VERIF, "corpus", "C06")
    if os.path.isdir(cdir):
        for fn in sorted(os.listdir(cdir)):
            for l in open(os.path.join(cdir, fn)):
                l = l.strip()
                if l.startswith("case "):
                    cases.append((l.replace("#identity", "").strip(), "corpus", {"identity": l.endswith("#identity")}))
    cases += gen_sweep(ctx, rng)
    cases += gen_edgecrop(rng, ctx.thorough())
    cases += gen_cropext(rng, ctx.thorough())
    cases += gen_tjgrid(rng, ctx.thorough())
    for i in range(ctx.n(4000, 40000)):
        cases.append(gen_case(rng, i))
        if i % 5 == 0:
            cases.append(gen_reslot(rng))
    return run_cases(ctx, cases, exes, drv, flavours)


def run_histories(ctx, exe):
    """two-step histories on ONE TurboJPEG instance: a transform of image A that is rejected / fails (unaligned crop,
    region outside the image, imperfect + TJXOPT_PERFECT, destination buffer too small, or succeeds for contrast) through
    tj3Transform or the legacy tjTransform, with or without caller-owned buffers (NOREALLOC), then a transform of a
    DIFFERENT image B on the same instance.  Model-free oracle: step 2 must equal the same transform of B on a fresh
    instance, coefficient-exact (the result is a function of THIS call's source)."""
    rng = ctx.rng.fork()
    lines, metas = [], []

    def source(rng):
        name = rng.choice(["444", "422", "420", "440", "411", "gray"])
        fac, cs = STD[name], (1 if name == "gray" else 3)
        iw, ih = 8 * fac[0][0], 8 * fac[0][1]
        W = rng.range(1, 3) * iw + rng.choice([0, 0, rng.range(1, iw - 1)])
        H = rng.range(1, 3) * ih + rng.choice([0, 0, rng.range(1, ih - 1)])
        toks = [W, H, 8, cs, len(fac)] + [v for f in fac for v in f] + [1, rng.choice([0, 1, 2, 3]), 40, rng.next() % (1 << 40)]
        return toks, W, H, fac, cs

    for i in range(ctx.n(160, 3000)):
        ta, W, H, fac, cs = source(rng)
        tb, W2, H2, fac2, cs2 = source(rng)
        op = rng.below(8)
        dw, dh = (H, W) if op in TRANSPOSING else (W, H)
        imw, imh = dst_imcu(fac, cs, [op, 0, 0, 0])
        kind = rng.choice(["unaligned", "unaligned", "outside", "imperfect", "toosmall", "fine"])
        xa = [op, 0, 0, 0, 0, 0, 0, 0, 0, 0, 0, 0, 0, 0]
        small = 0
        if kind == "unaligned":
            xa[4:13] = [1, 0, 0, 0, 0, rng.range(1, 7), 1, rng.choice([0, 8 * rng.range(0, 2) + 4]), 1]
        elif kind == "outside":
            xa[4:13] = [1, 8, 1, 8, 1, (dw // imw + 2) * imw, 1, 0, 1]
        elif kind == "imperfect":
            xa[0], xa[1] = rng.choice([1, 2, 4, 5, 6, 7]), 1
        elif kind == "toosmall":
            small = 1
        api1 = rng.below(2)
        nr1 = 1 if (small or rng.chance(2, 3)) else 0
        if small:
            api1 = 0
        api2, nr2 = rng.below(2), rng.below(2)
        xb = gen_xf(rng, 0, W2, H2, fac2, cs2, True, force_plain=rng.chance(1, 2))
        lines.append("hist %d %d %d %d %d %s %s %s %s" % (api1, nr1, small, api2, nr2, " ".join(map(str, ta)), " ".join(map(str, xa)),
                                                        " ".join(map(str, tb)), " ".join(map(str, xb))))
        metas.append((kind, api1, nr1))
    rc, out, err = sh2([exe], input=("\n".join(lines) + "\n").encode(), timeout=1800)
    ol = out.decode("latin1").split("\n")
    if rc != 0 or len(ol) < len(lines):
        k = min(len(ol), len(lines)) - 1
        ctx.violation("implementation crashed/aborted in a two-step history (rc=%d): %s" % (rc, err[-300:]),
                      {"hist": lines[max(k, 0)], "stderr": err[-1500:]}, signature="crash:history")
        return
    dist = {}
    for l, o, (kind, api1, nr1) in zip(lines, ol, metas):
        parts = o.split(" ; ")
        if len(parts) != 3 or not parts[0].startswith("H "):
            ctx.count("history:unusable", 1, None)
            continue
        first = parts[0][2:]
        key = "history:%s:%s%s:first=%s" % (kind, ["tj3", "legacy"][api1], "+norealloc" if nr1 else "", first.split(":")[0])
        dist[key] = dist.get(key, 0) + 1
        ctx.count("history", 1, zlib.crc32(o.encode()))
        if parts[1] != parts[2]:
            a, b = parse_image(parts[1][5:]) if parts[1].startswith("ok | ") else None, parse_image(parts[2][5:]) if parts[2].startswith("ok | ") else None
            what = ("after a %s transform of another image (%s%s, result %s) the next transform on the same instance %s"
                    % (kind, ["tj3Transform", "tjTransform"][api1], " with NOREALLOC" if nr1 else "", first,
                       "yields a %dx%d image although its source is %dx%d" % (a["W"], a["H"], b["W"], b["H"]) if a and b and (a["W"], a["H"]) != (b["W"], b["H"])
                       else "differs from the same transform on a fresh instance (%s vs %s)" % (parts[1][:30], parts[2][:30])))
            ctx.violation(what, {"hist": l, "same_instance": parts[1][:300], "fresh_instance": parts[2][:300]},
                          signature="history:%s:%s" % (kind, ["tj3", "legacy"][api1]))
    ctx.cov["history_distribution"] = dict(sorted(dist.items()))


def run_subsamp(ctx, exe, drv):
    """getSubsamp(): every encodable 3-component layout (factors 1..4, <= 10 blocks per MCU) as YCbCr and RGB,
    every 1-component layout, a CMYK/YCCK sample -- real header through tj3DecompressHeader vs the model"""
    rng = ctx.rng.fork()
    lines = []
    F = [(h, v) for h in range(1, 5) for v in range(1, 5)]
    for a in F:
        lines.append("ss 1 1 %d %d" % a)
        for b in F:
            for c in F:
                if a[0] * a[1] + b[0] * b[1] + c[0] * c[1] <= 10:
                    lines.append("ss 3 3 %d %d %d %d %d %d" % (a + b + c))
                    if ctx.thorough() or rng.chance(1, 6):
                        lines.append("ss 2 3 %d %d %d %d %d %d" % (a + b + c))
    for _ in range(ctx.n(150, 1500)):
        fs = [rng.choice(F) for _ in range(4)]
        if rng.chance(1, 2):
            fs[3] = fs[0]
        if rng.chance(1, 2):
            fs[1] = fs[2] = (1, 1)
        if sum(h * v for h, v in fs) <= 10:
            lines.append("ss %d 4 %s" % (rng.choice([4, 5]), " ".join("%d %d" % f for f in fs)))
    inp = ("\n".join(lines) + "\n").encode()
    rc, out, err = sh2([exe], input=inp, timeout=900)
    il = out.decode().split("\n")
    rc2, out2, err2 = sh2([drv], input=inp, timeout=900)
    ml = out2.decode().split("\n")
    if rc != 0 or rc2 != 0 or len(il) < len(lines) or len(ml) < len(lines):
        ctx.broken_tie("subsamp-stream", "harness/driver failed on the getSubsamp stream rc=%d/%d" % (rc, rc2))
        return
    dist = {}
    for l, a, b in zip(lines, il, ml):
        if not a.startswith("ss "):
            ctx.count("subsamp:unencodable", 1, None)
            continue
        dist[a] = dist.get(a, 0) + 1
        ctx.count("subsamp", 1, l)
        if a != b:
            ctx.broken_tie("correspondence:getSubsamp", "model and tj3DecompressHeader differ on %s: model=%s impl=%s" % (l, b, a))
    ctx.cov["getSubsamp_distribution"] = dist


def run_cases(ctx, cases, exes, drv, flavours):
    """in batches, so that the dumps of a thorough run never sit in memory all at once"""
    tot = {"validated": 0, "disagree": 0, "split": {}}
    B = 1500
    for k in range(0, len(cases), B):
        run_batch(ctx, cases[k:k + B], exes, drv, flavours, tot, k)
    ctx.cov["case_split_distribution"] = dict(sorted(tot["split"].items()))
    ctx.cov["traces_validated_against_impl"] = tot["validated"]
    ctx.cov["model_impl_disagreements"] = tot["disagree"]
    ctx.cov["rule"] = ("sources: 7 TJSAMP layouts + 12 non-standard factor sets (1..4, fractional ratios, Y not maximal, RGB/CMYK/YCCK, "
                       "single component 2x2), sizes with whole/partial iMCUs on either edge, 8/12-bit, Huffman/optimised/progressive/arithmetic; "
                       "stages: tj3Transform (1..4 simultaneous transforms), jtransform_* sequence, same sequence on injected full-range "
                       "coefficients incl. -32768; options perfect/trim/crop/gray/progressive/arithmetic/optimize/copynone; every aligned crop "
                       "offset x every operation on small images; a stage is distinct when its implementation result differs")
    ctx.assume += ["correspondence is differential testing of the hand model against the real code; it supports the tie, not the theorems",
                   "crop extension (crop larger than the image, JXFORM_NONE only), JCROP_FORCE/REFLECT, wipe and drop are outside the model and not generated"]


def run_batch(ctx, cases, exes, drv, flavours, tot, base):
    inp = ("\n".join(c[0] for c in cases) + "\n").encode()
    outs = {}
    for fl, exe in exes.items():
        rc, out, err = sh2([exe], input=inp, timeout=3000)
        lines = out.decode("latin1").split("\n")
        if lines and lines[-1] == "":
            lines.pop()
        if rc != 0 or len(lines) < len(cases):
            idx = min(len(lines), len(cases) - 1)
            ctx.violation("implementation crashed/aborted (%s build, rc=%d) on case %d: %s" % (fl, rc, idx, err[-300:]),
                          {"case": cases[idx][0], "flavour": fl, "stderr": err[-2000:]}, signature="crash:" + cases[idx][1])
            lines += ["<no output>"] * (len(cases) - len(lines))
        outs[fl] = lines
    ref = outs[flavours[0]]

    # ---- build the model driver's input from the implementation's source dumps
    dlines, dmap = [], []            # dmap: (case index, stage index)
    parsed = []
    for i, (line, kind, meta) in enumerate(cases):
        pc = parse_case(line)
        st = []
        impl = ref[i]
        if not impl.startswith("S "):
            parsed.append((pc, None))
            continue
        for si, seg in enumerate(impl.split(" # ")):
            if " ; " not in seg or si >= len(pc["stages"]):
                st.append(None)
                continue
            srcs, res = seg[2:].split(" ; ", 1)
            bsl = None
            if res.startswith("bs ") and " ; " in res:
                bsl, res = res.split(" ; ", 1)
            st.append((srcs, res, bsl))
            path, xfs = pc["stages"][si]
            if parse_image(srcs) is None:
                continue
            hd = "xf %s %d %s" % (["tj", "jt", "inj"][path], len(xfs), " ".join(" ".join(map(str, x[:13])) for x in xfs))
            dlines.append(hd + " | " + srcs)
            dmap.append((i, si))
        parsed.append((pc, st))
    model = {}
    if drv and dlines:
        rc, out, err = sh2([drv], input=("\n".join(dlines) + "\n").encode(), timeout=3000)
        ml = out.decode().split("\n")
        if rc != 0 or len(ml) < len(dlines):
            ctx.broken_tie("model-driver", "extracted model failed: rc=%d %s" % (rc, err[-200:]))
        else:
            for k, key in enumerate(dmap):
                model[key] = ml[k]

    disagree = tot["disagree"]
    validated = 0
    for i, (line, kind, meta) in enumerate(cases):
        pc, st = parsed[i]
        impl = ref[i]
        for fl in flavours[1:]:
            if outs[fl][i] != impl:
                ctx.violation("builds disagree (%s vs %s)" % (flavours[0], fl), {"case": line}, signature="build-disagree:" + kind)
        if st is None:
            ctx.count("invalid-source", 1, None)
            if not impl.startswith("srcerr"):
                ctx.broken_tie("harness", "unexpected harness output: " + impl[:100])
            continue
        first_src = None
        last_out = None
        complete = True
        for si, s in enumerate(st):
            if s is None:
                complete = False
                continue
            srcs, res, bsl = s
            path, xfs = pc["stages"][si]
            src = parse_image(srcs)
            if src is None:
                ctx.broken_tie("harness", "unparsable source dump: " + srcs[:80])
                complete = False
                continue
            if first_src is None:
                first_src = src
            fac = [(c["hs"], c["vs"]) for c in src["comps"]]
            bad = []          # property-level findings on the implementation's own output
            outs_i = []
            if res.startswith("ok"):
                outs_i = [parse_image(o) for o in res.split(" | ")[1:] if not o.startswith("pad")]
                if any(o is None for o in outs_i) or len(outs_i) != len(xfs):
                    bad.append(("readback", "destination JPEG could not be read back / warnings: " + res[:80]))
                    outs_i = []
            elif res.startswith("err Other"):
                bad.append(("failure", "unexpected failure: " + res[:120]))
            # slot re-use: refusing is only justified when some component's latched table left its slot
            reused = [ci for ci, c in enumerate(src["comps"]) if src["slots"][c["tq"] & 3] != c["q"]]
            if res == "err QuantReuse" and not reused:
                bad.append(("qtable", "refused as re-use of a quantization slot although every component's table is still in its slot"))
            # perfect flag
            want_np = [x for x in xfs if x[1] and imperfect(src["W"], src["H"], fac, src["cs"], x)]
            if res.startswith("ok") and want_np:
                bad.append(("perfect", "request flagged perfect succeeded although %s is imperfect for %dx%d" % (OPS[want_np[0][0]], src["W"], src["H"])))
            if res == "err NotPerfect" and not want_np:
                bad.append(("perfect", "perfect transform rejected as imperfect"))
            # quantisation tables and block relocation
            for x, o in zip(xfs, outs_i):
                op = x[0]
                for ci, dc in enumerate(o["comps"]):
                    sq = src["comps"][ci]["q"]          # the table latched for this component in the source
                    want = transpose64(sq) if op in TRANSPOSING else sq
                    if dc["q"] != want or o["slots"][dc["tq"] & 3] != want:
                        bad.append(("qtable", "component %d: the table of the output (slot %d) is not the table the source used for this "
                                    "component%s%s" % (ci, dc["tq"], " transposed" if op in TRANSPOSING else "",
                                                       "; its slot was redefined between the source's scans" if ci in reused else "")))
                m, xco, yco = dims_check(src, o, x)
                if op == 0 and x[4] and (o["W"] > src["W"] or o["H"] > src["H"]):
                    m = m or ext_check(src, o, x, xco, yco)
                else:
                    m = m or spec_check(src, o, op, x[3], xco, yco)
                if m:
                    bad.append(("blocks", m))
            # tj3Transform: a crop origin is acceptable iff it lies on the iMCU grid of the DESTINATION image
            if path == 0:
                std_l = is_std_layout(fac, src["cs"])
                mis = [x for x in xfs if x[4] and (x[9] % dst_imcu(fac, src["cs"], x)[0] or x[11] % dst_imcu(fac, src["cs"], x)[1])]
                if res == "err Align" and not mis:
                    bad.append(("align-refused", "crop refused as misaligned although its origin is on the %dx%d iMCU grid of the destination"
                                % dst_imcu(fac, src["cs"], [x for x in xfs if x[4]][0])))
                if res.startswith("ok") and mis:
                    bad.append(("align-accepted",
                                "crop with origin (%d,%d) off the %dx%d iMCU grid of the destination was accepted%s"
                                % ((mis[0][9], mis[0][11]) + dst_imcu(fac, src["cs"], mis[0]) +
                                   ("" if std_l else " (non-standard sampling factors %s that getSubsamp() maps to a TJSAMP level)" % fac,))))
            # which side of the model's case splits this stage is on (printed into the evidence)
            for x in xfs:
                iw_, ih_ = dst_imcu(fac, src["cs"], x)
                dw_, dh_ = (src["H"], src["W"]) if x[0] in TRANSPOSING else (src["W"], src["H"])
                tags = ["op=" + OPS[x[0]],
                        "dst-right-edge=" + ("partial" if dw_ % iw_ else "whole") + ("/<1iMCU" if dw_ < iw_ else ""),
                        "dst-bottom-edge=" + ("partial" if dh_ % ih_ else "whole") + ("/<1iMCU" if dh_ < ih_ else ""),
                        "trim=%d" % x[2], "perfect=%d" % x[1], "gray=%d" % x[3],
                        "crop=" + ("none" if not x[4] else "x0y0" if not (x[9] or x[11]) else
                                   ("aligned" if x[9] % iw_ == 0 and x[11] % ih_ == 0 else "unaligned") +
                                   ("+x" if x[9] else "") + ("+y" if x[11] else "")),
                        "ncomp=%d" % len(fac), "single-output-comp=%d" % (1 if (len(fac) == 1 or (x[3] and src["cs"] == 3 and len(fac) == 3)) else 0)]
                if x[0] == 1:
                    tags.append("hflip-routine=" + ("do_flip_h" if (path == 0 and len(xfs) > 1) or (x[4] and x[11] >= ih_) else "in-place"))
                if x[4] and x[10] == 2 or x[4] and x[12] == 2:
                    tags.append("crop-negative-offset")
                tags.append("result=" + (res.split()[1] if res.startswith("err ") else "ok"))
                for tg in tags:
                    tot["split"][tg] = tot["split"].get(tg, 0) + 1
            last_out = outs_i[0] if outs_i else None
            if not res.startswith("ok"):
                complete = False
            mres = model.get((i, si))
            mbs = None
            if mres is not None and mres.startswith("bs ") and " ; " in mres:
                mbs, mres = mres.split(" ; ", 1)
            if bsl is not None:
                vals = bsl.split()[1:]
                is_ext = any(x[0] == 0 and x[4] and ((x[6] and x[5] > src["W"]) or (x[8] and x[7] > src["H"])) for x in xfs)
                if res.startswith("ok") and any(v in ("0", "-1") for v in vals) and not is_ext:
                    bad.append(("bufsize", "tj3TransformBufSize() refuses (returns 0 for) a request that tj3Transform() accepts"))
                if mbs is not None and mbs != bsl:
                    ctx.broken_tie("correspondence:tj3TransformBufSize", "model and implementation differ on %s: model=%s impl=%s" % (line[:200], mbs, bsl))
            key = "%s:%s" % (["tj", "jt", "inj"][path], kind)
            for cls, b in bad:
                ctx.violation(b, {"case": line, "stage": si, "identity": meta.get("identity", False), "impl": res[:300]},
                              signature="%s:%s:%s" % (cls, ["tj", "jt", "inj"][path], OPS[xfs[0][0]]))
            if mres is not None:
                validated += 1
                if mres != res and not mres.startswith("err CropExt"):
                    disagree += 1
                    if disagree <= 3:
                        ctx.log("model/impl disagree, case", i, "stage", si, "\n  case :", line[:200], "\n  model:", mres[:160], "\n  impl :", res[:160])
                    if not bad:
                        ctx.broken_tie("correspondence:" + key, "model and implementation differ on: %s (stage %d) || model=%s || impl=%s"
                                       % (line[:300], si, mres[:120], res[:120]))
            ctx.count(key + ":" + (res.split()[1] if res.startswith("err ") and len(res.split()) > 1 else res[:2]), 1, zlib.crc32(res.encode()))
        # composition probe
        if meta.get("identity") and complete and first_src is not None and last_out is not None:
            same = (first_src["W"], first_src["H"], len(first_src["comps"])) == (last_out["W"], last_out["H"], len(last_out["comps"]))
            same = same and all(a["b"] == b["b"] and a["q"] == b["q"] and (a["wb"], a["hb"]) == (b["wb"], b["hb"]) and
                                (len(first_src["comps"]) == 1 or (a["hs"], a["vs"]) == (b["hs"], b["vs"]))
                                for a, b in zip(first_src["comps"], last_out["comps"]))
            ctx.count("composition-probe", 1, None)
            if not same:
                ops = [OPS[s[1][0][0]] for s in pc["stages"]]
                ctx.violation("composition %s (identity in D4) does not restore the source coefficients" % "∘".join(reversed(ops)),
                              {"case": line, "identity": True}, signature="compose:" + "-".join(ops))
        if (base + i) % 977 == 0:
            ctx.sample({"case": line[:300], "impl": impl[:200]})
    tot["validated"] += validated
    tot["disagree"] = disagree
