"""C07 -- lossy round-trip error is bounded by the quantisation steps.

1. translator   : gen_DctConst (FIX_* / CONST_BITS / PASS1_BITS of jfdctint.c + jidctint.c with the
                  decimal literal of each comment, the divisor expression of start_pass_fdctmgr,
                  CLAMP_DIVISOR, the 32767 clamp of jpeg_add_quant_table, RANGE_MASK ...)
2. proofs       : coq/props/C07.v (model/Quant.v, model/Dct.v, proofs/Quant*.v, proofs/DctProofs.v)
3. correspondence (unit level): extracted model (ml/C07_driver) vs harness/c07.c, which includes
   jcdctmgr.c and runs the REAL flss/compute_reciprocal/start_pass_fdctmgr/quantize/convsamp,
   jpeg_fdct_islow and jpeg_idct_islow (on a real decompress object) of the working tree, for the
   8-bit SIMD, 8-bit scalar and 12-bit builds, plus jsimd_quantize / jsimd_fdct_islow / the IDCT
   jddctmgr.c selected.  An exhaustive C sweep checks quantize() against round-half-up division.
4. property-level oracle (implementation only):
   unit  : per block |Q_k*8q_k - F_k| <= 4 q_k, block RMS <= bound(q), constant blocks within
           ceil(q_DC/16)+1;
   API   : compress+decompress gray / RGB-as-RGB / CMYK, 4:4:4, 8/12-bit, quality 1..100 and random
           tables (8- and 16-bit entries), odd dimensions; per-block RMS against the bound recomputed
           from the DQT segments parsed out of the stream by this script.
"""
import json
import math
import os
from vlib import core
from vlib.core import sh2

# c of the statement (slack per coefficient, sample units: covers the fixed-point error of jpeg_fdct_islow, measured
# every run: <= 1.5/8 for 8-bit and <= 10/8 for 12-bit data) and the fixed allowance (output rounding 0.5 + fixed-point
# error of jpeg_idct_islow), per data precision; see design/C07.md
C_COEF = {8: 0.25, 12: 2.0}
ALLOWANCE = {8: 1.0, 12: 2.0}

ZZ = [0, 1, 8, 16, 9, 2, 3, 10, 17, 24, 32, 25, 18, 11, 4, 5, 12, 19, 26, 33, 40, 48, 41, 34, 27, 20, 13, 6, 7, 14, 21, 28,
      35, 42, 49, 56, 57, 50, 43, 36, 29, 22, 15, 23, 30, 37, 44, 51, 58, 59, 52, 45, 38, 31, 39, 46, 53, 60, 61, 54, 47, 55, 62, 63]
COS = [[(math.sqrt(0.125) if u == 0 else 0.5) * math.cos((2 * x + 1) * u * math.pi / 16) for x in range(8)] for u in range(8)]


def fdct_float(blk):
    """orthonormal 8x8 DCT of 64 numbers (row-major)"""
    tmp = [[sum(COS[u][x] * blk[8 * y + x] for x in range(8)) for u in range(8)] for y in range(8)]
    return [sum(COS[v][y] * tmp[y][u] for y in range(8)) for v in range(8) for u in range(8)]


def idct_float(co):
    tmp = [[sum(COS[v][y] * co[8 * v + u] for v in range(8)) for u in range(8)] for y in range(8)]
    return [sum(COS[u][x] * tmp[y][u] for u in range(8)) for y in range(8) for x in range(8)]


def rdiv(x, d):
    m = (abs(x) + d // 2) // d
    return -m if x < 0 else m


def rms_bound(q, bits):
    return math.sqrt(sum((x / 2.0 + C_COEF[bits]) ** 2 for x in q) / 64.0) + ALLOWANCE[bits]


def parse_hdr(hx):
    """DQT tables (natural order) and SOF components of a stream prefix"""
    b = bytes.fromhex(hx)
    i, tabs, comps, prec = 2, {}, [], None
    while i + 3 < len(b) and b[i] == 0xFF and b[i + 1] != 0xDA:
        m = b[i + 1]
        L = (b[i + 2] << 8) | b[i + 3]
        seg = b[i + 4:i + 2 + L]
        if m == 0xDB:
            j = 0
            while j < len(seg):
                pq, tq = seg[j] >> 4, seg[j] & 15
                j += 1
                t = [0] * 64
                for k in range(64):
                    if pq:
                        v = (seg[j] << 8) | seg[j + 1]
                        j += 2
                    else:
                        v = seg[j]
                        j += 1
                    t[ZZ[k]] = v
                tabs[tq] = t
        elif m in (0xC0, 0xC1, 0xC2):
            prec = seg[0]
            for k in range(seg[5]):
                comps.append((seg[6 + 3 * k], seg[7 + 3 * k], seg[8 + 3 * k]))
        i += 2 + L
    return prec, tabs, comps


# ------------------------------------------------------------------ generators
def gen_qtable(rng, bits, kind=None):
    kind = kind or rng.choice(["low", "low", "mid", "big", "pow2", "edge", "mix"])
    if kind == "low":
        return [rng.range(1, 255) for _ in range(64)]
    if kind == "mid":
        return [rng.range(1, 2000) for _ in range(64)]
    if kind == "big":
        return [rng.range(1, 32767) for _ in range(64)]
    if kind == "pow2":
        return [1 << rng.range(0, 14) for _ in range(64)]
    if kind == "edge":
        return [rng.choice([1, 2, 255, 256, 4095, 4096, 8190, 8191, 8192, 8193, 8200, 16383, 16384, 24576, 32766, 32767]) for _ in range(64)]
    return [rng.choice([1, 2, 3, rng.range(1, 64), rng.range(1, 1000), rng.range(1, 32767)]) for _ in range(64)]


def gen_block(rng, bits):
    M = (1 << bits) - 1
    kind = rng.choice(["rand", "const", "extreme", "smooth", "edge", "constx"])
    if kind == "rand":
        return kind, [rng.range(0, M) for _ in range(64)]
    if kind == "const":
        return kind, [rng.range(0, M)] * 64
    if kind == "constx":
        return "const", [rng.choice([0, 1, M // 2, M // 2 + 1, M - 1, M])] * 64
    if kind == "extreme":
        p = rng.range(1, 8)
        ph = rng.below(2)
        return kind, [(M if ((x // p + y // p + ph) & 1) else 0) if rng.chance(15, 16) else rng.range(0, M) for y in range(8) for x in range(8)]
    if kind == "edge":
        a, b, k = rng.range(0, M), rng.range(0, M), rng.range(1, 7)
        vert = rng.chance(1, 2)
        return kind, [(a if (x if vert else y) < k else b) for y in range(8) for x in range(8)]
    a, sx, sy = rng.range(0, M), rng.range(-M // 16, M // 16), rng.range(-M // 16, M // 16)
    return kind, [max(0, min(M, a + x * sx + y * sy + rng.range(-2, 2))) for y in range(8) for x in range(8)]


def unit_cases(ctx, rng, bits):
    """(line, kind, meta) for one precision; identical for every flavour"""
    M = 1 << bits
    cases = []
    for lo in range(0, 4 * M, 512):
        cases.append(("rlt %d %d" % (lo, lo + 511), "rlt", (lo,)))
    nb = ctx.n(400, 5000)
    if bits == 8:
        ds = [1, 2, 3, 4, 5, 7, 8, 16, 24, 255, 256, 257, 32767, 32768, 32769, 65528, 65534, 65535]
        ds += [1 << k for k in range(16)] + [(1 << k) + 1 for k in range(1, 16)] + [(1 << k) - 1 for k in range(2, 17)]
        # the case split of compute_reciprocal: remainders fr of 2^r / d next to 0, d/2 and d (both DCTELEM widths)
        for W in (16, 32):
            for d in range(2, 65536):
                fr = (1 << (W + d.bit_length() - 1)) % d
                if abs(fr - d // 2) <= 1 or fr == 1 or fr == d - 1:
                    ds.append(d)
        ds += [rng.range(1, 65535) for _ in range(ctx.n(400, 6000))]
        ds += [8 * rng.range(1, 8191) for _ in range(ctx.n(200, 3000))]
        for d in ds:
            cases.append(("recip %d" % d, "recip", (d,)))
            xs = [0, 1, -1, 32767, -32767, d // 2, d // 2 + 1, d // 2 - 1, -(d // 2), d - 1, d, d + 1, 3 * d // 2, 3 * d // 2 + 1]
            xs += [rng.range(-32767, 32767) for _ in range(50)]
            xs += [k * d + d // 2 + rng.range(-1, 1) for k in range(-3, 4)]
            xs = [max(-32767, min(32767, x)) for x in xs]
            cases.append(("quant %d %s" % (d, " ".join(map(str, xs))), "quant", (d, xs)))
    for i in range(nb):
        q = gen_qtable(rng, bits)
        if rng.chance(1, 6):      # UINT16 entries beyond what jpeg_add_quant_table produces (direct quantval write)
            q = [x if rng.chance(3, 4) else rng.range(32768, 65535) for x in q]
        cases.append(("divs " + " ".join(map(str, q)), "divs", (q,)))
        kind, s = gen_block(rng, bits)
        cases.append(("fdct " + " ".join(str(x - M // 2) for x in s), "fdct", (s,)))
        qq = [min(x, 32767) for x in q]
        if kind == "const" and rng.chance(1, 2):
            qq = [rng.choice([1, 2, 15, 16, 17, 100, 255, 1000, 4000, rng.range(1, 32767)])] + qq[1:]
        cases.append(("rt " + " ".join(map(str, s)) + " | " + " ".join(map(str, qq)), "rt-" + kind, (s, qq)))
        # realistic coefficient block: float DCT of a block, quantised by a moderate table
        ql = [rng.range(1, 64) for _ in range(64)]
        _, s2 = gen_block(rng, bits)
        co = [rdiv(int(round(8 * f)), 8 * ql[k]) for k, f in enumerate(fdct_float([x - M // 2 for x in s2]))]
        cases.append(("idct " + " ".join(map(str, co)) + " | " + " ".join(map(str, ql)), "idct", (co, ql)))
        if i % 4 == 0:   # wild coefficients: model-vs-C only (SIMD saturates differently on out-of-range data)
            cw = [rng.range(-2048, 2047) if rng.chance(1, 3) else 0 for _ in range(64)]
            if rng.chance(1, 3):
                cw = [rng.range(-32768, 32767)] + [0] * 63
            qw = gen_qtable(rng, bits)
            cases.append(("idct " + " ".join(map(str, cw)) + " | " + " ".join(map(str, qw)), "idctwild", (cw, qw)))
    return cases


def api_case(rng, bits, force=None):
    nc = rng.choice([1, 3, 4])
    w, h = rng.range(1, 48), rng.range(1, 48)
    if rng.chance(1, 8):
        w, h = rng.choice([(8, 8), (16, 8), (1, 1), (7, 9), (64, 1), (1, 33), (17, 17)])
    M = (1 << bits) - 1
    kind = force if force is not None else rng.choice([0, 0, 1, 2, 2, 3, 4, 5, 5, 5])
    p1 = rng.choice([0, 1, M // 2, M, rng.range(0, M)]) if kind == 0 else rng.range(1, 9) if kind == 4 else rng.choice([0, 2, 10, 50])
    mode = rng.choice(["q", "q", "low", "mid", "big", "edge", "mix", "pow2", "direct"])
    L = [bits, nc, w, h, kind, p1, rng.below(1 << 40)]
    if mode == "q":
        L += [rng.range(1, 100), rng.below(2), 0, 0, -1, -1, -1, -1]
    else:
        nt = rng.range(1, min(4, nc))
        direct = 1 if mode == "direct" else 0
        L += [-1, rng.below(2), direct, nt]
        for _ in range(nt):
            q = gen_qtable(rng, bits, None if direct else mode)
            if direct:
                q = [x if rng.chance(3, 4) else rng.range(32768, 65535) for x in q]
            L += q
        L += [rng.below(nt) for _ in range(4)]
    return "api " + " ".join(map(str, L)), "api-%d-%d-k%d-%s" % (bits, nc, kind, mode)


def susp_case(rng, bits=8):
    """single-pass Huffman (8-bit, no optimize_coding) through a suspending destination manager:
    small buffers so that the buffer fills in the middle of an MCU row, random refusal schedule"""
    nc = rng.choice([1, 3, 3, 4])
    w, h = rng.range(17, 220), rng.range(8, 48)
    if rng.chance(1, 4):
        w, h = h, w
    kind = rng.choice([1, 2, 2, 3, 5, 5, 5, 4])
    p1 = rng.range(1, 9) if kind == 4 else rng.choice([0, 2, 10, 50])
    L = [bits, nc, w, h, kind, p1, rng.below(1 << 40)]
    if rng.chance(2, 3):
        L += [rng.choice([50, 75, 90, 95, 100, rng.range(1, 100)]), 0, 0, 0, -1, -1, -1, -1]
    else:
        nt = rng.range(1, min(4, nc))
        L += [-1, 0, 0, nt]
        for _ in range(nt):
            L += gen_qtable(rng, bits, rng.choice(["low", "low", "mix", "pow2"]))
        L += [rng.below(nt) for _ in range(4)]
    L += [rng.choice([64, 128, 256, 512, 700, 1024, 1500, 4096, rng.range(32, 3000)]), rng.choice([100, 100, 60, 30]), rng.below(1 << 40)]
    return "api " + " ".join(map(str, L)), "susp-%d-%d-k%d" % (bits, nc, kind)


def bimg_case(rng, bits):
    """multi-scan file (four scan scripts) decoded in buffered-image mode with the documented loops"""
    nc = rng.choice([1, 3, 3, 4])
    w, h = rng.range(9, 70), rng.range(9, 60)
    kind = rng.choice([1, 2, 2, 3, 5, 5, 5, 0])
    M = (1 << bits) - 1
    p1 = rng.range(0, M) if kind == 0 else rng.choice([0, 2, 10, 50])
    L = [bits, nc, w, h, kind, p1, rng.below(1 << 40)]
    if rng.chance(3, 4):
        L += [rng.choice([25, 50, 75, 85, 92, 100, rng.range(1, 100)]), 0, -1, -1, -1, -1]
    else:
        nt = rng.range(1, min(4, nc))
        L += [-1, nt]
        for _ in range(nt):
            L += gen_qtable(rng, bits, rng.choice(["low", "low", "mix", "pow2"]))
        L += [rng.below(nt) for _ in range(4)]
    script, mode = rng.below(4), rng.choice([0, 0, 1, 2])
    L += [script, mode, rng.below(2), rng.below(1 << 40)]
    return "bimg " + " ".join(map(str, L)), "bimg-%d-%d-s%d-m%d" % (bits, nc, script, mode)


def coef_case(rng, bits, i):
    """blocks whose only non-zero AC coefficients lie in one row / one column / the last row / the last column / nowhere /
    at one position: the support classes of the zero-AC shortcuts of the IDCT kernels (C, SSE2, AVX2)"""
    nc = rng.choice([1, 1, 3, 4])
    w, h = rng.choice([(64, 64), (72, 56), (61, 45), (128, 32)])
    fam = i % 6
    L = [bits, nc, w, h, 6, fam, rng.below(1 << 40)]
    if rng.chance(2, 3):
        L += [rng.choice([75, 85, 90, 95, 100]), rng.below(2), 0, 0, -1, -1, -1, -1]
    else:
        q = [rng.range(1, 24) for _ in range(64)]
        L += [-1, rng.below(2), 0, 1] + q + [0, 0, 0, 0]
    return "api " + " ".join(map(str, L)), "coef-%d-%d-f%d" % (bits, nc, fam)


def seq_case(rng, bits):
    """2..5 images on ONE compression object, quantisation tables changed in between (every kind of
    subset of the 64 entries, three ways of installing them), abbreviated streams, one decoder"""
    nc = rng.choice([1, 3, 4])
    ntu = rng.range(1, min(nc, 3))
    tq = [rng.below(ntu) for _ in range(4)]
    prelude = 1 if rng.chance(1, 5) else 0
    optimize = rng.below(2)
    nframes = rng.range(2, 5)
    cur = {}
    L = [bits, nc, prelude] + tq + [nframes]

    def new_table(t):
        old = cur.get(t)
        how = rng.choice(["last32", "last32", "first32", "one", "subset", "all", "same", "lastrow", "tail"])
        if old is None or how == "all":
            q = gen_qtable(rng, bits, rng.choice(["low", "low", "mid", "mix", "pow2"]))
        else:
            q = list(old)
            idx = {"last32": range(32, 64), "first32": range(0, 32), "one": [rng.below(64)], "lastrow": range(56, 64),
                   "tail": range(rng.range(33, 63), 64), "same": [],
                   "subset": [i for i in range(64) if rng.chance(1, 3)]}[how]
            for i in idx:
                q[i] = rng.choice([1, 2, 3, rng.range(1, 255), rng.range(1, 255), rng.range(1, 2000)])
        cur[t] = q
        return q, how

    hows = []
    for f in range(nframes):
        w, h = rng.range(1, 40), rng.range(1, 40)
        kind = rng.choice([0, 1, 2, 3, 5, 5])
        M = (1 << bits) - 1
        p1 = rng.range(0, M) if kind == 0 else rng.choice([0, 2, 10, 50])
        wat = 1 if (f == 0 and not prelude) else (1 if rng.chance(1, 4) else 0)
        ops = []
        if f == 0:
            for t in range(ntu):
                if t >= 2 or rng.chance(2, 3):
                    q, how = new_table(t)
                    ops.append([0, t] + q)
        else:
            for _ in range(rng.choice([0, 1, 1, 1, 2])):
                if rng.chance(1, 6) and ntu <= 2:
                    ops.append([1, rng.range(1, 100)])
                    cur.clear()
                else:
                    t = rng.below(ntu)
                    q, how = new_table(t)
                    hows.append(how)
                    m = rng.choice([0, 0, 2, 3])
                    ops.append([m, t] + q + ([100] if m == 3 else []))
        L += [w, h, kind, p1, rng.below(1 << 40), wat, optimize, len(ops)]
        for o in ops:
            L += o
    return "seq " + " ".join(map(str, L)), "seq-%d-%d-%s" % (bits, nc, "+".join(sorted(set(hows))) or "none")


# ------------------------------------------------------------------ oracles
def check_unit(ctx, fl, cfgline, bits, line, kind, meta, impl, eps):
    """property-level judgement of ONE implementation output line; returns a key for distinctness"""
    M = 1 << bits
    rep = {"stream": "unit", "flavour": fl, "bits": bits, "cfg": cfgline, "case": line, "impl": impl[:4000]}
    if kind == "quant":
        d, xs = meta
        parts = impl[5:].split("|")
        ys = [int(t) for t in parts[0].split()]
        exp = [rdiv(x, d) for x in xs]
        if ys != exp:
            bad = [(x, y, e) for x, y, e in zip(xs, ys, exp) if y != e][:3]
            ctx.violation("quantize() with compute_reciprocal(%d) is not round-half-up division: (x, got, expected) = %s" % (d, bad),
                          rep, signature="quantize-not-rdiv")
        if len(parts) > 1 and [int(t) for t in parts[1].split()] != exp:
            ctx.violation("jsimd_quantize with compute_reciprocal(%d) is not round-half-up division" % d, rep, signature="simd-quantize-not-rdiv")
        return ("quant", d)
    if kind == "rlt":
        lo = meta[0]
        vals = [int(t) for t in impl.split()[1:]]
        C = M // 2
        for k, v in enumerate(vals):
            i = lo + k
            x = i if i < 2 * M else i - 4 * M
            if v != max(0, min(M - 1, x + C)):
                ctx.violation("IDCT range-limit table entry %d is %d, not clamp(%d)" % (i, v, x + C), rep, signature="range-limit-table")
                break
        return ("rlt", lo)
    if kind.startswith("rt-"):
        s, q = meta
        f = impl[3:].split("|")
        if len(f) < 3:
            return None
        ws = [int(t) for t in f[0].split()]
        co = [int(t) for t in f[1].split()]
        out = [int(t) for t in f[2].split()]
        if len(ws) != 64 or len(co) != 64 or len(out) != 64:
            return None
        for k in range(64):
            if 2 * abs(co[k] * 8 * q[k] - ws[k]) > 8 * q[k]:
                ctx.violation("coefficient %d: quantize gave %d for F=%d with quantval %d: |Q*8q - F| > 4q" % (k, co[k], ws[k], q[k]),
                              rep, signature="coef-error-bound")
                break
        rms = math.sqrt(sum((a - b) ** 2 for a, b in zip(out, s)) / 64.0)
        if rms > rms_bound(q, bits):
            ctx.violation("block RMS error %.3f exceeds the quantisation bound %.3f" % (rms, rms_bound(q, bits)), rep, signature="block-rms:" + kind)
        if kind == "rt-const":
            dev = max(abs(a - b) for a, b in zip(out, s))
            if dev > -(-q[0] // 16) + 1:
                ctx.violation("constant block %d reproduced with deviation %d > ceil(%d/16)+1" % (s[0], dev, q[0]), rep, signature="const-block")
        # measured FDCT fixed-point error against 8 * orthonormal DCT (evidence for the allowance)
        fl_ = fdct_float([x - M // 2 for x in s])
        eps["fdct%d" % bits] = max(eps["fdct%d" % bits], max(abs(ws[k] - 8 * fl_[k]) for k in range(64)))
        eps["excess"] = max(eps["excess"], rms - math.sqrt(sum((x / 2.0) ** 2 for x in q) / 64.0))
        return ("rt", tuple(co[:16]), out[0])
    if kind == "idct":
        co, ql = meta
        f = impl[5:].split("|")
        if len(f) >= 2:
            out = [int(t) for t in f[1].split()]
            ex = idct_float([c * qq for c, qq in zip(co, ql)])
            if len(out) == 64:
                eps["idct%d" % bits] = max(eps["idct%d" % bits], max(abs(out[k] - max(0, min(M - 1, ex[k] + M // 2))) for k in range(64)))
        return ("idct", impl[-60:])
    return (kind, impl[:120])


def check_api(ctx, fl, line, kind, impl, eps):
    rep = {"stream": "api", "flavour": fl, "case": line, "impl": impl[:3000]}
    bimg = line.startswith("bimg ")
    if not impl.startswith("bimg ok " if bimg else "api ok "):
        ctx.violation("compress/decompress round trip failed: " + impl[:60], rep, signature="api-fail:" + impl[:12])
        return None
    parts = impl[8 if bimg else 7:].split(" |")
    hx, blk = parts[0], parts[1]
    nsusp = int(parts[2].split("=")[1]) if len(parts) > 2 and "susp=" in parts[2] else None
    prec, tabs, comps = parse_hdr(hx)
    f = line.split()
    const = f[5] == "0"
    worst = 0.0
    if bimg and len(parts) > 2 and "same=0" in parts[2]:
        ctx.violation("buffered-image mode: the final output pass differs from the one-shot decode of the same file (%s)" % parts[2].strip(),
                      rep, signature="bimg-final-differs")
    if nsusp is not None:
        eps["suspensions"] = eps.get("suspensions", 0) + nsusp
        eps["susp_cases_with_suspension"] = eps.get("susp_cases_with_suspension", 0) + (1 if nsusp else 0)
    for b in blk.split():
        c, bx, by, n, sse, ma = (int(t) for t in b.split(":"))
        q = tabs.get(comps[c][2])
        if q is None:
            ctx.violation("component %d refers to DQT %d which the stream does not define" % (c, comps[c][2]), rep, signature="api-no-dqt")
            return None
        rms = math.sqrt(sse / 64.0)
        bound = rms_bound(q, int(f[1]))
        worst = max(worst, rms / bound)
        eps["ratio"] = max(eps["ratio"], rms / bound)
        eps["excess"] = max(eps["excess"], rms - math.sqrt(sum((x / 2.0) ** 2 for x in q) / 64.0))
        if rms > bound:
            ctx.violation("%scomponent %d block (%d,%d): RMS error %.3f > bound %.3f from the DQT written" % (
                              "buffered-image final pass: " if bimg else "", c, bx, by, rms, bound),
                          rep, signature="bimg-block-rms" if bimg else "api-block-rms")
            break
        if const and ma > -(-q[0] // 16) + 1:
            ctx.violation("constant image: component %d block (%d,%d) deviates by %d > ceil(%d/16)+1" % (c, bx, by, ma, q[0]),
                          rep, signature="api-const")
            break
    return (kind, round(worst, 3), len(blk))


def check_seq(ctx, fl, line, kind, impl, eps):
    """every frame of a multi-image sequence: bound from the tables the DECODER holds at that point,
    i.e. the DQT segments of this and all earlier streams of the sequence, parsed here"""
    rep = {"stream": "api", "flavour": fl, "case": line, "impl": impl[:3000]}
    if not impl.startswith("seq ok "):
        ctx.violation("multi-image compress/decompress sequence failed: " + impl[:60], rep, signature="seq-fail:" + impl[:12])
        return None
    bits = int(line.split()[1])
    held, worst, nfr = {}, 0.0, 0
    for fi, fr in enumerate(impl[7:].split(";")):
        hx, blk = fr.split("|")
        prec, tabs, comps = parse_hdr(hx.strip())
        held.update(tabs)
        if not comps:
            continue            # tables-only prelude
        nfr += 1
        for b in blk.split():
            c, bx, by, n, sse, ma = (int(t) for t in b.split(":"))
            q = held.get(comps[c][2])
            if q is None:
                ctx.violation("frame %d: component %d uses DQT %d which no stream of the sequence defined" % (fi, c, comps[c][2]), rep, signature="seq-no-dqt")
                return None
            rms = math.sqrt(sse / 64.0)
            bound = rms_bound(q, bits)
            worst = max(worst, rms / bound)
            eps["ratio"] = max(eps["ratio"], rms / bound)
            if rms > bound:
                ctx.violation("image %d of a sequence on one compression object (%s DQT in its own stream): component %d block (%d,%d) "
                              "RMS error %.3f > bound %.3f from the table the decoder holds" % (
                                  fi, "with" if comps[c][2] in tabs else "no", c, bx, by, rms, bound), rep, signature="seq-block-rms")
                return (kind, "bad")
    return (kind, round(worst, 3), nfr)


# ------------------------------------------------------------------ driver
def run_stream(ctx, exe, lines, what, rep, prefix=(), env=None):
    """one result line per case line; a crash is reported and the stream resumes after the crashing case"""
    res, pos, restarts = [], 0, 0
    prefix = list(prefix)
    while pos < len(lines):
        chunk = prefix + lines[pos:]
        rc, out, err = sh2([exe], input=("\n".join(chunk) + "\n").encode(), timeout=1700, env=env)
        got = out.decode("utf-8", "replace").split("\n")
        if got and got[-1] == "":
            got.pop()
        got = got[len(prefix):]
        if rc == 0 and len(got) >= len(lines) - pos:
            res += got[:len(lines) - pos]
            break
        idx = pos + min(len(got), len(lines) - pos - 1)
        r = dict(rep)
        r.update({"case": lines[idx], "stderr": err[-1500:], "rc": rc})
        ctx.violation("implementation crashed/aborted (%s, rc=%d) on: %s" % (what, rc, lines[idx][:100]), r,
                      signature="crash:" + lines[idx].split()[0])
        res += got[:idx - pos] + ["<no output>"]
        pos = idx + 1
        restarts += 1
        if restarts > 25:
            res += ["<no output>"] * (len(lines) - pos)
            break
    return res


def run(ctx):
    rng = ctx.rng
    ctx.regen(["DctConst", "C07Ctl"])
    # proofs/DctAccInterval.v: the numeric fact matrix_accuracy_fact by Interval + closed corollaries (coqc only, see design)
    ctx.prove(extra_targets=["proofs/DctAccInterval.vo"])
    drv = ctx.model_driver()
    flavours = ["simd", "plain"] + (["asan"] if ctx.thorough() else [])
    eps = {"fdct8": 0.0, "idct8": 0.0, "fdct12": 0.0, "idct12": 0.0, "excess": -1e9, "ratio": 0.0}

    replay = json.load(open(ctx.replay)) if ctx.replay else None
    if replay and not replay.get("case"):
        return      # a broken-tie replay has no concrete case; regen/prove above re-evaluate it
    if replay:
        flavours = [replay.get("flavour", "simd")]

    # corpus
    cunit, capi = {8: [], 12: []}, []
    cdir = os.path.join(core.VERIF, "corpus", "C07")
    if os.path.isdir(cdir) and not replay:
        for fn in sorted(os.listdir(cdir)):
            for l in open(os.path.join(cdir, fn)):
                l = l.strip()
                if not l or l.startswith("#"):
                    continue
                if l.startswith(("api ", "seq ", "bimg ")):
                    capi.append((l, "corpus-" + l.split()[0]))
                else:
                    b, rest = l.split(" ", 1)
                    cunit[int(b)].append(rest)

    def unit_meta(l):
        w = l.split()
        if w[0] == "quant":
            return "quant", (int(w[1]), [int(x) for x in w[2:]])
        if w[0] == "rt":
            a, b = l[3:].split("|")
            s, q = [int(x) for x in a.split()], [int(x) for x in b.split()]
            return ("rt-const" if len(set(s)) == 1 else "rt-corpus"), (s, q)
        if w[0] == "rlt":
            return "rlt", (int(w[1]),)
        if w[0] == "idct":
            return "idctwild", None
        return w[0], None

    # ---------------- unit level ----------------
    model_cache = {}
    disagree = 0
    for bits in (8, 12):
        if replay and (replay.get("stream") != "unit" or replay.get("bits") != bits):
            continue
        if replay:
            k, m = unit_meta(replay["case"])
            cases = [(replay["case"], k, m)]
        else:
            cases = []
            for l in cunit[bits]:
                k, m = unit_meta(l)
                cases.append((l, "corpus-" + k if not k.startswith("rt-") and k not in ("quant", "rlt") else k, m))
            cases += unit_cases(ctx, rng.fork(), bits)
        for fl in flavours:
            exe = ctx.cc("c07_%d" % bits, ["c07.c"], fl, libs=("jpeg",), extra="-DBITS_IN_JSAMPLE=12" if bits == 12 else "")
            rc, out, err = sh2([exe, "--cfg"], timeout=60)
            cfgline = out.decode().strip()
            if rc != 0 or not cfgline.startswith("cfg "):
                ctx.broken_tie("harness-cfg", "harness does not report its configuration: rc=%d %s" % (rc, err[-200:]))
                continue
            lines = [c[0] for c in cases]
            sweeps = []
            if bits == 8 and not replay:
                if ctx.thorough():
                    sweeps = ["qsweep 1 65535 32767 1"]
                else:    # every divisor start_pass_fdctmgr can produce, plus one random residue class
                    sweeps = ["qsweep 8 65528 32767 8", "qsweep 65535 65535 32767 1", "qsweep %d 65535 32767 16" % rng.range(1, 16)]
            rep = {"stream": "unit", "flavour": fl, "bits": bits, "cfg": cfgline}
            res = run_stream(ctx, exe, lines + sweeps, "c07 unit harness %d-bit %s" % (bits, fl), rep, prefix=[cfgline])
            for sw, r in zip(sweeps, res[len(lines):]):
                ctx.count("qsweep", 1, (sw, fl))
                if r.startswith("qsweep BAD"):
                    ctx.violation("exhaustive sweep: quantize() differs from round-half-up division: " + r,
                                  dict(rep, case=sw, impl=r), signature="quantize-not-rdiv")
                elif r != "qsweep ok" and r != "<no output>":
                    ctx.violation("exhaustive sweep: jsimd_quantize differs from quantize(): " + r, dict(rep, case=sw, impl=r),
                                  signature="simd-quantize-differs")
            mres = None
            if drv:
                if cfgline not in model_cache:
                    rc, out, err = sh2([drv], input=("\n".join([cfgline] + lines) + "\n").encode(), timeout=1700)
                    m = out.decode().split("\n")[1:]
                    if rc != 0 or len(m) < len(lines):
                        ctx.broken_tie("model-driver", "extracted model failed: rc=%d %s" % (rc, err[-200:]))
                        m = None
                    model_cache[cfgline] = m
                mres = model_cache[cfgline]
            for i, (line, kind, meta) in enumerate(cases):
                impl = res[i]
                key = None
                if impl != "<no output>":
                    key = check_unit(ctx, fl, cfgline, bits, line, kind, meta, impl, eps)
                    if " simd=0" in impl and kind != "idctwild" and not kind.startswith("corpus-idct"):
                        ctx.broken_tie("simd-equals-c:" + kind.split("-")[0],
                                       "the SIMD routine the library selects differs from the C routine the model mirrors on: " + line[:300])
                if mres is not None and impl != "<no output>":
                    a, b = impl, mres[i]
                    if kind == "idctwild" or kind.startswith("corpus-idct"):
                        a, b = a.rsplit("|", 1)[0], b.rsplit("|", 1)[0]
                    else:
                        a = a.replace(" simd=0", " simd=1")
                    if a != b:
                        disagree += 1
                        if disagree <= 3:
                            ctx.log("model/impl disagree (%s %d-bit) on %s\n  case : %s\n  model: %s\n  impl : %s" % (
                                fl, bits, kind, line[:200], b[:200], a[:200]))
                            ctx.broken_tie("correspondence:" + kind.split("-")[0],
                                           "model and implementation differ (%s, %s): %s || model=%s || impl=%s" % (
                                               fl, cfgline, line[:300], b[:200], a[:200]))
                ctx.count("unit-%d-%s" % (bits, kind), 1, key)
                if i % 1499 == 0:
                    ctx.sample({"flavour": fl, "cfg": cfgline, "case": line[:300], "impl": impl[:300]})
            if mres is not None:
                ctx.cov["traces_validated_against_impl"] += len(cases)

    # ---------------- edge replication (expand_right_edge / expand_bottom_edge) ----------------
    if not replay or replay.get("stream") == "edge":
        erng = rng.fork()
        ecases, split = [], {"right:no-op(ic=oc)": 0, "right:ic=1": 0, "right:oc=rowlen": 0, "right:partial-rows": 0,
                             "bottom:no-op": 0, "bottom:ir=1": 0, "bottom:or=total": 0, "bottom:ncols<rowlen": 0}
        if replay:
            ecases = [replay["case"]]
        else:
            for i in range(ctx.n(400, 6000)):
                nr, rl = erng.range(1, 12), erng.range(1, 40)
                M = erng.choice([255, 255, 4095])
                smp = [erng.range(0, M) for _ in range(nr * rl)]
                if i % 2 == 0:
                    ic = erng.choice([1, rl, erng.range(1, rl)])
                    oc = erng.choice([ic, rl, erng.range(ic, rl), (ic + 7) // 8 * 8 if (ic + 7) // 8 * 8 <= rl else rl])
                    n = erng.choice([nr, erng.range(0, nr)])
                    split["right:no-op(ic=oc)"] += ic == oc
                    split["right:ic=1"] += ic == 1
                    split["right:oc=rowlen"] += oc == rl
                    split["right:partial-rows"] += n < nr
                    ecases.append("redge %d %d %d %d %d | %s" % (nr, rl, n, ic, oc, " ".join(map(str, smp))))
                else:
                    ir = erng.choice([1, nr, erng.range(1, nr)])
                    orr = erng.choice([ir, nr, erng.range(ir, nr)])
                    nc = erng.choice([rl, erng.range(0, rl)])
                    split["bottom:no-op"] += ir == orr
                    split["bottom:ir=1"] += ir == 1
                    split["bottom:or=total"] += orr == nr
                    split["bottom:ncols<rowlen"] += nc < rl
                    ecases.append("bedge %d %d %d %d %d | %s" % (nr, rl, nc, ir, orr, " ".join(map(str, smp))))
            ctx.cov["edge_case_split"] = split
        mres = None
        if drv and ecases:
            rc, out, err = sh2([drv], input=("\n".join(ecases) + "\n").encode(), timeout=600)
            mres = out.decode().split("\n")
            if rc != 0 or len(mres) < len(ecases):
                ctx.broken_tie("model-driver", "extracted edge model failed: rc=%d %s" % (rc, err[-200:]))
                mres = None
        for fl in flavours:
            for bits in (8, 12):
                exe = ctx.cc("c07_edge_%d" % bits, ["c07_edge.c"], fl, libs=("jpeg",), extra="-DBITS_IN_JSAMPLE=12" if bits == 12 else "")
                mine = [(i, l) for i, l in enumerate(ecases) if bits == 12 or max(int(t) for t in l.split("|")[1].split()) <= 255]
                res = run_stream(ctx, exe, [l for _, l in mine], "c07 edge harness %d-bit %s" % (bits, fl), {"stream": "edge", "flavour": fl})
                for (i, l), impl in zip(mine, res):
                    if impl == "<no output>":
                        continue
                    hd = [int(t) for t in l.split("|")[0].split()[1:]]
                    smp = [int(t) for t in l.split("|")[1].split()]
                    nr, rl, a2, a3, a4 = hd
                    rows = [smp[r * rl:(r + 1) * rl] for r in range(nr)]
                    if l.startswith("redge"):
                        exp = [[(row[a3 - 1] if (r < a2 and a3 <= c < a4) else row[c]) for c in range(rl)] for r, row in enumerate(rows)]
                    else:
                        exp = [[(rows[a3 - 1][c] if (a3 <= r < a4 and c < a2) else rows[r][c]) for c in range(rl)] for r in range(nr)]
                    got = [int(t) for t in impl.split()[1:]]
                    if got != [v for row in exp for v in row]:
                        ctx.violation("edge replication does not copy the last real column/row (or touches a real sample): " + l[:80],
                                      {"stream": "edge", "flavour": fl, "case": l, "impl": impl[:2000]}, signature="edge-" + l[:5])
                    if mres is not None and mres[i] != impl:
                        disagree += 1
                        if disagree <= 3:
                            ctx.broken_tie("correspondence:edge", "model and implementation differ (%s %d-bit): %s || model=%s || impl=%s" % (
                                fl, bits, l[:200], mres[i][:200], impl[:200]))
                    ctx.count("edge-%d-%s" % (bits, l[:5]), 1, (l[:5], hd[2], hd[3], hd[4], impl[-40:]))
        if mres is not None:
            ctx.cov["traces_validated_against_impl"] += len(ecases)

    # ---------------- API level ----------------
    if not replay or replay.get("stream") == "api":
        ccases = []
        if replay:
            acases = [(replay["case"], "replay")]
        else:
            arng = rng.fork()
            acases = list(capi)
            na = ctx.n(1600, 20000)
            for i in range(na):
                bits = 8 if i % 2 == 0 else 12
                acases.append(api_case(arng, bits, force=0 if i % 5 == 0 else None))
            for i in range(ctx.n(260, 4000)):
                acases.append(susp_case(arng))
            for i in range(ctx.n(300, 4000)):
                acases.append(seq_case(arng, 12 if i % 4 == 3 else 8))
            for i in range(ctx.n(360, 5000)):
                acases.append(bimg_case(arng, 12 if i % 4 == 3 else 8))
            ccases = [coef_case(arng, 12 if i % 7 == 6 else 8, i) for i in range(ctx.n(180, 3000))]
        for fl in flavours:
            exe = ctx.cc("c07_api", ["c07_api.c"], fl, libs=("jpeg",))
            # coefficient-support-aimed blocks at every SIMD dispatch level of this build
            levels = [("default", {}), ("sse2", {"JSIMD_FORCESSE2": "1"}), ("none", {"JSIMD_FORCENONE": "1"})] if fl == "simd" else [("default", {})]
            if replay and replay.get("env") is not None:
                levels = [("replay", replay["env"])]
            per_level = {}
            for lname, env in levels:
                if not ccases and not (replay and replay.get("env") is not None):
                    break
                lines = [c[0] for c in ccases] if ccases else [replay["case"]]
                kinds = [c[1] for c in ccases] if ccases else ["replay"]
                rs = run_stream(ctx, exe, lines, "c07 API harness %s SIMD level %s" % (fl, lname),
                                {"stream": "api", "flavour": fl, "env": env}, env=env)
                per_level[lname] = rs
                for line, kind, impl in zip(lines, kinds, rs):
                    key = None
                    if impl != "<no output>":
                        nv = len(ctx.violations)
                        key = check_api(ctx, fl, line, kind, impl, eps)
                        if len(ctx.violations) > nv:      # make the replay reproduce the dispatch level
                            try:
                                rp = ctx.violations[-1][0]
                                ro = json.load(open(rp)); ro["env"] = env; ro["simd_level"] = lname
                                json.dump(ro, open(rp, "w"), indent=1)
                            except Exception:
                                pass
                    ctx.count(kind + "-" + lname, 1, key)
            if len(per_level) > 1:
                ref = per_level["none"]
                for lname, rs in per_level.items():
                    for (line, kind), a, b in zip(ccases, rs, ref):
                        if a != b and "<no output>" not in (a, b):
                            ctx.violation("accurate integer IDCT/FDCT path: SIMD dispatch level %s decodes differently from the C code on: %s" % (lname, line[:80]),
                                          {"stream": "api", "flavour": fl, "case": line, "env": dict(levels)[lname], "impl": a[:1500], "c_code": b[:1500]},
                                          signature="dispatch-levels-differ:" + lname)
                            break
            if replay and replay.get("env") is not None:
                continue
            res = run_stream(ctx, exe, [c[0] for c in acases], "c07 API harness " + fl, {"stream": "api", "flavour": fl})
            for (line, kind), impl in zip(acases, res):
                key = None
                if impl != "<no output>":
                    key = check_seq(ctx, fl, line, kind, impl, eps) if line.startswith("seq ") else check_api(ctx, fl, line, kind, impl, eps)
                ctx.count(kind.rsplit("-", 1)[0] if kind.startswith(("api-", "seq-")) else kind, 1, key)
            if acases:
                ctx.sample({"flavour": fl, "case": acases[-1][0][:200], "impl": res[-1][:200]})

    ctx.cov["model_impl_disagreements"] = disagree
    ctx.cov["measured"] = {"max_abs_fdct_islow_minus_8xDCT_8bit": round(eps["fdct8"], 4),
                           "max_abs_fdct_islow_minus_8xDCT_12bit": round(eps["fdct12"], 4),
                           "max_abs_idct_islow_minus_IDCT_samples_8bit": round(eps["idct8"], 4),
                           "max_abs_idct_islow_minus_IDCT_samples_12bit": round(eps["idct12"], 4),
                           "max_block_rms_over_bound": round(eps["ratio"], 4),
                           "suspending_destination_cases_that_suspended": eps.get("susp_cases_with_suspension", 0),
                           "output_suspensions_total": eps.get("suspensions", 0),
                           "max_block_rms_minus_sqrt_sum_(q/2)^2/64": round(eps["excess"], 4),
                           "c": C_COEF, "allowance": ALLOWANCE}
    ctx.cov["rule"] = ("unit: every divisor class of compute_reciprocal (powers of two and neighbours, 8q, random), coefficient values at "
                       "the rounding points k*d+d/2, quantisation tables incl. 8192/8200/16384/32767 and UINT16 entries, sample blocks "
                       "(random, constant, extreme checkers, edges, ramps), realistic and wild coefficient blocks, the whole range-limit "
                       "table, an exhaustive C sweep divisor x coefficient; API: gray/RGB/CMYK 4:4:4, 8/12-bit, quality 1..100, tables with "
                       "8/16-bit entries, sizes 1..48 not multiples of 8, six image families; distinct = distinct implementation output")
    ctx.assume += ["correspondence is differential testing of the hand model against the real functions; it supports the tie, not the theorems",
                   "per-block RMS bound of the statement evaluated with c = %s and allowance = %s sample levels per precision (see design/C07.md)" % (C_COEF, ALLOWANCE),
                   "edge blocks: the squared error is summed over the samples that exist and divided by 64"]
    ctx.assume.append("matrix_accuracy_fact (64 inequalities |Mz/2^13 - sqrt 8 * dctA| <= 3/16384) is proved by the Interval tactic in "
                      "proofs/DctAccInterval.v, compiled by coqc on every run but not re-checked by coqchk; C07_fdct_accuracy and "
                      "C07_rms_bound_forward_partial take it as an explicit hypothesis")
    ctx.trusted += ["tools/gen_DctConst.py (regular-expression reader of jfdctint.c, jidctint.c, jcdctmgr.c, jcparam.c, jdct.h)",
                    "harness/c07.c, harness/c07_api.c and the DQT/SOF parser + float DCT of checks/C07.py (oracle side)"]
