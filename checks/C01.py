"""C01 -- decoding arbitrary bytes is memory-safe, terminating and error-reporting.

1. translator   : gen_Limits (limits, marker codes, padded jpeg_natural_order, declared array
                  sizes, presence of every guard the model mirrors)
2. proofs       : coq/props/C01.v (model/DMarkers.v, proofs/DMarkersProofs.v)
3. correspondence: extracted model (ml/C01_driver) vs harness/c01.c on the ASan+UBSan build:
                  jpeg_read_header + the part of jpeg_start_decompress that sets up the first
                  scan, same canonical line (error class, SOF/SOS/DHT/DQT/DAC/DRI/APPn fields,
                  blocks_in_MCU, MCU_membership, warning count, bytes consumed, fake-EOI count);
                  harness/c01blk.c: real decode_mcu_slow of one block vs the block model.
4. oracle       : every stream also goes through tj3DecompressHeader and one of
                  tj3Decompress8/12/16 (pixel format x scaling x crop x fast flags),
                  tj3DecompressToYUV8, tj3Transform, libjpeg buffered-image mode, colour
                  quantisation, skip/crop scan lines on the sanitizer build: no report, no crash,
                  CPU time within a cap proportional to input length + declared area x scan limit,
                  success only with sane dimensions, two runs into differently pre-filled
                  buffers agree on everything reported as produced.
"""
import json
import os
import re

from vlib import core
from vlib.core import sh2

SCANLIMIT = 6
MAXPIXELS = 1 << 18
ENV = {"ASAN_OPTIONS": "detect_leaks=0:abort_on_error=0:allocator_may_return_null=1:malloc_limit_mb=1024",
       "UBSAN_OPTIONS": "print_stacktrace=1:halt_on_error=1"}

# ------------------------------------------------------------------ JPEG structure helpers
SOFS = (0xC0, 0xC1, 0xC2, 0xC3, 0xC9, 0xCA, 0xCB)


def segments(b):
    """[(offset, marker, seglen_including_marker)] of the marker segments; entropy-coded data
    is reported as (offset, -1, n)."""
    out, i, n = [], 0, len(b)
    if n < 2 or b[0] != 0xFF or b[1] != 0xD8:
        return out
    out.append((0, 0xD8, 2))
    i = 2
    while i + 1 < n:
        if b[i] != 0xFF:
            j = i
            while j + 1 < n and not (b[j] == 0xFF and b[j + 1] not in (0, 0xFF) and not 0xD0 <= b[j + 1] <= 0xD7):
                j += 1
            if j + 1 >= n:
                j = n
            out.append((i, -1, j - i))
            i = j
            continue
        m = b[i + 1]
        if m == 0xFF:
            i += 1
            continue
        if m == 0xD9 or m == 0x01 or 0xD0 <= m <= 0xD7:
            out.append((i, m, 2))
            i += 2
            continue
        if i + 3 >= n:
            break
        ln = (b[i + 2] << 8) | b[i + 3]
        out.append((i, m, min(2 + ln, n - i)))
        i += 2 + ln
    return out


def seg(marker, payload):
    ln = len(payload) + 2
    return bytes([0xFF, marker, (ln >> 8) & 255, ln & 255]) + bytes(payload)


INTERESTING = [0, 1, 2, 3, 4, 5, 7, 8, 9, 10, 11, 12, 13, 14, 15, 16, 17, 0x1F, 0x20, 0x3F, 0x40, 0x41, 0x7F, 0x80, 0xC0, 0xF0, 0xFE, 0xFF]


def mutate_fields(rng, b, segs):
    """single-field mutation at a marker's length / index / count / precision / dimension field"""
    b = bytearray(b)
    cands = [s for s in segs if s[1] in SOFS + (0xC4, 0xDB, 0xDA, 0xDD, 0xCC, 0xE0, 0xEE, 0xFE, 0xE1, 0xE2) and s[2] >= 4]
    if not cands:
        return bytes(b), "none"
    off, m, ln = rng.choice(cands)
    p = off + 4            # first payload byte
    what = "len"
    r = rng.below(10)

    def setb(pos, v):
        if pos < len(b):
            b[pos] = v & 255
    if r < 2:              # length field
        cur = (b[off + 2] << 8) | b[off + 3]
        v = rng.choice([0, 1, 2, 3, cur - 1, cur + 1, cur - 2, cur + 2, cur + 16, cur + 17, cur + 64, cur + 65, 0xFFFF, 0x8000, rng.below(65536)]) & 0xFFFF
        setb(off + 2, v >> 8)
        setb(off + 3, v)
        return bytes(b), "len"
    if m in SOFS and r == 2:
        # process confusion: same segment under another SOFn code
        setb(off + 1, rng.choice([0xC0, 0xC1, 0xC2, 0xC3, 0xC9, 0xCA, 0xCB, 0xCB, 0xC5, 0xC7, 0xCD, 0xCF, 0xC8]))
        return bytes(b), "sofn"
    if m in SOFS:
        k = rng.below(6)
        if k == 0:
            setb(p, rng.choice([0, 1, 2, 7, 8, 9, 11, 12, 13, 16, 17, 255]))
            what = "prec"
        elif k == 1:
            v = rng.choice([0, 1, 7, 8, 9, 16, 17, 255, 256, 65499, 65500, 65501, 65535, rng.below(65536), rng.range(1, 600)])
            setb(p + 1, v >> 8)
            setb(p + 2, v)
            what = "height"
        elif k == 2:
            v = rng.choice([0, 1, 7, 8, 9, 16, 17, 255, 256, 65499, 65500, 65501, 65535, rng.below(65536), rng.range(1, 600)])
            setb(p + 3, v >> 8)
            setb(p + 4, v)
            what = "width"
        elif k == 3:
            setb(p + 5, rng.choice([0, 1, 2, 3, 4, 5, 9, 10, 11, 255]))
            what = "nc"
        else:
            nc = b[p + 5] if p + 5 < len(b) else 0
            ci = rng.below(max(nc, 1))
            f = rng.below(3)
            v = rng.choice(INTERESTING) if f != 1 else rng.choice([0x00, 0x01, 0x10, 0x11, 0x12, 0x21, 0x22, 0x14, 0x41, 0x44, 0x15, 0x51, 0x33, 0x34, 0x43, 0xFF, 0x24, 0x42, 0x13, 0x31])
            setb(p + 6 + 3 * ci + f, v)
            what = "comp-" + "id hv tq".split()[f]
    elif m == 0xDA:
        ns = b[p] if p < len(b) else 0
        k = rng.below(5)
        if k == 0:
            setb(p, rng.choice([0, 1, 2, 3, 4, 5, 255]))
            what = "ns"
        elif k == 1 and ns:
            setb(p + 1 + 2 * rng.below(ns), rng.choice(INTERESTING))
            what = "cs"
        elif k == 2 and ns:
            setb(p + 2 + 2 * rng.below(ns), rng.choice([0x00, 0x01, 0x10, 0x11, 0x22, 0x33, 0x34, 0x43, 0x40, 0x04, 0x0F, 0xF0, 0xFF, 0x13, 0x31]))
            what = "tdta"
        else:
            setb(p + 1 + 2 * ns + rng.below(3), rng.choice(INTERESTING + [62, 63, 64, 0x0D, 0x0E, 0xD0, 0xE0, 0x21, 0x10, 0x32]))
            what = "ss-se-ahal"
    elif m == 0xC4:
        k = rng.below(4)
        if k == 0:
            setb(p, rng.choice([0, 1, 2, 3, 4, 5, 15, 0x10, 0x11, 0x13, 0x14, 0x15, 0x1F, 0x20, 0x30, 0xFF]))
            what = "tcth"
        elif k == 1:
            setb(p + 1 + rng.below(16), rng.choice([0, 1, 2, 3, 16, 17, 100, 200, 255]))
            what = "count"
        else:
            setb(p + 17 + rng.below(max(ln - 21, 1)), rng.choice(INTERESTING))
            what = "huffval"
    elif m == 0xDB:
        if rng.chance(1, 2):
            setb(p, rng.choice([0, 1, 2, 3, 4, 5, 15, 0x10, 0x11, 0x13, 0x14, 0x20, 0xF0, 0xFF]))
            what = "pqtq"
        else:
            setb(p + 1 + rng.below(64), rng.choice([0, 1, 255]))
            what = "qval"
    elif m == 0xDD:
        v = rng.choice([0, 1, 2, 3, 7, 8, 65535, rng.below(65536)])
        setb(p, v >> 8)
        setb(p + 1, v)
        what = "ri"
    elif m == 0xCC:
        setb(p + rng.below(max(ln - 4, 1)), rng.choice(INTERESTING))
        what = "dac"
    else:
        setb(p + rng.below(max(min(ln - 4, 16), 1)), rng.choice(INTERESTING))
        what = "app"
    return bytes(b), what


def mutate_struct(rng, b, segs):
    """duplication / reordering / deletion / insertion of whole segments, fill bytes, garbage"""
    ms = [s for s in segs if s[1] not in (0xD8, -1)]
    if not ms:
        return b, "none"
    r = rng.below(8)
    pieces = [b[o:o + n] for (o, m, n) in segs]
    tail = b[segs[-1][0] + segs[-1][2]:]
    idx = [i for i, s in enumerate(segs) if s[1] not in (0xD8, -1)]
    if r == 0:
        i = rng.choice(idx)
        pieces.insert(i, pieces[i])
        what = "dup"
    elif r == 1 and len(idx) >= 2:
        i, j = rng.choice(idx), rng.choice(idx)
        pieces[i], pieces[j] = pieces[j], pieces[i]
        what = "swap"
    elif r == 2:
        i = rng.choice(idx)
        what = "del"
        del pieces[i]
    elif r == 3:
        i = rng.choice(idx)
        pieces.insert(i, bytes([0xFF] * rng.range(1, 5)))
        what = "fill"
    elif r == 4:
        i = rng.choice(idx)
        pieces.insert(i, rng.choice([b"\x00", b"\x12\x34", b"\xff\x00", b"\xff\x00\xff\x00\x55", rng.bytes(rng.range(1, 9))]))
        what = "garbage"
    elif r == 5:
        i = rng.choice(idx)
        extra = rng.choice([b"\xff\xd8", b"\xff\xd9", b"\xff\x01", b"\xff\xd0", b"\xff\xd7", b"\xff\xdc\x00\x04\x00\x10", b"\xff\xde\x00\x02",
                            b"\xff\xc8\x00\x02", b"\xff\xc5\x00\x02", b"\xff\xf0\x00\x02", b"\xff\x02", b"\xff\xbf",
                            seg(0xDD, [0, rng.below(9)]), seg(0xCC, [rng.below(40), rng.below(256)]),
                            seg(0xFE, rng.bytes(rng.below(20))), seg(0xE0, b"JFIF\0" + bytes([rng.choice([1, 2]), 2, 1, 0, 72, 0, 72, 0, 0])),
                            seg(0xEE, b"Adobe\0\x64\0\0\0\0" + bytes([rng.choice([0, 1, 2, 3, 255])])), seg(0xEE, b"Adobe"), seg(0xE0, b"JFXX\0\x10"),
                            bytes([0xFF, 0xE5, 0xFF, 0xFF]), bytes([0xFF, 0xFE, 0x00, 0x00]), bytes([0xFF, 0xE1, 0x00, 0x01])])
        pieces.insert(i, extra)
        what = "insert"
    elif r == 6:
        # move a table segment behind the first SOS
        sos = [i for i in idx if segs[i][1] == 0xDA]
        tabs = [i for i in idx if segs[i][1] in (0xC4, 0xDB) and (not sos or i < sos[0])]
        if sos and tabs:
            i = rng.choice(tabs)
            p = pieces[i]
            pieces.insert(sos[0] + 1, p)
            del pieces[i]
            what = "table-after-sos"
        else:
            what = "none"
    else:
        i = rng.choice(idx)
        j = rng.choice(idx)
        pieces.insert(j, pieces[i])
        what = "copy"
    return b"".join(pieces) + tail, what


def truncations(rng, b, segs, k):
    """truncation at every marker boundary (rotating) and at random offsets"""
    cuts = sorted(set([o for (o, m, n) in segs] + [o + 2 for (o, m, n) in segs if m != -1] + [o + 4 for (o, m, n) in segs if m not in (-1, 0xD8, 0xD9)]))
    out = []
    for i in range(k):
        if cuts and rng.chance(2, 3):
            c = rng.choice(cuts)
            out.append((b[:c], "trunc-boundary"))
        else:
            c = rng.below(len(b) + 1)
            out.append((b[:c], "trunc-random"))
    return out


# --------------------------------------------------- grammar-based header generator
STD_DC_BITS = [0, 1, 5, 1, 1, 1, 1, 1, 1, 0, 0, 0, 0, 0, 0, 0]
STD_DC_VALS = list(range(12))


def gen_dht(rng):
    out = bytearray()
    for _ in range(rng.choice([1, 1, 1, 2, 3])):
        tc = rng.choice([0, 0, 1, 1, rng.below(16)])
        th = rng.choice([0, 1, 0, 1, 2, 3, rng.below(16)])
        mode = rng.below(10)
        if mode < 5:
            bits, vals = list(STD_DC_BITS), list(STD_DC_VALS)
            if tc == 1 and rng.chance(1, 2):
                bits = [0, 2, 1, 3, 3, 2, 4, 3, 5, 5, 4, 4, 0, 0, 1, 125]
                vals = [rng.below(256) for _ in range(162)]
        elif mode < 7:        # dense table: 255 codes of length 8 + 1 of length 9
            bits = [0] * 16
            bits[7], bits[8] = 255, 1
            vals = rng.shuffle(range(256))
        elif mode == 7:       # count > 256 or > remaining
            bits = [rng.choice([0, 16, 17, 255]) for _ in range(16)]
            vals = [rng.below(256) for _ in range(min(sum(bits), rng.choice([0, 3, 256, 300])))]
        elif mode == 8:       # Kraft violation / all ones
            bits = [rng.choice([0, 1, 2, 3]) for _ in range(16)]
            vals = [rng.below(16 if tc == 0 else 256) for _ in range(sum(bits))]
        else:                 # DC symbol range boundary 15/16/17
            bits = list(STD_DC_BITS)
            vals = list(STD_DC_VALS)
            vals[rng.below(12)] = rng.choice([15, 16, 17, 255])
        out += bytes([(tc << 4 | th) & 255]) + bytes(b & 255 for b in bits) + bytes(v & 255 for v in vals)
    if rng.chance(1, 12):
        out += rng.bytes(rng.range(1, 17))
    return seg(0xC4, out)


def gen_dqt(rng):
    out = bytearray()
    for _ in range(rng.choice([1, 1, 2, 4])):
        pq = rng.choice([0, 0, 0, 1, 1, rng.below(16)])
        tq = rng.choice([0, 1, 2, 3, 0, 1, rng.below(16)])
        out.append((pq << 4 | tq) & 255)
        out += rng.bytes(128 if pq else 64)
    if rng.chance(1, 10):
        out = out[:rng.below(len(out) + 1)]
    return seg(0xDB, out)


def gen_sof(rng):
    m = rng.choice([0xC0, 0xC0, 0xC1, 0xC2, 0xC3, 0xC9, 0xCA, 0xCB, 0xC0, 0xC2, rng.choice([0xC5, 0xC6, 0xC7, 0xC8, 0xCD, 0xCE, 0xCF])])
    lossless = m in (0xC3, 0xCB)
    prec = rng.choice([8, 8, 8, 12, rng.range(2, 16) if lossless else rng.choice([8, 12, 7, 9, 16, 0])])
    nc = rng.choice([1, 3, 3, 3, 4, 2, rng.range(0, 12), rng.choice([10, 11, 255])])
    w = rng.choice([rng.range(1, 64), rng.range(1, 64), rng.range(1, 700), 0, 65500, 65501, 65535])
    h = rng.choice([rng.range(1, 64), rng.range(1, 64), rng.range(1, 700), 0, 65500, 65501, 65535])
    ids = rng.choice([[1, 2, 3, 4], [0, 1, 2, 3], [82, 71, 66, 65], [1, 1, 2, 2], [5, 5, 5, 5], [rng.below(256) for _ in range(4)]])
    comps = bytearray()
    for i in range(nc):
        hv = rng.choice([0x11, 0x11, 0x11, 0x22, 0x21, 0x12, 0x41, 0x14, 0x44, 0x42, 0x24, 0x31, 0x13, 0x33, 0x00, 0x10, 0x01, 0x51, 0x15, rng.below(256)])
        comps += bytes([ids[i % 4] if i < 4 else (i + 1) & 255, hv, rng.choice([0, 1, 0, 1, 2, 3, 4, 255])])
    body = bytes([prec & 255, h >> 8, h & 255, w >> 8, w & 255, nc & 255]) + bytes(comps)
    s = bytearray(seg(m, body))
    if rng.chance(1, 10):
        v = (len(body) + 2 + rng.choice([-3, -1, 1, 3])) & 0xFFFF
        s[2], s[3] = v >> 8, v & 255
    return bytes(s), ids, nc, m


def gen_sos(rng, ids, nc, sofm):
    ns = rng.choice([min(max(nc, 1), 4), min(max(nc, 1), 4), 1, 1, 2, 3, 4, rng.choice([0, 5])])
    body = bytearray([ns & 255])
    order = list(range(min(nc, 4))) if nc else [0]
    if rng.chance(1, 5):
        order = rng.shuffle(order)
    for i in range(ns):
        cid = ids[order[i % len(order)] % 4] if rng.chance(9, 10) else rng.below(256)
        body += bytes([cid, rng.choice([0x00, 0x11, 0x00, 0x11, 0x01, 0x10, 0x22, 0x33, 0x34, 0x43, 0x40, 0xF0, 0x0F, 0xFF])])
    if sofm in (0xC2, 0xCA):
        ss, se, ahal = rng.choice([(0, 0, 0x01), (0, 0, 0x00), (1, 5, 0x02), (6, 63, 0x02), (1, 63, 0x21), (0, 0, 0x10), (0, 1, 0), (5, 3, 0), (1, 64, 0), (1, 63, 0x0E), (0, 0, 0x32), (1, 63, 0x31)])
    elif sofm in (0xC3, 0xCB):
        ss, se, ahal = rng.choice([(1, 0, 0), (4, 0, 0), (7, 0, 1), (0, 0, 0), (8, 0, 0), (1, 1, 0), (1, 0, 0x10), (1, 0, 0x0F), (2, 0, 7), (3, 0, 8)])
    else:
        ss, se, ahal = rng.choice([(0, 63, 0), (0, 63, 0), (0, 63, 0), (0, 0, 0), (1, 63, 0), (0, 63, 1)])
    body += bytes([ss, se, ahal])
    s = bytearray(seg(0xDA, body))
    if rng.chance(1, 12):
        v = (len(body) + 2 + rng.choice([-2, -1, 1, 2])) & 0xFFFF
        s[2], s[3] = v >> 8, v & 255
    return bytes(s)


def gen_grammar(rng):
    out = bytearray(b"\xff\xd8") if rng.chance(19, 20) else bytearray(rng.choice([b"", b"\xff", b"\xd8\xff", b"\xff\xd9", b"\x00\xff\xd8"]))
    ids, nc, sofm = [1, 2, 3, 4], 0, 0
    have_sof = False
    for _ in range(rng.range(2, 9)):
        k = rng.below(14)
        if k == 0:
            out += seg(0xE0, b"JFIF\0" + bytes([rng.choice([1, 1, 1, 2, 0]), rng.below(3), rng.below(3), 0, 72, 0, 72, rng.choice([0, 0, 1]), rng.choice([0, 0, 1])]))
        elif k == 1:
            out += seg(0xEE, b"Adobe\0\x64\x80\0\0\0" + bytes([rng.choice([0, 1, 2, 0, 1, 2, 3, 255])]))
        elif k == 2:
            ln = rng.choice([0, 1, 5, 13, 14, 15, 40])
            out += seg(rng.choice([0xE0, 0xEE, 0xE1, 0xE2, 0xED, 0xEF, 0xFE]), rng.bytes(ln))
        elif k in (3, 4):
            out += gen_dqt(rng)
        elif k in (5, 6):
            out += gen_dht(rng)
        elif k == 7:
            body = bytearray()
            for _ in range(rng.range(1, 4)):
                body += bytes([rng.choice([0, 1, 15, 16, 17, 31, 32, 255, rng.below(32)]), rng.choice([0x10, 0x11, 0x21, 0x01, 5, 0xFF, rng.below(256)])])
            if rng.chance(1, 6):
                body.append(3)
            out += seg(0xCC, body)
        elif k == 8:
            body = bytes([rng.below(2), rng.choice([0, 1, 2, 3, 8, 255])])
            out += seg(0xDD, body if rng.chance(5, 6) else body + b"\0")
        elif k in (9, 10) and not have_sof or (k == 9 and rng.chance(1, 8)):
            s, ids, nc, sofm = gen_sof(rng)
            out += s
            have_sof = True
        elif k == 11:
            out += rng.choice([b"\xff\x01", b"\xff\xd0", b"\xff\xd3", b"\xff\xff\xff", b"\xff\xdc\x00\x04\x00\x08", b"\xff\xd8", b"\x00\x00", b"\xff\x00"])
        elif k == 12 and rng.chance(1, 4):
            out += bytes([0xFF, rng.choice([0xDE, 0xDF, 0xF0, 0xF7, 0xFD, 0x02, 0x4F, 0xBF, 0xC8])]) + b"\x00\x02"
        else:
            out += gen_dqt(rng) if rng.chance(1, 2) else gen_dht(rng)
    if rng.chance(9, 10):
        if not have_sof and rng.chance(4, 5):
            s, ids, nc, sofm = gen_sof(rng)
            out += s
        out += gen_sos(rng, ids, nc, sofm)
        out += rng.bytes(rng.range(0, 40)).replace(b"\xff", b"\xfe")
    if rng.chance(3, 4):
        out += b"\xff\xd9"
    if rng.chance(1, 8):
        out = out[:rng.below(len(out) + 1)]
    return bytes(out)


def gen_dense_baseline(rng):
    """baseline single-component image whose AC table has all 256 symbols, entropy data random:
    runs overshoot k = 63 by up to 15 (the padded jpeg_natural_order entries)"""
    w, h = rng.range(1, 24), rng.range(1, 24)
    out = bytearray(b"\xff\xd8")
    out += seg(0xDB, bytes([0]) + bytes([1 + rng.below(3)] * 64))
    out += seg(0xC0, bytes([8, 0, h, 0, w, 1, 1, 0x11, 0]))
    out += seg(0xC4, bytes([0x00]) + bytes(STD_DC_BITS) + bytes(STD_DC_VALS))
    bits = [0] * 16
    bits[7], bits[8] = 255, 1
    vals = list(range(256))
    # put large-run symbols first so that random bytes hit them often
    vals = [0xF1, 0xF2, 0xE1, 0xF0, 0xD1, 0xC1, 0xF3, 0xB1] + [v for v in vals if v not in (0xF1, 0xF2, 0xE1, 0xF0, 0xD1, 0xC1, 0xF3, 0xB1)]
    if rng.chance(1, 2):
        vals = rng.shuffle(vals)
    out += seg(0xC4, bytes([0x10]) + bytes(bits) + bytes(vals))
    out += seg(0xDA, bytes([1, 1, 0x00, 0, 63, 0]))
    data = bytearray()
    for _ in range(rng.range(4, 200)):
        data.append(rng.choice([rng.below(8), rng.below(8), rng.below(255)]))
    out += bytes(data).replace(b"\xff", b"\xfe")
    out += b"\xff\xd9"
    return bytes(out)


def gen_lossless_sub(rng):
    """hand-made SOF3 stream with NON-unit sampling factors (no encoder writes these): predictor 1, Huffman table
    "0" -> category 0, "10" -> category 1; every real sample has difference 0, every dummy sample of a partial MCU has
    difference +1, so every output sample must equal 2^(P-1) -- any dummy difference leaking into a real position
    (row too short, wrong pointer) changes the output.  Widths around the allocator's 16-sample row padding."""
    layouts = [[(3, 2), (1, 1)], [(3, 1), (1, 1), (1, 1)], [(4, 1), (2, 1), (1, 1)], [(2, 2), (1, 1), (1, 1)], [(3, 3), (1, 1)],
               [(2, 4), (1, 2)], [(1, 1), (3, 2)], [(4, 2), (1, 1)], [(3, 1), (3, 1), (1, 1)], [(2, 1), (1, 1)], [(4, 1), (4, 1)]]
    comps = rng.choice(layouts)
    mh, mv = max(c[0] for c in comps), max(c[1] for c in comps)
    W = rng.choice([16, 32, 48, 64, 80, 96, 15, 17, 31, 33, 1, 2, 3, 5, 7, 47, rng.range(1, 100)])
    Hh = rng.choice([1, 2, 3, 4, 5, 7, rng.range(1, 12)])
    P = rng.choice([8, 8, 8, 4, 2, 7])
    ids = [1, 2, 3][:len(comps)] if len(comps) == 3 else [10 + i for i in range(len(comps))]
    out = bytearray(b"\xff\xd8")
    out += seg(0xC3, bytes([P, Hh >> 8, Hh & 255, W >> 8, W & 255, len(comps)]) + b"".join(bytes([ids[i], (c[0] << 4) | c[1], 0]) for i, c in enumerate(comps)))
    out += seg(0xC4, bytes([0x00, 1, 1] + [0] * 14 + [0, 1]))
    out += seg(0xDA, bytes([len(comps)]) + b"".join(bytes([ids[i], 0x00]) for i in range(len(comps))) + bytes([1, 0, 0]))
    dru = lambda a, b: (a + b - 1) // b
    bw = BitW()
    for my in range(dru(Hh, mv)):
        for mx in range(dru(W, mh)):
            for (h, v) in comps:
                wib, hib = dru(W * h, mh), dru(Hh * v, mv)
                for y in range(v):
                    for x in range(h):
                        if mx * h + x < wib and my * v + y < hib:
                            bw.put(0, 1)
                        else:
                            bw.put(0b101, 3)
    out += bw.flush() + b"\xff\xd9"
    return bytes(out), 1 << (P - 1)


def many_scans(rng, s, segs, total):
    """legal-looking progressive stream with the last scan repeated until it has `total` scans"""
    sos = [i for i, g in enumerate(segs) if g[1] == 0xDA]
    if not sos:
        return s
    i = sos[-1]
    start = segs[i][0]
    end = segs[i + 1][0] + segs[i + 1][2] if i + 1 < len(segs) and segs[i + 1][1] == -1 else segs[i][0] + segs[i][2]
    scan = s[start:end]
    k = max(0, total - len(sos))
    return s[:end] + scan * k + s[end:]


def gen_prog_case(rng):
    """one block through decode_mcu_AC_first / decode_mcu_AC_refine: bands 1 <= Ss <= Se <= 63 with boundary
    values, runs that overshoot Se, EOB runs, blocks with non-zero history"""
    ss = rng.choice([1, 1, 2, 6, 30, 62, 63, rng.range(1, 63)])
    se = rng.choice([63, 63, ss, min(63, ss + 1), min(63, ss + rng.below(20)), rng.range(ss, 63)])
    mode = rng.below(3)
    if mode == 0:
        acb = [0] * 16
        acb[7], acb[8] = 255, 1
        acv = [0xF1, 0xF0, 0xE1, 0x00, 0x10, 0x20, 0xE0, 0x31, 0x01, 0x11] + [v for v in rng.shuffle(range(256)) if v not in (0xF1, 0xF0, 0xE1, 0x00, 0x10, 0x20, 0xE0, 0x31, 0x01, 0x11)]
    elif mode == 1:
        acb = [0, 2, 1, 3, 3, 2, 4, 3, 5, 5, 4, 4, 0, 0, 1, 125]
        acv = rng.shuffle(range(256))[:162]
    else:
        acb = [0, 1, 1, 1, 1, 1, 1, 1, 1, 1, 1, 1, 1, 1, 1, 1]
        acv = [rng.choice([0xF1, 0xF0, 0x00, 0x01, 0x11, 0x21, 0xE0, 0x10, 0x71, rng.below(256)]) for _ in range(15)]
    n = rng.range(0, 80)
    data = bytes(rng.choice([rng.below(8), rng.below(256), 0x55, 0xAA]) for _ in range(n)).replace(b"\xff", b"\xfe")
    tbl = "%s | %s" % (" ".join(map(str, acb)), " ".join(map(str, acv)))
    if rng.chance(1, 2):
        return "pfirst %d %d %d %s | %s" % (ss, se, rng.below(3), tbl, data.hex())
    al = rng.below(4)
    blk = [0] * 64
    dens = rng.choice([0, 5, 30, 80, 100])
    for i in range(1, 64):
        if rng.below(100) < dens:
            blk[i] = rng.choice([1, -1, 2, -2, 3, 4, -4, 8, -8, 100, -100]) << rng.choice([0, al, al + 1])
    eob = rng.choice([0, 0, 0, 1, 2, 5, 32767])
    return "prefine %d %d %d %d %s | %s | %s" % (ss, se, al, eob, tbl, " ".join(map(str, blk)), data.hex())


def gen_fblk_case(rng):
    """one block through the whole decode_mcu with >= BUFSIZE bytes available (unchecked fast path):
    random data, FF/00-rich data, worst-case codes, a marker early / late / absent"""
    dcb, dcv = STD_DC_BITS, STD_DC_VALS
    mode = rng.below(4)
    if mode == 0:
        acb = [0] * 16
        acb[7], acb[8] = 255, 1
        acv = rng.shuffle(range(256))
    elif mode == 1:
        acb = [0, 2, 1, 3, 3, 2, 4, 3, 5, 5, 4, 4, 0, 0, 1, 125]
        acv = rng.shuffle(range(256))[:162]
    elif mode == 2:       # one code per length, the 16-bit code carries 15 bits
        acb = [1] * 16
        acv = [0x10 * (i + 1) for i in range(15)] + [0x0F]
        dcb, dcv = [1] * 16, list(range(16))
    else:
        acb = [0, 1, 1, 1, 1, 1, 1, 1, 1, 1, 1, 1, 1, 1, 1, 1]
        acv = [rng.choice([0xF1, 0xFF, 0xF0, 0x00, 0xE2, 0x71, 0x0F, rng.below(256)]) for _ in range(15)]
    n = rng.choice([512, 512, 513, 520, 600, 700])
    kind = rng.below(4)
    data = bytearray()
    while len(data) < n:
        if kind == 0:
            b = rng.below(255)
        elif kind == 1:
            b = rng.choice([0xFF, 0xFF, 0xFF, rng.below(256)])
        else:
            b = rng.choice([0xFF, 0xFE, 0x7F, rng.below(8), rng.below(256)])
        data.append(b)
        if b == 0xFF:
            data.append(0)
    r = rng.below(5)
    if r == 0:
        p = rng.below(40)
        data[p:p + 2] = bytes([0xFF, rng.choice([0xD9, 0xD0, 0xC4, 0x01])])
    elif r == 1:
        p = rng.range(40, len(data) - 2)
        data[p:p + 2] = bytes([0xFF, rng.choice([0xD9, 0xD3, 0xDA])])
    if data[-1] == 0xFF:
        data.append(0)
    return "fblk %s | %s | %s | %s | %s" % (" ".join(map(str, dcb)), " ".join(map(str, dcv)), " ".join(map(str, acb)), " ".join(map(str, acv)), bytes(data).hex())


class BitW:
    """bit writer with JPEG 0xFF byte stuffing"""

    def __init__(self):
        self.out, self.acc, self.n = bytearray(), 0, 0

    def put(self, v, nbits):
        for i in range(nbits - 1, -1, -1):
            self.acc = (self.acc << 1) | ((v >> i) & 1)
            self.n += 1
            if self.n == 8:
                self.out.append(self.acc)
                if self.acc == 0xFF:
                    self.out.append(0)
                self.acc, self.n = 0, 0

    def flush(self):
        while self.n:
            self.put(1, 1)
        return bytes(self.out)


def gen_fastpath(rng):
    """worst-case blocks for the unchecked decode_mcu_fast(): one code of each length 1..16, the
    16-bit (almost all ones) code carries 15 extra bits, so a block takes up to 2 x 248 source bytes
    with 0xFF stuffing; the buffer is cut inside an MCU and has no EOI (exact-size allocation)"""
    lay = rng.choice(["gray", "gray", "444", "420", "422"])
    comps = {"gray": [(1, 0x11)], "444": [(1, 0x11), (2, 0x11), (3, 0x11)], "420": [(1, 0x22), (2, 0x11), (3, 0x11)],
             "422": [(1, 0x21), (2, 0x11), (3, 0x11)]}[lay]
    mw = 8 * max(c[1] >> 4 for c in comps)
    mh = 8 * max(c[1] & 15 for c in comps)
    nmx, nmy = rng.range(1, 3), rng.range(1, 2)
    w, h = mw * nmx - rng.below(3), mh * nmy - rng.below(3)
    out = bytearray(b"\xff\xd8")
    out += seg(0xDB, bytes([0]) + bytes([1] * 64))
    out += seg(0xC0, bytes([8, h >> 8, h & 255, w >> 8, w & 255, len(comps)]) + b"".join(bytes([c[0], c[1], 0]) for c in comps))
    dcv = list(range(16))
    acv = [0x10 * (i + 1) for i in range(15)] + [0x0F]
    if rng.chance(1, 3):
        acv[14] = 0x0F      # the 15-bit code carries 15 bits too
    if rng.chance(1, 4):
        acv[rng.below(15)] = rng.choice([0x0E, 0x1F, 0x0D, 0x2F])
    out += seg(0xC4, bytes([0x00]) + bytes([1] * 16) + bytes(dcv) + bytes([0x10]) + bytes([1] * 16) + bytes(acv))
    out += seg(0xDA, bytes([len(comps)]) + b"".join(bytes([c[0], 0x00]) for c in comps) + bytes([0, 63, 0]))
    bw = BitW()
    blocks = sum((c[1] >> 4) * (c[1] & 15) for c in comps) * nmx * nmy
    dens = rng.choice([100, 100, 97, 90])
    for _ in range(blocks):
        for k in range(64):
            if rng.below(100) < dens:
                bw.put(0xFFFE, 16)
                bw.put(0x7FFF if rng.chance(9, 10) else rng.below(1 << 15), 15)
            else:
                ln = rng.range(1, 15)
                bw.put((1 << ln) - 2, ln)        # code of length ln: ones then a zero
                if k == 0:
                    bw.put(rng.below(1 << (ln - 1)) if ln > 1 else 0, ln - 1)   # DC: category ln-1
                # AC: run/size (ln,0): only ZRL-like/EOB-like symbols, no extra bits
    data = bw.flush()
    per_mcu = max(len(data) // (nmx * nmy), 1)
    r = rng.below(4)
    if r == 0:
        cut = rng.below(len(data) + 1)
    elif r == 1:     # inside the last MCU, more than 256 bytes per block left
        cut = len(data) - rng.below(max(per_mcu // 2, 1))
    else:            # somewhere inside a random MCU
        cut = per_mcu * rng.below(nmx * nmy) + rng.range(per_mcu // 2, per_mcu)
    cut = max(0, min(cut, len(data)))
    out += data[:cut]
    if rng.chance(1, 10):
        out += b"\xff\xd9"
    return bytes(out)


def gen_hist_case(rng, seeds8, parsed):
    """history on ONE libjpeg object with a suspending source: stream A delivered up to a cut
    (marker boundaries, inside COM/APPn payloads, inside tables, inside entropy data), abandoned with
    jpeg_abort_decompress, then a complete valid stream B on the same object"""
    s, tag, segs = rng.choice(parsed)
    a = bytearray(s)
    # insert COM / APPn segments of assorted sizes after SOI (and sometimes before SOS)
    ins = bytearray()
    for _ in range(rng.range(1, 3)):
        ln = rng.choice([0, 1, 5, 14, 100, 1000, 5000, 65533])
        declared = ln if rng.chance(3, 4) else min(65533, ln + rng.choice([1, 50, 4000]))
        m = rng.choice([0xFE, 0xFE, 0xE1, 0xE2, 0xED, 0xEE, 0xE0])
        ins += bytes([0xFF, m, (declared + 2) >> 8, (declared + 2) & 255]) + bytes([65 + (i % 26) for i in range(ln)])
    pos = 2
    if rng.chance(1, 4):
        sos = [o for (o, m, n) in segs if m == 0xDA]
        if sos:
            pos = sos[0]
    a[pos:pos] = ins
    a = bytes(a)
    r = rng.below(6)
    if r <= 2:          # inside the inserted segments
        cut = pos + rng.below(len(ins) + 1)
    elif r == 3:
        cut = rng.below(len(a) + 1)
    elif r == 4:
        segs2 = segments(a)
        o, m, n = rng.choice(segs2) if segs2 else (0, 0, 0)
        cut = o + rng.choice([0, 1, 2, 3, 4, n // 2, max(n - 1, 0)])
    else:
        cut = len(a) - rng.below(8)
    b = bytearray(rng.choice(seeds8))
    com = rng.choice([b"hello", b"", b"x" * 300, bytes(range(32))])
    b[2:2] = seg(rng.choice([0xFE, 0xE1, 0xFE]), com)
    flags = rng.choice([1, 1, 1, 3, 3, 7, 9, 11, 15, 0, 2, 10])
    return "hist %d %d %s %s" % (flags, max(0, min(cut, len(a))), a.hex(), bytes(b).hex())


def progressive_cuts(rng, s, segs):
    """progressive stream cut inside every scan, right after a scan (+EOI: legal partial script,
    e.g. DC only), and with scans removed"""
    out = []
    sos = [i for i, g in enumerate(segs) if g[1] == 0xDA]
    for j, i in enumerate(sos):
        o, m, n = segs[i]
        nxt = segs[i + 1] if i + 1 < len(segs) else None
        if nxt and nxt[1] == -1:
            eo, _, en = nxt
            out.append((s[:eo + rng.below(en + 1)], "prog-cut-in-scan"))
            out.append((s[:eo + en] + b"\xff\xd9", "prog-partial-script"))       # first j+1 scans + EOI
            out.append((s[:eo + rng.below(en + 1)] + b"\xff\xd9", "prog-cut-in-scan-eoi"))
    return out


def gen_blk_case(rng):
    """case line for harness/c01blk.c and the block model"""
    dcb, dcv = STD_DC_BITS, STD_DC_VALS
    mode = rng.below(3)
    if mode == 0:
        acb = [0] * 16
        acb[7], acb[8] = 255, 1
        acv = [0xF1, 0xF2, 0xE1, 0xF0, 0xD1, 0xC1, 0xF3, 0xB1, 0xFF, 0xFE, 0x00]
        acv += [v for v in range(256) if v not in acv]
        if rng.chance(1, 2):
            acv = rng.shuffle(acv)
    elif mode == 1:
        acb = [0, 2, 1, 3, 3, 2, 4, 3, 5, 5, 4, 4, 0, 0, 1, 125]
        acv = rng.shuffle(range(256))[:162]
    else:
        acb = [0, 1, 1, 1, 1, 1, 1, 1, 1, 1, 1, 1, 1, 1, 1, 1]
        acv = [rng.choice([0xF1, 0xFF, 0xF0, 0x00, 0xE2, 0x71, rng.below(256)]) for _ in range(15)]
    n = rng.range(0, 120)
    data = bytes(rng.choice([rng.below(8), rng.below(256)]) for _ in range(n)).replace(b"\xff", b"\xfe")
    return "blk %s | %s | %s | %s | %s" % (" ".join(map(str, dcb)), " ".join(map(str, dcv)), " ".join(map(str, acb)), " ".join(map(str, acv)), data.hex())


# ------------------------------------------------------------------ running the harness
def san_signature(err):
    m = re.search(r"SUMMARY: (\w+Sanitizer): ([\w-]+) ([^\n]*?)(?: in (\w+))?\n", err)
    if m:
        fn = m.group(4) or re.sub(r":\d+(:\d+)?", "", m.group(3).split("/")[-1])
        return "%s:%s:%s" % (m.group(1), m.group(2), fn)
    m = re.search(r"([\w./-]+\.[ch]):(\d+):\d+: runtime error: ([^\n]{0,60})", err)
    if m:
        fn = re.search(r"#0 0x\w+ in (\w+)", err)
        return "ubsan:%s:%s:%s" % (m.group(1).split("/")[-1], re.sub(r"-?\d+", "N", m.group(3)), fn.group(1) if fn else "")
    return "crash"


MAX_HANGS = 3


def run_lines(ctx, exe, lines, what, per_line_timeout=20.0):
    """feeds the lines; survives crashes and hangs of the implementation: the failing line gets the
    result None and a violation is recorded, the rest of the batch is re-run.  The harness arms a
    10 s CPU / 45 s wall watchdog per line (prints TIMEOUT, exits 3); after MAX_HANGS hangs in one
    run the remaining lines of the call are dropped (the violation is established, a hang must not
    cost more than about a minute)."""
    res = [None] * len(lines)
    start = 0
    BATCH = 400
    local_hangs = 0
    while start < len(lines):
        if local_hangs >= MAX_HANGS or getattr(ctx, "_hangs", 0) >= 2 * MAX_HANGS:
            ctx.log("%s: %d hangs seen, skipping the remaining %d lines of this family" % (what, max(local_hangs, getattr(ctx, "_hangs", 0)), len(lines) - start))
            break
        chunk = lines[start:start + BATCH]
        inp = ("\n".join(chunk) + "\n").encode()
        rc, out, err = sh2([exe], input=inp, timeout=90 + 0.25 * len(chunk), env=ENV)
        got = out.decode("utf-8", "replace").split("\n")
        if got and got[-1] == "":
            got.pop()
        hung = bool(got) and got[-1] == "TIMEOUT"
        if hung:
            got.pop()
        ngood = min(len(got), len(chunk))
        for i in range(ngood):
            res[start + i] = got[i]
        if ngood == len(chunk) and rc == 0:
            start += len(chunk)
            continue
        if ngood == len(chunk):       # all answered but bad exit status (sanitizer report at exit)
            ctx.violation("%s: implementation exited with status %d after the batch: %s" % (what, rc, err[-300:]),
                          {"lines": chunk[-3:], "stderr": err[-3000:]}, signature="exit:" + san_signature(err))
            start += len(chunk)
            continue
        bad = start + ngood
        res[bad] = None
        if hung or rc == -9:
            ctx._hangs = getattr(ctx, "_hangs", 0) + 1
            local_hangs += 1
            ctx.violation("%s: no termination within the watchdog (10 s CPU / 45 s wall) on a %d-byte input" % (
                what, len(lines[bad].split()[-1]) // 2 if lines[bad].split() else 0),
                {"line": lines[bad], "stream_hex": lines[bad].split()[-1] if lines[bad].split() else ""},
                signature="timeout:" + lines[bad].split()[0])
        else:
            sig = san_signature(err)
            ctx.violation("%s: implementation crashed (rc=%d): %s" % (what, rc, (re.search(r"(ERROR: \w+Sanitizer[^\n]*|runtime error[^\n]*)", err) or [err[-200:]])[0]),
                          {"line": lines[bad], "stream_hex": lines[bad].split()[-1] if lines[bad].split() else "", "stderr": err[-4000:]}, signature=sig)
        start = bad + 1
    return res


def time_cap_us(nbytes, w, h):
    area = min(max(w, 1) * max(h, 1), MAXPIXELS)
    units = nbytes + area * (SCANLIMIT + 2)
    return 400000 + 8 * units


def judge_dec(ctx, line, res, nbytes):
    """property-level oracle on one 'dec' result line"""
    if res is None:
        return
    kv = dict(p.split("=", 1) for p in res.split()[1:] if "=" in p)
    hexs = line.split()[-1]
    rep = {"line": line, "result": res, "stream_hex": hexs}
    k = kv.get("k")
    w, h = int(kv.get("w", "1")), int(kv.get("h", "1"))
    t = float(kv.get("t", "0"))
    cap = time_cap_us(nbytes, w, h) if "w" in kv else time_cap_us(nbytes, 512, 512)
    if t > cap:
        ctx.violation("CPU time %.0f us exceeds the cap %.0f us (input %d bytes, declared %dx%d, scan limit %d)" % (t, cap, nbytes, w, h, SCANLIMIT),
                      rep, signature="time:k%s" % k)
    tables_only = kv.get("w") == "-1" and kv.get("h") == "-1"     # documented: returns 0, parameters unmodified
    if k in ("0", "1", "2") and kv.get("hdr") == "0" and kv.get("sane") == "0" and not tables_only:
        ctx.violation("tj3DecompressHeader reported success with insane parameters: " + res, rep, signature="insane-header")
    if "same" in kv and kv["same"] != "1" and kv.get("untouched") == "1" and kv.get("rc", "").startswith("-1"):
        if kv.get("thr") == "1":
            ctx.violation("a TurboJPEG-level error (THROW) after a libjpeg warning in the same call was reported as TJERR_WARNING "
                          "(tj3GetErrorCode) although nothing was written to the output: " + res,
                          rep, signature="throw-after-warning-as-warning")
        else:
            ctx.violation("a fatal libjpeg error was reported as TJERR_WARNING (tj3GetErrorCode) although nothing was written to the output: " + res,
                          rep, signature="fatal-as-warning")
    elif "same" in kv and kv["same"] != "1":
        ctx.violation("two decodes of the same stream into differently pre-filled buffers disagree (uninitialised or non-deterministic output): " + res,
                      rep, signature="uninit:k%s" % k)
    if k == "3" and kv.get("rc") == "0" and kv.get("reparse") not in ("0",) and kv.get("osz") != "0":
        ctx.violation("tj3Transform reported success but its output is not a readable JPEG: " + res, rep, signature="xform-output")


def judge_hist(ctx, line, res):
    if res is None:
        return
    kv = dict(p.split("=", 1) for p in res.split()[1:] if "=" in p)
    if kv.get("same") != "1":
        ctx.violation("a decompress object re-used after jpeg_abort_decompress() of a suspended/failed datastream handles a valid stream "
                      "differently from a fresh object (state of the abandoned stream survived): " + res[:400],
                      {"line": line, "result": res}, signature="reuse-after-abort:" + ("header" if not kv.get("b", "").startswith("ok") else "data"))
    if float(kv.get("t", "0")) > 20e6:
        ctx.violation("history case took %.0f us of CPU" % float(kv["t"]), {"line": line, "result": res}, signature="time:hist")


def judge_crop(ctx, line, res):
    if res is None:
        return
    kv = dict(p.split("=", 1) for p in res.split()[1:] if "=" in p)
    if kv.get("bad", "0") != "0":
        ctx.violation("jpeg_crop_scanline region decoded twice into differently pre-filled rows differs at xoffset,width=%s: samples reported "
                      "as produced were not written (uninitialised output): %s" % (kv.get("first"), res), {"line": line, "result": res},
                      signature="uninit:crop")
    if float(kv.get("t", "0")) > 30e6:
        ctx.violation("crop sweep took %.0f us of CPU" % float(kv["t"]), {"line": line, "result": res}, signature="time:crop")


def judge_bq(ctx, line, res):
    if res is None:
        return
    kv = dict(p.split("=", 1) for p in res.split()[1:] if "=" in p)
    if kv.get("same") != "1":
        ctx.violation("buffered-image quantisation history run twice (different row pre-fill) differs: uninitialised or non-deterministic "
                      "output: " + res[:300], {"line": line, "result": res}, signature="uninit:bq")


def start_part(l):
    return l.split(" ## ", 1)[1] if " ## " in l else None


def compare_hdr(model, impl):
    """None when they agree; 'unmodelled' when the implementation stopped in jpeg_start_decompress with an
    error class outside the model (memory limits, colour/upsampling restrictions)"""
    if model == impl:
        return None
    mh, ih = model.split(" ## ")[0], impl.split(" ## ")[0]
    if mh != ih:
        return "header"
    ms, is_ = start_part(model), start_part(impl)
    if is_ is not None and is_.startswith("E OTHER("):
        return "unmodelled"
    return "start"


# ------------------------------------------------------------------ the check
def make_seeds(ctx, rng, exe, nseeds):
    lines = []
    fixed = [(0, 8, 2, 24, 20, 0, 0), (0, 8, 0, 17, 9, 1, 1), (0, 8, 3, 16, 16, 0, 0), (0, 8, 1, 33, 8, 2, 0), (0, 8, 4, 8, 33, 0, 1),
             (0, 8, 5, 40, 8, 0, 0), (0, 8, 6, 8, 40, 0, 0), (1, 12, 2, 20, 20, 0, 0), (1, 12, 0, 9, 9, 0, 1), (2, 8, 2, 24, 24, 0, 0),
             (2, 12, 0, 16, 9, 3, 0), (2, 8, 3, 15, 15, 0, 0), (3, 8, 2, 24, 20, 0, 0), (3, 12, 0, 10, 10, 2, 0), (4, 8, 1, 17, 17, 0, 0),
             (4, 12, 3, 9, 9, 0, 0), (0, 8, -1, 16, 8, 0, 0), (2, 8, -1, 9, 9, 0, 0), (0, 8, -3, 16, 16, 0, 0)]
    for p in fixed:
        lines.append("mk %d %d %d %d %d %d %d %d 1 0" % (p + (rng.below(1000),)))
    for prec in range(2, 17):
        lines.append("mk 5 %d %d %d %d %d 0 %d %d %d" % (prec, rng.choice([0, 3, 0, -1]), rng.range(1, 20), rng.range(1, 20), rng.choice([0, 0, 1, 2]), rng.below(1000),
                                                       rng.range(1, 7), rng.below(prec)))
    while len(lines) < nseeds:
        proc = rng.choice([0, 0, 1, 2, 2, 3, 4, 5])
        prec = 8 if proc == 0 else (12 if proc == 1 else (rng.range(2, 16) if proc == 5 else rng.choice([8, 12])))
        ss = rng.choice([0, 3, -1]) if proc == 5 else rng.choice([0, 1, 2, 3, 4, 5, 6, 2, -1, -2])
        lines.append("mk %d %d %d %d %d %d %d %d %d %d" % (proc, prec, ss, rng.range(1, 48), rng.range(1, 48), rng.choice([0, 0, 1, 2, 5]), rng.below(2), rng.below(100000),
                                                          rng.range(1, 7), rng.below(prec)))
    res = run_lines(ctx, exe, lines, "seed generation")
    seeds = []
    for l, r in zip(lines, res):
        if r and r.startswith("jpg "):
            seeds.append((bytes.fromhex(r[4:]), "p%s" % l.split()[1]))
        else:
            ctx.log("seed not produced:", l, "->", (r or "")[:80])
    return seeds


def make_big_seeds(ctx, rng, exe):
    """valid images wide enough for every crop residue: 4:2:0 / 4:2:2 / 4:4:0 / 4:1:1 / 4:4:4 / gray,
    baseline, progressive, arithmetic, 12-bit"""
    lines = ["mk 0 8 2 96 40 0 0 %d 1 0", "mk 0 8 1 80 24 0 0 %d 1 0", "mk 0 8 4 64 48 0 0 %d 1 0", "mk 0 8 5 96 16 0 0 %d 1 0",
             "mk 0 8 0 56 24 0 0 %d 1 0", "mk 0 8 3 72 24 0 0 %d 1 0", "mk 1 12 2 96 40 0 0 %d 1 0", "mk 2 8 2 96 40 0 0 %d 1 0",
             "mk 3 8 2 64 32 0 0 %d 1 0", "mk 2 12 1 80 24 0 0 %d 1 0", "mk 0 8 2 67 37 2 1 %d 1 0",
             # widths 1..3 (RGB565 / merged upsampling edge columns, F54 class)
             "mk 0 8 2 1 5 0 0 %d 1 0", "mk 0 8 2 3 4 0 0 %d 1 0", "mk 0 8 1 2 3 0 0 %d 1 0", "mk 0 8 0 1 1 0 0 %d 1 0", "mk 0 8 2 2 7 0 0 %d 1 0"]
    lines = [l % rng.below(1000) for l in lines]
    res = run_lines(ctx, exe, lines, "seed generation")
    out = [bytes.fromhex(r[4:]) for r in res if r and r.startswith("jpg ")]
    return out or [b"\xff\xd8\xff\xd9"]


def make_extra_seeds(ctx, rng, exe, tmpl):
    res = run_lines(ctx, exe, [l % rng.below(1000) for l in tmpl], "seed generation")
    out = [bytes.fromhex(r[4:]) for r in res if r and r.startswith("jpg ")]
    return out or [b"\xff\xd8\xff\xd9"]


def dec_line(rng, i, data):
    kind = [1, 1, 2, 3, 4, 5, 1, 0][i % 8]
    a, b, c, d = rng.below(1 << 12), rng.below(1 << 10), rng.below(32), rng.below(100000)
    if kind == 3:
        b = rng.choice([0, 0, 2, 4, 4, 8, 32, 64, 128, 256, 2 | 4, 4 | 8, 32 | 2, 1, 1 | 4, rng.below(512)])
    return "dec %d %d %d %d %d %s" % (kind, a, b, c, d, data.hex())


def run(ctx):
    rng = ctx.rng
    ctx.regen(["Limits"])
    try:
        gl = open(os.path.join(core.COQ, "gen", "GenLimits.v")).read()
        gone = re.findall(r'\("([^"]+)", "([^"]+)", false\)', gl)
        for fn, what in gone:
            ctx.log("guard mirrored by the model is no longer in the source: %s (%s)" % (what, fn))
            ctx.broken_tie("guard:" + what, "%s: the check '%s' that the model mirrors is gone or changed" % (fn, what))
    except OSError:
        pass
    ctx.prove()
    drv = ctx.model_driver()
    exe = ctx.cc("c01", ["c01.c"], "asan", libs=("turbojpeg",))
    blk = ctx.cc("c01blk", ["c01blk.c"], "asan", libs=("jpeg",))
    ctx.prog_exe = ctx.cc("c01prog", ["c01prog.c"], "asan", libs=("jpeg",))
    ctx.arith_exe = ctx.cc("c01arith", ["c01arith.c"], "asan", libs=("jpeg",))
    ctx.coef_exe = ctx.cc("c01coef", ["c01coef.c"], "asan", libs=("jpeg",))

    if ctx.replay:
        r = json.load(open(ctx.replay))
        lines = []
        if r.get("stream_hex") is not None:
            lines.append("hdr " + r["stream_hex"])
        if r.get("line") and r["line"] not in lines:
            lines.append(r["line"])
        for l in r.get("lines", []):
            lines.append(l)
        return run_cases(ctx, drv, exe, blk, [(l, "replay") for l in lines])

    cases = []       # (line, kind)
    cdir = os.path.join(core.VERIF, "corpus", "C01")
    if os.path.isdir(cdir):
        for fn in sorted(os.listdir(cdir)):
            for l in open(os.path.join(cdir, fn)):
                l = l.strip()
                if l and not l.startswith("#"):
                    cases.append((l, "corpus"))

    total = ctx.n(10000, 200000)
    seeds = make_seeds(ctx, rng, exe, ctx.n(44, 160))
    streams = []     # (bytes, kind)
    for s, tag in seeds:
        streams.append((s, "valid-" + tag))
    parsed = [(s, tag, segments(s)) for s, tag in seeds]
    n_struct = total * 55 // 100
    for i in range(n_struct):
        s, tag, segs = parsed[i % len(parsed)] if i < 3 * len(parsed) else rng.choice(parsed)
        r = rng.below(10)
        if r < 4:
            m, what = mutate_fields(rng, s, segs)
            streams.append((m, "field-" + what))
        elif r < 6:
            m, what = truncations(rng, s, segs, 1)[0]
            streams.append((m, what))
        elif r < 8:
            m, what = mutate_struct(rng, s, segs)
            streams.append((m, "struct-" + what))
        elif r == 8:
            m, w1 = mutate_fields(rng, s, segs)
            m, w2 = mutate_struct(rng, m, segments(m) or segs)
            streams.append((m, "field+struct"))
        else:
            b = bytearray(s)
            for _ in range(rng.range(1, 4)):
                p = rng.below(len(b))
                b[p] ^= 1 << rng.below(8)
            streams.append((bytes(b), "bitflip"))
    # every marker boundary of a rotating seed
    for j in range(ctx.n(6, 60)):
        s, tag, segs = parsed[(ctx.seed * 7 + j) % len(parsed)]
        for (o, m, n) in segs:
            streams.append((s[:o], "trunc-boundary"))
            if m != -1:
                streams.append((s[:o + 2], "trunc-boundary"))
    for i in range(total * 25 // 100):
        streams.append((gen_grammar(rng), "grammar"))
    for i in range(total * 6 // 100):
        streams.append((gen_dense_baseline(rng), "dense-table"))
    for i in range(total * 6 // 100):
        r = rng.below(4)
        if r == 0:
            streams.append((rng.bytes(rng.range(0, 64)), "random"))
        elif r == 1:
            streams.append((b"\xff\xd8" + rng.bytes(rng.range(0, 200)), "random-soi"))
        elif r == 2:
            b = bytearray(b"\xff\xd8")
            for _ in range(rng.range(1, 8)):
                ln = rng.choice([2, 3, 4, 5, 17, 19, 67, rng.range(2, 300)])
                b += bytes([0xFF, rng.choice([0xC0, 0xC2, 0xC4, 0xDB, 0xDA, 0xDD, 0xCC, 0xE0, 0xEE, 0xFE, 0xD9, rng.range(1, 254)]), ln >> 8, ln & 255]) + rng.bytes(rng.choice([ln - 2, ln - 2, rng.below(ln + 3)]))
            streams.append((bytes(b), "random-markers"))
        else:
            s, tag, segs = rng.choice(parsed)
            b = bytearray(s)
            for _ in range(rng.range(4, 40)):
                b[rng.below(len(b))] = rng.below(256)
            streams.append((bytes(b), "random-overwrite"))
    for i in range(total * 4 // 100):
        streams.append((gen_fastpath(rng), "fastpath-worstcase"))
    # progressive streams cut inside every scan / partial scripts (smoothing is on by default)
    progs = [(s2, tag, segs) for (s2, tag, segs) in parsed if tag in ("p2", "p4")]
    for j in range(ctx.n(10, 60)):
        if progs:
            s2, tag, segs = progs[(ctx.seed + j) % len(progs)]
            streams.extend(progressive_cuts(rng, s2, segs))
    # arithmetic-coded streams (sequential + progressive, with restarts): every Td/Ta nibble of every SOS replaced
    # (don't-care fields of refinement scans included)
    ari = make_extra_seeds(ctx, rng, exe, ["mk 4 8 2 24 24 1 0 %d 1 0", "mk 4 8 3 64 64 2 0 %d 1 0", "mk 3 8 2 24 20 1 0 %d 1 0",
                                           "mk 4 8 0 17 9 1 0 %d 1 0", "mk 4 12 3 16 16 1 0 %d 1 0", "mk 3 8 3 16 16 3 0 %d 1 0"])
    for j in range(ctx.n(120, 2400)):
        b = bytearray(ari[j % len(ari)])
        for (o, m, n) in segments(bytes(b)):
            if m == 0xDA and n >= 8:
                ns = b[o + 4]
                for q in range(ns):
                    if rng.chance(2, 3):
                        b[o + 6 + 2 * q] = rng.choice([0x10, 0x01, 0x11, 0x22, 0xF0, 0x0F, 0xFF, 0x35, rng.below(256)])
        streams.append((bytes(b), "arith-tdta"))
    # many-scan progressive streams, 1 / 2 / many iMCU rows high: the scan limit must stop EVERY entry point
    lim = make_extra_seeds(ctx, rng, exe, ["mk 2 8 0 64 8 0 0 %d 1 0", "mk 2 8 0 64 16 0 0 %d 1 0", "mk 2 8 2 64 16 0 0 %d 1 0",
                                           "mk 2 8 0 40 40 0 0 %d 1 0", "mk 4 8 0 64 8 0 0 %d 1 0", "mk 2 8 3 48 8 0 0 %d 1 0", "mk 2 12 0 32 8 0 0 %d 1 0"])
    for j in range(ctx.n(21, 210)):
        b = lim[j % len(lim)]
        streams.append((many_scans(rng, b, segments(b), rng.choice([12, 20, 40])), "scanlimit"))
    for (s, kind) in streams:
        cases.append(("hdr " + s.hex(), kind))
    # arithmetic sequential streams (valid + entropy data damaged) for the statistics-bin offset correspondence
    aseq = make_extra_seeds(ctx, rng, exe, ["mk 3 8 2 24 20 0 0 %d 1 0", "mk 3 8 0 17 9 0 0 %d 1 0", "mk 3 8 3 16 16 0 0 %d 1 0",
                                            "mk 3 8 1 33 8 2 0 %d 1 0", "mk 3 8 -1 16 8 0 0 %d 1 0", "mk 3 8 5 40 8 0 0 %d 1 0"])
    for j in range(ctx.n(60, 1200)):
        b = bytearray(aseq[j % len(aseq)])
        if j >= len(aseq):
            sosp = bytes(b).rfind(b"\xff\xda")
            lo = sosp + 14 if sosp > 0 else len(b) // 2
            for _ in range(rng.range(1, 6)):
                q = rng.range(min(lo, len(b) - 3), len(b) - 3)
                b[q] = rng.choice([b[q] ^ (1 << rng.below(8)), 0x00, 0xFE, rng.below(255)])
        cases.append(("ari " + bytes(b).hex(), "arith-offsets"))
    # coefficient-controller block positions: valid 8-bit streams of every layout (interleaved and single-component scans)
    csrc = [s2 for (s2, tag) in seeds if tag in ("p0", "p2", "p3", "p4")] + make_extra_seeds(ctx, rng, exe, [
        "mk 2 8 2 96 40 0 0 %d 1 0", "mk 0 8 1 80 24 0 0 %d 1 0", "mk 2 8 4 64 48 0 0 %d 1 0", "mk 4 8 5 96 16 0 0 %d 1 0", "mk 2 8 -1 33 17 0 0 %d 1 0"])
    for j in range(ctx.n(40, 400)):
        cases.append(("coef " + csrc[j % len(csrc)].hex(), "coef-positions"))
    # crafted lossless streams with non-unit sampling factors: every sample must come out as 2^(P-1)
    for j in range(ctx.n(250, 5000)):
        b, exp = gen_lossless_sub(rng)
        cases.append(("ll " + b.hex(), "lossless-sub:%d" % exp))
    seeds8 = [s for s, tag in seeds if tag in ("p0", "p2", "p3", "p4") and b"\xff\xc0\x00" in s or tag in ("p2", "p3", "p4") and (b"\xff\xc2\x00\x11\x08" in s or b"\xff\xc2\x00\x0b\x08" in s or b"\xff\xc9\x00\x11\x08" in s or b"\xff\xca\x00\x11\x08" in s)]
    if not seeds8:
        seeds8 = [s for s, tag in seeds if tag == "p0"]
    for i in range(ctx.n(600, 12000)):
        cases.append((gen_hist_case(rng, seeds8, parsed), "hist"))
    # crop sweeps (all xoffset residues x merged/fancy upsampling x 1..4 rows per call) and buffered-image
    # quantisation-mode histories on larger valid images (and a few damaged ones)
    big = make_big_seeds(ctx, rng, exe)
    for i in range(ctx.n(160, 3000)):
        b = big[i % len(big)]
        if rng.chance(1, 8):
            bb = bytearray(b)
            for _ in range(rng.range(1, 3)):
                bb[rng.range(len(bb) // 2, len(bb) - 1)] ^= 1 << rng.below(8)
            b = bytes(bb)
        flags = (i % 2) | (rng.below(2) << 1) | ((i // 2 % 4) << 2) | (rng.below(2) << 4) | ((1 if rng.chance(1, 4) else 0) << 5) | (rng.below(2) << 6) | ((1 if rng.chance(1, 4) else 0) << 7) | ((1 if rng.chance(1, 3) else 0) << 8) | (rng.below(2) << 9) | (rng.below(2) << 10)
        cases.append(("crop %d %d %s" % (flags, rng.below(100000), b.hex()), "crop"))
    bqsrc = big + [s2 for (s2, tag, segs) in parsed if tag in ("p0", "p2", "p3", "p4", "p1")]
    for i in range(ctx.n(300, 6000)):
        b = bqsrc[i % len(bqsrc)]
        if rng.chance(1, 6):
            b = b[:rng.range(len(b) // 2, len(b))]
        cases.append(("bq %d %s" % (rng.below(1000000), b.hex()), "bq"))
    nblk = ctx.n(1000, 20000)
    for i in range(nblk):
        cases.append((gen_blk_case(rng), "blk"))
    for i in range(ctx.n(600, 12000)):
        cases.append((gen_fblk_case(rng), "fblk"))
    for i in range(ctx.n(1500, 30000)):
        cases.append((gen_prog_case(rng), "prog"))
    return run_cases(ctx, drv, exe, blk, cases, oracle_every=1 if not ctx.thorough() else 3)


def run_cases(ctx, drv, exe, blk, cases, oracle_every=1):
    rng = ctx.rng
    hdr_cases = [(l, k) for (l, k) in cases if l.startswith("hdr")]
    blk_cases = [(l, k) for (l, k) in cases if l.startswith("blk ") or l.startswith("fblk ")]
    dec_given = [(l, k) for (l, k) in cases if l.startswith("dec ")]
    hist_cases = [(l, k) for (l, k) in cases if l.startswith("hist ")]
    crop_cases = [(l, k) for (l, k) in cases if l.startswith("crop ")]
    bq_cases = [(l, k) for (l, k) in cases if l.startswith("bq ")]
    ll_cases = [(l, k) for (l, k) in cases if l.startswith("ll ")]
    ari_cases = [(l, k) for (l, k) in cases if l.startswith("ari ")]
    coef_cases = [(l, k) for (l, k) in cases if l.startswith("coef ")]
    must_fail = set()

    # ---- model side
    mlines = None
    prog_cases = [(l, k) for (l, k) in cases if l.startswith("pfirst ") or l.startswith("prefine ")]
    all_model_in = [l for l, _ in hdr_cases] + [l for l, _ in blk_cases] + [l for l, _ in prog_cases]
    if drv and all_model_in:
        rc, out, err = sh2([drv], input=("\n".join(all_model_in) + "\n").encode(), timeout=3000)
        mlines = out.decode().split("\n")
        if rc != 0 or len(mlines) < len(all_model_in):
            ctx.broken_tie("model-driver", "extracted model failed: rc=%d %s" % (rc, err[-200:]))
            mlines = None

    # ---- implementation: header correspondence lines
    impl = run_lines(ctx, exe, [l for l, _ in hdr_cases], "jpeg_read_header/jpeg_start_decompress")
    disagree = unmodelled = accepted = 0
    verdicts = {}
    for i, ((line, kind), res) in enumerate(zip(hdr_cases, impl)):
        if res is None:
            ctx.count(kind, 1, None)
            continue
        if res.startswith("OK ") and " ## ok" in res:
            accepted += 1
        v = "header:" + (res.split()[1] if res.startswith("E ") else res.split()[0])
        verdicts[v] = verdicts.get(v, 0) + 1
        if " ## " in res:
            sp = res.split(" ## ", 1)[1].split()
            v = "start:" + (sp[1] if sp[0] == "E" else sp[0])
            verdicts[v] = verdicts.get(v, 0) + 1
        if mlines is not None:
            m = mlines[i]
            if "TRACE-OUT-OF-RANGE" in m or "MODEL_OUT_OF_FUEL" in m:
                ctx.broken_tie("model-invariant", "extracted model violated its own invariant on %s: %s" % (line[:200], m[:200]))
            why = compare_hdr(m, res)
            if why == "unmodelled":
                unmodelled += 1
            elif why:
                disagree += 1
                if disagree <= 3:
                    ctx.log("model/impl disagree (%s) on %s\n  stream: %s\n  model: %s\n  impl : %s" % (why, kind, line[4:300], m[:700], res[:700]))
                    ctx.broken_tie("correspondence:" + why, "model and implementation differ (%s) on stream %s || model=%s || impl=%s" % (
                        kind, line[4:600], m[:500], res[:500]))
        ctx.count(kind, 1, res[:600])
        if i % 499 == 0:
            ctx.sample({"case": line[:300], "impl": res[:400]})

    # ---- implementation: property-level oracle under option combinations
    dec_lines = [l for l, _ in dec_given]
    for i, (line, kind) in enumerate(hdr_cases):
        if i % oracle_every == 0 or kind in ("corpus", "replay"):
            data = bytes.fromhex(line[4:].strip()) if len(line) > 4 else b""
            dec_lines.append("dec 0 0 0 0 0 " + data.hex())
            dec_lines.append(dec_line(rng, i, data))
            if kind == "scanlimit":               # more scans than TJPARAM_SCANLIMIT / the monitor's limit: every entry point must stop
                for dl in ("dec 1 0 0 0 0 ", "dec 3 0 0 0 0 ", "dec 3 5 32 0 0 ", "dec 5 0 0 0 0 ", "dec 2 0 0 0 0 "):
                    dec_lines.append(dl + data.hex())
                    must_fail.add(dl + data.hex())
            if kind == "arith-tdta":
                dec_lines.append("dec 3 0 0 0 0 " + data.hex())
                dec_lines.append("dec 5 64 0 0 0 " + data.hex())
                dec_lines.append("dec 1 0 0 0 0 " + data.hex())
            if kind.startswith("prog-"):          # block smoothing on: scan-line loop, buffered-image mode, TurboJPEG
                dec_lines.append("dec 5 64 0 0 0 " + data.hex())
                dec_lines.append("dec 4 64 0 0 0 " + data.hex())
                dec_lines.append("dec 1 0 0 0 0 " + data.hex())
            if kind == "fastpath-worstcase":      # every decode entry point that runs the sequential Huffman decoder
                dec_lines.append("dec 1 %d 0 %d 0 %s" % (rng.choice([0, 6]), rng.below(4), data.hex()))
                dec_lines.append("dec 3 %d 0 0 0 %s" % (rng.below(8), data.hex()))
                dec_lines.append("dec 5 0 0 0 0 " + data.hex())
    dres = run_lines(ctx, exe, dec_lines, "decode API under options")
    produced = 0
    enforced = 0
    for line, res in zip(dec_lines, dres):
        if line in must_fail and res:
            kvm = dict(p.split("=", 1) for p in res.split()[1:] if "=" in p)
            k = kvm.get("k")
            ok_end = (k in ("1", "2") and kvm.get("done") == "1" and kvm.get("hdr") in ("0", "-1")) or \
                     (k == "3" and (kvm.get("rc") == "0" or (kvm.get("rc") == "-1" and kvm.get("ec") == "0"))) or (k == "5" and kvm.get("err") == "0,0")
            if ok_end:
                ctx.violation("a stream with more scans than the configured scan limit (%d) was processed to the end: the limit is not "
                              "enforced through this entry point: %s" % (SCANLIMIT, res[:300]),
                              {"line": line, "result": res, "stream_hex": line.split()[-1]}, signature="scan-limit-not-enforced:k%s" % k)
            else:
                enforced += 1
        nbytes = len(line.split()[-1]) // 2 if len(line.split()) > 6 else 0
        judge_dec(ctx, line, res, nbytes)
        if res and ("done=1" in res or re.search(r"rows=[1-9]", res)):
            produced += 1
        ctx.count("oracle-k" + line.split()[1], 1, None)

    # ---- histories on one object: suspend, abort, re-use
    if hist_cases:
        hres = run_lines(ctx, exe, [l for l, _ in hist_cases], "suspend / abort / re-use history")
        nsame = 0
        for (line, kind), res in zip(hist_cases, hres):
            judge_hist(ctx, line, res)
            if res and "same=1" in res:
                nsame += 1
            ctx.count("hist", 1, (res or "")[:120])
        ctx.cov["history_cases"] = len(hist_cases)
        ctx.cov["history_cases_second_stream_equal_to_fresh_object"] = nsame

    # ---- crafted lossless streams with sampling factors: constant output by construction
    if ll_cases:
        lres = run_lines(ctx, exe, [l for l, _ in ll_cases], "lossless decode with sampling factors")
        lok = 0
        for (line, kind), res in zip(ll_cases, lres):
            if res is None:
                continue
            if ":" in kind:
                exp = kind.split(":")[1]
            else:       # corpus / replay line: 2^(P-1) from the SOF3 precision byte
                raw = bytes.fromhex(line.split()[-1])
                j = raw.find(b"\xff\xc3")
                exp = str(1 << (raw[j + 4] - 1)) if j >= 0 and j + 4 < len(raw) and raw[j + 4] >= 1 else "128"
            if res.startswith("ll ok"):
                kvl = dict(p.split("=", 1) for p in res.split()[2:] if "=" in p)
                if kvl.get("min") != exp or kvl.get("max") != exp:
                    ctx.violation("lossless stream whose samples are all %s by construction (difference 0 everywhere, +1 only on the dummy "
                                  "samples of partial MCUs) decoded to values %s..%s: dummy differences leaked into real samples: %s" % (
                                      exp, kvl.get("min"), kvl.get("max"), res[:200]),
                                  {"line": line, "result": res, "stream_hex": line.split()[-1]}, signature="lossless-dummy-sample-leak")
                else:
                    lok += 1
            ctx.count("lossless-sub", 1, res[:60])
        ctx.cov["lossless_sampling_cases"] = len(ll_cases)
        ctx.cov["lossless_sampling_cases_constant_output"] = lok

    # ---- crop sweeps and buffered-image quantisation histories
    if crop_cases:
        cres = run_lines(ctx, exe, [l for l, _ in crop_cases], "jpeg_crop_scanline sweep")
        for (line, kind), res in zip(crop_cases, cres):
            judge_crop(ctx, line, res)
            ctx.count("crop", 1, (res or "")[:80])
    if bq_cases:
        bres = run_lines(ctx, exe, [l for l, _ in bq_cases], "buffered-image quantisation-mode history")
        okp = 0
        for (line, kind), res in zip(bq_cases, bres):
            judge_bq(ctx, line, res)
            if res and re.search(r"\|p\d:a", res):
                okp += 1
            ctx.count("bq", 1, (res or "")[:160])
        ctx.cov["bq_histories"] = len(bq_cases)
        ctx.cov["bq_histories_with_a_completed_pass"] = okp

    # ---- one-block decode: real decode_mcu_slow vs block model
    bdis = 0
    over = 0
    fastpath = {}
    if blk_cases:
        bimpl = run_lines(ctx, blk, [l for l, _ in blk_cases], "decode_mcu_slow")
        for j, ((line, kind), res) in enumerate(zip(blk_cases, bimpl)):
            if res is None:
                continue
            if mlines is not None:
                m = mlines[len(hdr_cases) + j]
                if line.startswith("fblk "):
                    # coefficients always; stop position / register fill only when the model's fast path met no marker
                    fastpath["model-" + ("slow" if m.endswith(" slow") else "fast" if " pos=" in m else "other")] = fastpath.get(
                        "model-" + ("slow" if m.endswith(" slow") else "fast" if " pos=" in m else "other"), 0) + 1
                    m = re.sub(r" maxread=-?\d+$", "", m)
                    if m.endswith(" slow") or res.endswith(" slow"):
                        m = re.sub(r" (slow|pos=\d+ bits=\d+)$", "", m)
                        res = re.sub(r" (slow|pos=\d+ bits=\d+)$", "", res)
                mm = re.sub(r" kmax=\d+$", "", m)
                km = re.search(r" kmax=(\d+)$", m)
                if km and int(km.group(1)) >= 64:
                    over += 1
                if mm != res:
                    bdis += 1
                    if bdis <= 2:
                        ctx.log("block model/impl disagree\n  case: %s\n  model: %s\n  impl : %s" % (line[:300], mm[:300], res[:300]))
                        ctx.broken_tie("correspondence:block", "block model and decode_mcu_slow differ on: %s || model=%s || impl=%s" % (line[:600], mm[:300], res[:300]))
            ctx.count("blk", 1, res[:200])

    # ---- progressive block decoding: real decode_mcu_AC_first / _AC_refine vs the model
    pdis = 0
    pstat = {}
    if prog_cases and getattr(ctx, "prog_exe", None):
        pimpl = run_lines(ctx, ctx.prog_exe, [l for l, _ in prog_cases], "decode_mcu_AC_first/refine")
        for j, ((line, kind), res) in enumerate(zip(prog_cases, pimpl)):
            if res is None:
                continue
            key = line.split()[0] + ":" + ("eob" if not res.endswith("eob=0") else "noeob")
            pstat[key] = pstat.get(key, 0) + 1
            if mlines is not None:
                m = mlines[len(hdr_cases) + len(blk_cases) + j]
                if "TRACE-OUT-OF-RANGE" in m or "MODEL_OUT_OF_FUEL" in m:
                    ctx.broken_tie("model-invariant", "progressive block model violated its own invariant on %s: %s" % (line[:200], m[:200]))
                if m != res:
                    pdis += 1
                    if pdis <= 2:
                        ctx.log("progressive block model/impl disagree\n  case: %s\n  model: %s\n  impl : %s" % (line[:300], m[:300], res[:300]))
                        ctx.broken_tie("correspondence:prog-block", "progressive block model and implementation differ on: %s || model=%s || impl=%s" % (line[:600], m[:300], res[:300]))
            ctx.count("prog-block", 1, res[:200])
        ctx.cov["progressive_block_cases"] = pstat
    # ---- arithmetic decoder: statistics-bin offset of every arith_decode call site, real jdarith.c vs model/DArith.v
    adis = 0
    amcus = 0
    if ari_cases and getattr(ctx, "arith_exe", None) and drv:
        rc, out, err = sh2([ctx.arith_exe], input=("\n".join(l for l, _ in ari_cases) + "\n").encode(), timeout=600, env=ENV)
        ilines = [l for l in out.decode("utf-8", "replace").split("\n") if l.startswith("ari K=")]
        if rc != 0:
            ctx.violation("arithmetic decode (sequential) crashed (rc=%d): %s" % (rc, (re.search(r"(ERROR: \w+Sanitizer[^\n]*|runtime error[^\n]*)", err) or [err[-200:]])[0]),
                          {"lines": [l for l, _ in ari_cases][:3], "stderr": err[-3000:]}, signature=san_signature(err))
        if ilines:
            rc2, out2, err2 = sh2([drv], input=("\n".join("aric " + l[4:] for l in ilines) + "\n").encode(), timeout=600)
            ml2 = out2.decode().split("\n")
            if rc2 != 0 or len(ml2) < len(ilines):
                ctx.broken_tie("model-driver", "arith replay failed: rc=%d %s" % (rc2, err2[-200:]))
            else:
                for il, m in zip(ilines, ml2):
                    amcus += 1
                    want = re.sub(r":[01]", "", il)
                    if m != want:
                        adis += 1
                        if adis <= 2:
                            ctx.log("arith offsets model/impl disagree\n  impl : %s\n  model: %s" % (want[:400], m[:400]))
                            ctx.broken_tie("correspondence:arith-offsets", "statistics-bin offsets of jdarith.c decode_mcu and of the model differ: impl=%s || model=%s" % (want[:500], m[:500]))
                    ctx.count("arith-mcu", 1, want[:120])
        ctx.cov["arith_offset_mcus_compared"] = amcus
        ctx.cov["arith_offset_streams"] = len(ari_cases)
    # ---- coefficient controller: (component, row, column) of every MCU_buffer[] pointer, real consume_data vs model/DCoefPos.v
    cdis = 0
    cmcus = 0
    cstat = {}
    if coef_cases and getattr(ctx, "coef_exe", None) and drv:
        rc, out, err = sh2([ctx.coef_exe], input=("\n".join(l for l, _ in coef_cases) + "\n").encode(), timeout=600, env=ENV)
        ilines = [l for l in out.decode("utf-8", "replace").split("\n") if l.startswith("coef il=")]
        if rc != 0:
            ctx.violation("multi-scan input (consume_data) crashed (rc=%d): %s" % (rc, (re.search(r"(ERROR: \w+Sanitizer[^\n]*|runtime error[^\n]*)", err) or [err[-200:]])[0]),
                          {"lines": [l for l, _ in coef_cases][:3], "stderr": err[-3000:]}, signature=san_signature(err))
        if ilines:
            rc2, out2, err2 = sh2([drv], input=("\n".join("coefc " + l[5:] for l in ilines) + "\n").encode(), timeout=600)
            ml2 = out2.decode().split("\n")
            if rc2 != 0 or len(ml2) < len(ilines):
                ctx.broken_tie("model-driver", "coef replay failed: rc=%d %s" % (rc2, err2[-200:]))
            else:
                for il, m in zip(ilines, ml2):
                    cmcus += 1
                    key = "interleaved" if " il=1 " in il else "single-component"
                    cstat[key] = cstat.get(key, 0) + 1
                    if m != il:
                        cdis += 1
                        if cdis <= 2:
                            ctx.log("coef positions model/impl disagree\n  impl : %s\n  model: %s" % (il[:400], m[:400]))
                            ctx.broken_tie("correspondence:coef-positions", "block positions of consume_data and of the model differ: impl=%s || model=%s" % (il[:500], m[:500]))
                    ctx.count("coef-mcu", 1, il[:100])
        ctx.cov["coef_position_mcus_compared"] = cstat
    if mlines is not None:
        ctx.cov["traces_validated_against_impl"] = len(hdr_cases) + len(blk_cases) + len(prog_cases) + amcus + cmcus
    ctx.cov["model_impl_disagreements"] = disagree + bdis + pdis + adis + cdis
    ctx.cov["start_decompress_errors_outside_model"] = unmodelled
    ctx.cov["streams_accepted_by_impl"] = accepted
    ctx.cov["implementation_verdicts"] = verdicts
    ctx.cov["oracle_runs"] = len(dec_lines)
    ctx.cov["scan_limit_cases_stopped"] = enforced
    ctx.cov["oracle_runs_with_output_produced"] = produced
    ctx.cov["block_cases_with_k_beyond_63"] = over
    ctx.cov["fast_path_block_cases"] = fastpath
    ctx.cov["rule"] = ("valid JPEGs from the real encoder (baseline, 12-bit, progressive, arithmetic seq/prog, lossless 2..16 bit, CMYK) x "
                       "single-field mutations (length/index/count/precision/dimension) x truncation at marker boundaries and random offsets x "
                       "segment duplication/reordering/deletion/insertion x bit flips; grammar-generated headers; dense-table baseline streams; "
                       "random bytes; one-block decode cases; a case is distinct when the implementation's canonical result line is distinct")
    ctx.assume += ["correspondence is differential testing of the hand model against the real functions; it supports the tie, not the theorem",
                   "jpeg_start_decompress errors outside the modelled classes (memory limit, colour-space/upsampling restrictions) are not compared",
                   "oracle: TJPARAM_SCANLIMIT=%d, TJPARAM_MAXPIXELS=%d, TJPARAM_MAXMEMORY=256; CPU-time cap 0.4 s + 8 us x (bytes + min(area, maxpixels) x (scanlimit + 2))" % (SCANLIMIT, MAXPIXELS),
                   "memory safety / UB freedom / initialised output are observed with ASan+UBSan and the two-fill comparison on the explored streams only (C01_partial)"]
    ctx.trusted += ["translator tools/gen_Limits.py", "gcc AddressSanitizer + UndefinedBehaviorSanitizer (scalar build) as the memory-safety / UB observer",
                    "C harnesses harness/c01.c, harness/c01blk.c"]
