"""C03 -- entropy coding and scan structure never change the coefficients.

1. translator   : gen_NatOrder (jutils.c jpeg_natural_order[], jchuff.c kloop list, the
                  ZRL / EOBRUN-flush / MAX_CORR_BITS constants of jchuff.c jcphuff.c jd*huff.c)
2. proofs       : coq/props/C03.v  (model/Seq.v Prog.v Script.v, proofs/*C03-owned*)
3. property-level oracle, independent of the model (harness/c03.c, the REAL library):
   a coefficient image is written with jpeg_write_coefficients under many entropy
   configurations (default/optimised Huffman, progressive with simple and random
   complete scripts, arithmetic, restart intervals, interleaved/non-interleaved,
   jpegtran-style transcoding of the previous variant); every variant must read back
   (jpeg_read_coefficients) exactly the input coefficients without warnings, all
   variants must decode to identical pixels, SIMD and plain builds must emit identical
   bytes.
4. correspondence: every Huffman-coded JPEG produced in 3 is parsed (markers only) and
   each scan is given to the extracted model: the model ENCODER must reproduce the
   real entropy-coded bytes from the input coefficients and the tables of the file,
   and the model DECODERS must recover the input coefficients from the real bytes.
   Scan scripts: validate_script of the tree vs model/Script.v on valid, mutated and
   random scripts (same accept/reject, same error code and scan number).
"""
import json
import os
from vlib import core
from vlib.core import sh2

ZZ = [0, 1, 8, 16, 9, 2, 3, 10, 17, 24, 32, 25, 18, 11, 4, 5, 12, 19, 26, 33, 40, 48, 41, 34, 27, 20, 13, 6, 7, 14, 21,
      28, 35, 42, 49, 56, 57, 50, 43, 36, 29, 22, 15, 23, 30, 37, 44, 51, 58, 59, 52, 45, 38, 31, 39, 46, 53, 60, 61,
      54, 47, 55, 62, 63]


def cdiv(a, b):
    return (a + b - 1) // b


# --------------------------------------------------------------------------- images
class Image:
    def __init__(self, P, W, H, samp):
        self.P, self.W, self.H, self.samp = P, W, H, samp
        self.NC = len(samp)
        hmax = max(h for h, v in samp)
        vmax = max(v for h, v in samp)
        self.hmax, self.vmax = hmax, vmax
        self.wb = [cdiv(W * h, hmax * 8) for h, v in samp]
        self.hb = [cdiv(H * v, vmax * 8) for h, v in samp]
        self.entries = []          # textual directives, later ones override earlier ones
        self.model_variants = None  # None: every variant goes through the model; else a set of variant indices
        self.al0 = 1
        self.kind = "?"

    def nblocks(self, c):
        return self.wb[c] * self.hb[c]

    def mcus_interleaved(self):
        if self.NC == 1:
            return self.wb[0] * self.hb[0]
        return cdiv(self.W, 8 * self.hmax) * cdiv(self.H, 8 * self.vmax)

    def mcus_per_row(self):
        if self.NC == 1:
            return self.wb[0]
        return cdiv(self.W, 8 * self.hmax)

    def set(self, c, b, k, v):
        self.entries.append("%d:%d:%d:%d" % (c, b, k, v))

    def set_all_dc(self, c, v):
        self.entries.append("D:%d:%d" % (c, v))

    def set_all(self, c, k, v):
        self.entries.append("A:%d:%d:%d" % (c, k, v))

    def materialize(self):
        d = {}
        for e in self.entries:
            f = e.split(":")
            if f[0] == "D":
                c, v = int(f[1]), int(f[2])
                for b in range(self.nblocks(c)):
                    d[(c, b, 0)] = v
            elif f[0] == "A":
                c, k, v = int(f[1]), int(f[2]), int(f[3])
                for b in range(self.nblocks(c)):
                    d[(c, b, k)] = v
            else:
                c, b, k, v = map(int, f)
                d[(c, b, k)] = v
        return d

    def expected_sparse(self):
        d = self.materialize()
        return " ".join("%d:%d:%d:%d" % (c, b, k, v) for (c, b, k), v in sorted(d.items()) if v != 0)

    def head(self):
        return "%d %d %d %d" % (self.P, self.NC, self.W, self.H)

    def samp_s(self):
        return " ".join("%d %d" % hv for hv in self.samp)


def rand_geometry(rng, maxblocks=40):
    nc = rng.choice([1, 1, 3, 3, 3, 2, 4])
    while True:
        if nc == 1:
            samp = [(1, 1)]
        else:
            lum = rng.choice([(1, 1), (2, 1), (2, 2), (1, 2), (2, 2), (4, 1), (1, 4), (3, 1), (2, 3)])
            samp = [lum] + [rng.choice([(1, 1), (1, 1), (1, 1), (2, 1), (1, 2), lum]) for _ in range(nc - 1)]
        if sum(h * v for h, v in samp) <= 10:
            break
    hmax = max(h for h, v in samp)
    vmax = max(v for h, v in samp)
    while True:
        W = rng.range(1, 8 * hmax * rng.range(1, 4))
        H = rng.range(1, 8 * vmax * rng.range(1, 4))
        if sum(cdiv(W * h, hmax * 8) * cdiv(H * v, vmax * 8) for h, v in samp) <= maxblocks:
            return W, H, samp


def amp_limits(P):
    acmax = (1 << (P + 2)) - 1          # nbits <= data_precision + 2
    return acmax, -(1 << (P + 2)), (1 << (P + 2)) - 1   # AC magnitude, DC min, DC max


def gen_image(rng, kind, P):
    acmax, dcmin, dcmax = amp_limits(P)
    if kind in ("flat", "flat1", "flatchroma"):
        # > 32767 consecutive blocks with an all-zero AC band: EOBRUN overflow territory
        if kind == "flatchroma":
            wbk = rng.range(182, 200)
            hbk = cdiv(rng.range(32800, 36000), wbk)
            im = Image(P, wbk * 8, hbk * 8, [(1, 1), (1, 1), (1, 1)])
        else:
            wbk = rng.range(150, 400)
            hbk = cdiv(rng.range(32769, 40000), wbk)
            im = Image(P, wbk * 8 - rng.below(8), hbk * 8 - rng.below(8), [(1, 1)])
        im.kind = kind
        for c in range(im.NC):
            im.set_all_dc(c, rng.range(dcmin // 2, dcmax // 2))
        if kind != "flat":
            # isolated nonzero blocks around the 0x7FFF boundary and at the very end
            n = im.nblocks(0)
            for b in set([rng.choice([32765, 32766, 32767, 32768]), n - 1 if rng.chance(1, 2) else rng.below(n)]):
                im.set(rng.below(im.NC), b, ZZ[rng.range(1, 63)], rng.choice([1, -1, 2, -3, acmax, -acmax]))
        return im
    if kind == "bigmcu":
        # more than 65535 MCUs in one scan (gray, almost empty): restart intervals around / above the 16-bit DRI field
        wbk = rng.choice([512, 512, 400, 331, 257])
        hbk = cdiv(rng.range(65537, 66600), wbk)
        im = Image(P, wbk * 8 - rng.below(8), hbk * 8 - rng.below(8), [(1, 1)])
        im.kind = kind
        im.model_variants = {0}
        im.set_all_dc(0, rng.choice([-300, 77, 500, -1]))
        n = im.nblocks(0)
        for b in sorted(set([65534, 65535, 65536, n - 1] + [rng.below(n) for _ in range(20)])):
            im.set(0, b, 0, rng.range(-200, 200))
            if rng.chance(1, 2):
                im.set(0, b, ZZ[rng.range(1, 63)], rng.choice([1, -1, 2, -7, acmax]))
        return im
    if kind == "arithri":
        # thousands of tiny restart intervals for the arithmetic coder: every interval ends with the D.1.8 flush,
        # about 1 in 600 flushes a 0xFF byte that must be stuffed in front of the RSTn / EOI marker
        wbk = rng.range(50, 70)
        hbk = rng.range(40, 50)
        im = Image(P, wbk * 8, hbk * 8, [(1, 1)])
        im.kind = kind
        im.model_variants = {0, 1}
        for b in range(im.nblocks(0)):
            im.set(0, b, 0, rng.range(-300, 300))
            for _ in range(rng.below(4)):
                im.set(0, b, ZZ[rng.range(1, 20)], rng.choice([1, -1, 2, -2, 3, -5, 9, -17, 40]))
        return im
    if kind == "expmcu":
        # very expensive multi-block MCUs (each block < 512 coded bytes, the MCU > 512): the decoder's fast path
        # needs BUFSIZE * blocks_in_MCU bytes of lookahead
        samp = rng.choice([[(4, 2), (1, 1), (1, 1)], [(2, 2), (1, 1), (1, 1)], [(4, 1), (1, 1), (1, 1)], [(2, 2), (2, 1), (1, 1)],
                           [(2, 4), (1, 1), (1, 1)], [(3, 2), (1, 1), (1, 1)]])
        hm, vm = samp[0]
        im = Image(P, 8 * hm * rng.range(1, 3), 8 * vm * rng.range(1, 2), samp)
        im.kind = kind
        for c in range(im.NC):
            for b in range(im.nblocks(c)):
                im.set(c, b, 0, rng.choice([dcmin, dcmax, 0]))
                for k in range(1, 64):
                    im.set(c, b, k, rng.choice([acmax, -acmax, acmax - rng.below(400), -(acmax - rng.below(400))]))
        return im
    if kind == "deephuff":
        # (run,size) symbol counts shaped like Fibonacci numbers over n symbols: the plain Huffman tree of the
        # optimised AC table is n-1 .. n levels deep (> 16), so jpeg_gen_optimal_table must limit the lengths
        # counts 1,2,3,5,8,..: with the pseudo-symbol (count 1) every prefix sum stays strictly below the count
        # two places further on, so the tree is a single chain; the EOB symbol (= number of blocks, padded with
        # empty blocks) takes one place of the chain.  n+1 chain elements => depth n+1 > 16.
        n = rng.range(17, 19) if P == 8 else rng.range(17, 20)
        maxsz = 10 if P == 8 else 14
        syms = rng.shuffle([(r, z) for r in range(0, 5) for z in range(1, maxsz + 1)])[:n]
        chain = [1, 2]
        while len(chain) < n + 1:
            chain.append(chain[-1] + chain[-2])
        jeob = n - 4
        while True:
            counts = chain[:jeob] + chain[jeob + 1:]
            occ = []
            for (r, z), c in zip(syms, counts):
                occ += [(r, z)] * c
            occ = rng.shuffle(occ)
            blocks, curb, pos = [], [], 0
            for r, z in occ:
                if pos + r + 1 > 62:
                    blocks.append(curb); curb, pos = [], 0
                pos += r + 1
                v = rng.range(1 << (z - 1), (1 << z) - 1)
                curb.append((pos, v if rng.chance(1, 2) else -v))
            if curb:
                blocks.append(curb)
            if len(blocks) <= chain[jeob]:
                break
            jeob += 1
        blocks = rng.shuffle(blocks + [[] for _ in range(chain[jeob] - len(blocks))])
        wbk = next(w for w in rng.shuffle(range(20, 200)) + [1] if len(blocks) % w == 0)
        im = Image(P, wbk * 8, (len(blocks) // wbk) * 8, [(1, 1)])
        im.kind = kind
        for bi_, cb in enumerate(blocks):
            if rng.chance(1, 3):
                im.set(0, bi_, 0, rng.range(-60, 60))
            for pz, v in cb:
                im.set(0, bi_, ZZ[pz], v)
        return im
    if kind in ("denseref", "denseref-new", "denseref-part"):
        # long runs of blocks whose band is (almost) completely already-nonzero in an AC refinement scan:
        # every block adds up to 63 correction bits to the BE buffer (MAX_CORR_BITS = 1000)
        nc = rng.choice([1, 1, 3])
        nb = rng.range(18, 70)
        wbk = rng.choice([nb, cdiv(nb, 2), cdiv(nb, 3)])
        im = Image(P, wbk * 8, cdiv(nb, wbk) * 8, [(1, 1)] * nc)
        im.kind = kind
        al0 = rng.choice([1, 1, 2, 3])
        im.al0 = al0
        lo, hi = 1 << al0, min(acmax, (1 << al0) * rng.choice([2, 8, 64]))
        kset = list(range(1, 64)) if kind != "denseref-part" else sorted(rng.shuffle(range(1, 64))[:rng.range(20, 55)])
        for c in range(nc):
            for b in range(im.nblocks(c)):
                im.set(c, b, 0, rng.range(-100, 100))
                for k in kset:
                    v = rng.range(lo, hi)
                    if kind == "denseref-new" and rng.chance(1, 200):
                        v = rng.range(1, lo - 1) if lo > 1 else 0      # becomes nonzero only in a refinement scan
                    im.set(c, b, ZZ[k], v if rng.chance(1, 2) else -v)
        return im
    W, H, samp = rand_geometry(rng)
    im = Image(P, W, H, samp)
    im.kind = kind
    for c in range(im.NC):
        for b in range(im.nblocks(c)):
            if kind == "dense":
                for k in range(64):
                    if rng.chance(2, 3):
                        m = rng.choice([1, 1, 2, 3, 7, 15, 100, acmax >> rng.below(P + 2)])
                        im.set(c, b, k, rng.range(-m, m) if k else rng.range(max(dcmin, -4 * m), min(dcmax, 4 * m)))
            elif kind == "sparse":
                im.set(c, b, 0, rng.range(-64, 64))
                for _ in range(rng.below(5)):
                    im.set(c, b, rng.range(1, 63), rng.choice([1, -1, 1, -1, 2, -2, 3, 5, -9, 31, -32]))
            elif kind == "extreme":
                im.set(c, b, 0, rng.choice([dcmin, dcmax, dcmax, dcmin, 0, -1]))   # maximal DC differences
                for k in range(1, 64):
                    if rng.chance(3, 4):
                        im.set(c, b, k, rng.choice([acmax, -acmax, acmax, -acmax, 1 << (P + 1), -(1 << (P + 1)), 1, -1]))
            elif kind == "runs":
                # zero runs of exactly 15/16/17/31/32/47/48/62 before a coefficient, coefficient 63
                im.set(c, b, 0, rng.range(-8, 8))
                pos = rng.choice([0, 0, 1, 2])
                while True:
                    run = rng.choice([15, 16, 17, 31, 32, 47, 48, 62, 14, 0, 1, 30, 33, 46, 49])
                    pos += run + 1
                    if pos > 63:
                        break
                    im.set(c, b, ZZ[pos], rng.choice([1, -1, 1, -1, 2, -2, acmax, -acmax, 3]))
                if rng.chance(1, 2):
                    im.set(c, b, 63, rng.choice([1, -1, 5, acmax]))
            elif kind == "planes":
                # bit-plane structure for successive approximation: powers of two and neighbours
                im.set(c, b, 0, rng.choice([0, 1, -1, 2, -2, 3, -3, 4, -4, 7, -8, 255, -256, dcmax, dcmin]))
                for k in range(1, 64):
                    if rng.chance(1, 2):
                        e = rng.below(P + 2)
                        im.set(c, b, k, rng.choice([1, -1]) * min(acmax, (1 << e) + rng.choice([0, 0, -1, 1, (1 << e) - 1])))
            elif kind == "zero":
                pass
    return im


# ------------------------------------------------------------------- scan scripts
def random_complete_script(rng, im, max_al=None):
    """Walk the successive-approximation grammar: per component and coefficient the
    sequence of (Ah,Al) is (0,a0),(a0,a0-1),..,(1,0); DC before AC; DC scans may be
    interleaved over components in the same state; AC scans are single-component bands."""
    nc = im.NC
    lim = 13 if im.P == 12 else 10
    if max_al is None:
        max_al = rng.choice([0, 1, 1, 2, 2, 3, 3, 1, 2, lim])
    st = [[-1] * 64 for _ in range(nc)]
    scans = []
    for _ in range(400):
        todo = [(c, k) for c in range(nc) for k in range(64) if st[c][k] != 0]
        if not todo:
            return scans
        c, k = rng.choice(todo)
        if k != 0 and st[c][0] < 0:
            k = 0
        if k == 0:
            group = [c2 for c2 in range(nc) if st[c2][0] == st[c][0]]
            group = sorted(rng.shuffle(group)[:rng.range(1, min(4, len(group)))] + [c])
            group = sorted(set(group))[:4]
            while sum(im.samp[g][0] * im.samp[g][1] for g in group) > 10 and len(group) > 1:
                group.remove(rng.choice([g for g in group if g != c] or group))
            if c not in group:
                group = [c]
            if st[c][0] < 0:
                ah, al = 0, rng.range(0, max_al)
            else:
                ah, al = st[c][0], st[c][0] - 1
            for g in group:
                st[g][0] = al
            scans.append((group, 0, 0, ah, al))
        else:
            s = st[c][k]
            lo = hi = k
            while lo > 1 and st[c][lo - 1] == s and rng.chance(5, 6):
                lo -= 1
            while hi < 63 and st[c][hi + 1] == s and rng.chance(11, 12):
                hi += 1
            if s < 0:
                ah, al = 0, rng.range(0, max_al)
            else:
                ah, al = s, s - 1
            for j in range(lo, hi + 1):
                st[c][j] = al
            scans.append(([c], lo, hi, ah, al))
    # finish deterministically
    for c in range(nc):
        if st[c][0] < 0:
            scans.append(([c], 0, 0, 0, 0)); st[c][0] = 0
        while st[c][0] > 0:
            scans.append(([c], 0, 0, st[c][0], st[c][0] - 1)); st[c][0] -= 1
        k = 1
        while k < 64:
            s = st[c][k]
            hi = k
            while hi < 63 and st[c][hi + 1] == s:
                hi += 1
            if s != 0:
                ah, al = (0, 0) if s < 0 else (s, s - 1)
                scans.append(([c], k, hi, ah, al))
                for j in range(k, hi + 1):
                    st[c][j] = al
            else:
                k = hi + 1
    return scans


def refinement_script(rng, im):
    """DC, AC first at Al = al0 over 1..63 (possibly in bands), then AC refinement down to 0"""
    al0 = im.al0
    scans = [(list(range(im.NC))[:4], 0, 0, 0, 0)]
    if im.NC > 4:
        scans.append((list(range(4, im.NC)), 0, 0, 0, 0))
    for c in range(im.NC):
        cuts = sorted(set([1, 64] + ([rng.range(2, 63)] if rng.chance(1, 3) else [])))
        for a, b in zip(cuts, cuts[1:]):
            scans.append(([c], a, b - 1, 0, al0))
    for al in range(al0 - 1, -1, -1):
        for c in rng.shuffle(range(im.NC)):
            cuts = sorted(set([1, 64] + ([rng.range(2, 63)] if rng.chance(1, 3) else [])))
            for a, b in zip(cuts, cuts[1:]):
                scans.append(([c], a, b - 1, al + 1, al))
    return scans


def special_configs(rng, im):
    if im.kind == "bigmcu":
        mpr = im.mcus_per_row()
        m = im.mcus_interleaved()
        rows_over = cdiv(65536, mpr)
        pick = lambda: rng.choice(["ri=65535", "ri=65536", "ri=%d" % rng.range(65537, m + 5), "ri=100000", "ri=%d" % (m - 1),
                                   "rows=%d" % rows_over, "rows=%d" % (rows_over + rng.range(1, 5)), "rows=%d" % max(1, rows_over - 1)])
        over = lambda: rng.choice(["ri=65536", "ri=%d" % rng.range(65537, m - 1), "rows=%d" % rows_over, "rows=%d" % (rows_over + 1)])
        return [("opt", "src=a nobi nosu opt=1 " + over()), ("def", "src=a nobi opt=0 " + pick()), ("prog", "src=a nobi nosu prog=1 " + pick()),
                ("arith", "src=a nobi nosu arith=1 " + over()), ("trans", "src=p nobi nosu opt=1 " + pick())]
    if im.kind == "arithri":
        return [("arith", "src=a nobi arith=1 ri=1 " + rand_dac(rng)), ("arith", "src=a nobi arith=1 ri=%d" % rng.choice([2, 3])),
                ("arithprog", "src=a nobi arith=1 prog=1 ri=1"), ("arithprog", "src=a nobi arith=1 ri=%d scans=%s" % (rng.choice([1, 2, 3]),
                 script_str(random_complete_script(rng, im, max_al=1))))]
    if im.kind == "expmcu":
        return [("def", "src=a opt=0"), ("opt", "src=a opt=1"), ("noninter", "src=a opt=0 scans=" + script_str(sequential_script(rng, im))),
                ("trans", "src=p opt=0 ri=%d" % rng.choice([0, 0, 1])), ("prog", "src=a prog=1")]
    if im.kind == "deephuff":
        return [("opt", "src=a opt=1"), ("script", "src=a scans=0:0:0:0:0/0:1:63:0:0"), ("prog", "src=a prog=1"),
                ("script", "src=a ri=%d scans=0:0:0:0:%d/0:1:%d:0:0/0:%d:63:0:0/0:0:0:1:0" % (rng.choice([0, 7]), 1, 20, 21)),
                ("trans", "src=p opt=1 ri=%d" % rng.choice([1, 50]))]
    sc = "scans=" + script_str(refinement_script(rng, im))
    return [("script", "src=a " + sc), ("script", "src=a %s ri=%d" % (sc, rng.choice([1, 2, 7, 16, 17, 40]))),
            ("opt", "src=a opt=1"), ("trans", "src=p scans=" + script_str(refinement_script(rng, im))),
            ("arithprog", "src=a arith=1 " + sc)]


def script_str(scans):
    return "/".join("%s:%d:%d:%d:%d" % (",".join(map(str, cs)), ss, se, ah, al) for cs, ss, se, ah, al in scans)


def sequential_script(rng, im):
    """partition of the components into scans (non-interleaved / partially interleaved)"""
    comps = list(range(im.NC))
    groups = []
    order = rng.shuffle(comps)
    while order:
        n = rng.range(1, min(4, len(order)))
        g = sorted(order[:n])
        while sum(im.samp[x][0] * im.samp[x][1] for x in g) > 10:
            g = g[:-1]
        groups.append(g)
        order = [x for x in order if x not in g]
    return [(g, 0, 63, 0, 0) for g in groups]


def scan_mcus(im, comps):
    if len(comps) == 1:
        return im.wb[comps[0]] * im.hb[comps[0]]
    return cdiv(im.W, 8 * im.hmax) * cdiv(im.H, 8 * im.vmax)


def rand_restart(rng, im):
    m = im.mcus_interleaved()
    r = rng.choice([0, 0, 1, 2, 7, max(1, m - 1), m, 65535, "rows"])
    if r == "rows":
        return "rows=%d" % rng.range(1, 3)
    return "ri=%d" % r if r else ""


def rand_dac(rng):
    """arithmetic conditioning: DC L <= U in 0..15, AC Kx in 1..63 (boundaries of the 3(k-1) / k <= Kx splits)"""
    if rng.chance(1, 3):
        return ""
    l = rng.choice([0, 0, 1, 2, 5, 15])
    u = rng.choice([x for x in [0, 1, 2, 3, 7, 15] if x >= l])
    return "dcl=%d dcu=%d ack=%d" % (l, u, rng.choice([1, 2, 5, 6, 20, 62, 63]))


def gen_configs(rng, im, n):
    cfgs = []
    fams = ["def", "opt", "prog", "script", "arith", "arithprog", "noninter", "trans", "script", "prog", "trans"]
    for i in range(n):
        fam = fams[i] if i < 3 else rng.choice(fams)
        rs = rand_restart(rng, im) if (i >= 2 or rng.chance(1, 2)) else ""
        if fam == "trans" and not cfgs:
            fam = "opt"
        if fam == "def":
            c = "src=a opt=0 " + rs
        elif fam == "opt":
            c = "src=a opt=1 " + rs
        elif fam == "prog":
            c = "src=a prog=1 " + rs
        elif fam == "script":
            c = "src=a %s scans=%s" % (rs, script_str(random_complete_script(rng, im)))
        elif fam == "arith":
            c = "src=a arith=1 %s %s" % (rs, rand_dac(rng))
        elif fam == "arithprog":
            c = "src=a arith=1 %s %s %s" % (rs, rand_dac(rng), "prog=1" if rng.chance(1, 2) else "scans=" + script_str(random_complete_script(rng, im)))
        elif fam == "noninter":
            c = "src=a opt=%d %s scans=%s" % (rng.below(2), rs, script_str(sequential_script(rng, im)))
        else:
            sub = rng.choice(["opt=0", "opt=1", "prog=1", "arith=1", "scans=" + script_str(random_complete_script(rng, im)),
                              "scans=" + script_str(sequential_script(rng, im))])
            c = "src=p %s %s" % (sub, rs)
        cfgs.append((fam, " ".join(c.split())))
    return cfgs


# ------------------------------------------------------------------- JPEG parsing
def parse_jpeg(b):
    """markers only: frame, tables in effect per scan, restart interval, entropy-coded bytes"""
    i = 2
    frame = None
    dht = {}
    dac = {}
    dri = 0
    scans = []
    while i + 4 <= len(b):
        if b[i] != 0xFF:
            return None
        m = b[i + 1]
        if m == 0xD9:
            break
        L = (b[i + 2] << 8) | b[i + 3]
        seg = b[i + 4:i + 2 + L]
        if m in (0xC0, 0xC1, 0xC2, 0xC9, 0xCA):
            nc = seg[5]
            frame = {"sof": m, "P": seg[0], "H": (seg[1] << 8) | seg[2], "W": (seg[3] << 8) | seg[4],
                     "comps": [(seg[6 + 3 * k], seg[7 + 3 * k] >> 4, seg[7 + 3 * k] & 15) for k in range(nc)]}
        elif m == 0xC4:
            j = 0
            while j < len(seg):
                tcth = seg[j]
                bits = list(seg[j + 1:j + 17])
                n = sum(bits)
                dht[tcth] = (bits, list(seg[j + 17:j + 17 + n]))
                j += 17 + n
        elif m == 0xCC:
            for j in range(0, len(seg) - 1, 2):
                dac[seg[j]] = seg[j + 1]
        elif m == 0xDD:
            dri = (seg[0] << 8) | seg[1]
        if m == 0xDA:
            ns = seg[0]
            comps = [(seg[1 + 2 * k], seg[2 + 2 * k] >> 4, seg[2 + 2 * k] & 15) for k in range(ns)]
            ss, se, ahal = seg[1 + 2 * ns], seg[2 + 2 * ns], seg[3 + 2 * ns]
            j = i + 2 + L
            start = j
            while j + 1 < len(b):
                if b[j] == 0xFF and b[j + 1] != 0 and not (0xD0 <= b[j + 1] <= 0xD7):
                    break
                j += 1
            scans.append({"comps": comps, "Ss": ss, "Se": se, "Ah": ahal >> 4, "Al": ahal & 15, "ri": dri,
                          "dht": dict(dht), "dac": dict(dac), "data": b[start:j]})
            i = j
        else:
            i += 2 + L
    return frame, scans


def restart_markers_consistent(im, jpg):
    """model-free: in every scan the number of RSTn markers is ceil(MCUs / DRI) - 1 (0 without DRI) and
    they are numbered 0,1,..,7,0,..  -- i.e. the encoder restarted at the interval the file announces"""
    pj = parse_jpeg(jpg)
    if not pj or not pj[0]:
        return "unparsable"
    frame, scans = pj
    ids = [c[0] for c in frame["comps"]]
    for sidx, s in enumerate(scans):
        comps = [ids.index(c[0]) for c in s["comps"]]
        n = scan_mcus(im, comps)
        d = s["data"]
        nums = [d[k + 1] - 0xD0 for k in range(len(d) - 1) if d[k] == 0xFF and 0xD0 <= d[k + 1] <= 0xD7]
        exp = (cdiv(n, s["ri"]) - 1) if s["ri"] else 0
        if len(nums) != exp:
            return "scan %d: DRI=%d, %d MCUs => %d RSTn expected, %d found" % (sidx, s["ri"], n, exp, len(nums))
        if nums != [k % 8 for k in range(len(nums))]:
            return "scan %d: RSTn numbering %s.." % (sidx, nums[:10])
    return None


def tbl_str(t):
    if t is None:
        return "-"
    bits, vals = t
    return "%s %d %s" % (" ".join(map(str, bits)), len(vals), " ".join(map(str, vals)))


def model_line(im, jpg):
    """model driver case for one Huffman-coded JPEG; returns (line, scans) or None"""
    pj = parse_jpeg(jpg)
    if not pj or not pj[0]:
        return None
    frame, scans = pj
    arith = 1 if frame["sof"] in (0xC9, 0xCA) else 0
    prog = 1 if frame["sof"] in (0xC2, 0xCA) else 0
    ids = [c[0] for c in frame["comps"]]
    parts = []
    for s in scans:
        s["kind"] = ("arith-" if arith else "huff-") + ("seq" if not prog else ("dc" if s["Ss"] == 0 else "ac") + ("first" if s["Ah"] == 0 else "refine")) \
            + ("-rst" if s["ri"] else "")
        toks = [str(s["ri"]), str(s["Ss"]), str(s["Se"]), str(s["Ah"]), str(s["Al"]), str(len(s["comps"]))]
        for cid, td, ta in s["comps"]:
            need_dc = (not prog) or s["Ss"] == 0 and s["Ah"] == 0
            need_ac = (not prog) or s["Ss"] > 0
            if arith:
                lu = s["dac"].get(td, 0x10)
                toks += ["%d:%d:%d:%d:%d:%d" % (ids.index(cid), td, ta, lu & 15, lu >> 4, s["dac"].get(0x10 | ta, 5)), "-", "-"]
                continue
            toks.append(str(ids.index(cid)))
            toks.append(tbl_str(s["dht"].get(td) if need_dc else None))
            toks.append(tbl_str(s["dht"].get(0x10 | ta) if need_ac else None))
        toks.append(bytes(s["data"]).hex())
        parts.append(" ".join(toks))
    line = "jpg %s %d %d | %s | %s | %s" % (im.head(), prog, arith, im.samp_s(), " ".join(im.entries), " ; ".join(parts))
    return line, scans


# ------------------------------------------------------------------- scripts stream
def mutate_script(rng, scans, nc):
    scans = [(list(cs), ss, se, ah, al) for cs, ss, se, ah, al in scans]
    kind = rng.choice(["field", "drop", "dup", "swap", "comp", "none", "trunc", "field", "field"])
    if not scans:
        return scans, kind
    i = rng.below(len(scans))
    cs, ss, se, ah, al = scans[i]
    if kind == "field":
        f = rng.below(4)
        d = rng.choice([-1, 1, 1, 2, -2, 63, 11, 14])
        if f == 0:
            ss = max(-1, min(70, ss + d))
        elif f == 1:
            se = max(-1, min(70, se + d))
        elif f == 2:
            ah = max(-1, min(15, ah + d))
        else:
            al = max(-1, min(15, al + d))
        scans[i] = (cs, ss, se, ah, al)
    elif kind == "drop":
        del scans[i]
    elif kind == "dup":
        scans.insert(rng.below(len(scans) + 1), scans[i])
    elif kind == "swap":
        j = rng.below(len(scans))
        scans[i], scans[j] = scans[j], scans[i]
    elif kind == "comp":
        cs = list(cs)
        op = rng.below(4)
        if op == 0:
            cs.append(rng.range(-1, nc))
        elif op == 1 and cs:
            cs[rng.below(len(cs))] = rng.range(-1, nc + 1)
        elif op == 2:
            cs = cs[::-1]
        else:
            cs = cs + cs + [0, 1, 2]
        scans[i] = (cs, ss, se, ah, al)
    elif kind == "trunc":
        scans = scans[:i]
    return scans, kind


class FakeIm:
    def __init__(self, nc, P):
        self.NC, self.P = nc, P
        self.samp = [(1, 1)] * nc


def gen_script_cases(rng, n):
    out = []
    for i in range(n):
        nc = rng.choice([1, 2, 3, 3, 4])
        P = rng.choice([8, 8, 12])
        fim = FakeIm(nc, P)
        base = rng.choice(["prog", "prog", "prog", "seq", "rand", "empty"]) if i > 3 else "prog"
        if base == "prog":
            sc = random_complete_script(rng, fim)
            if rng.chance(1, 3):
                kind = "valid-complete"
            else:
                sc, k = mutate_script(rng, sc, nc)
                if rng.chance(1, 3):
                    sc, k2 = mutate_script(rng, sc, nc)
                    k += "+" + k2
                kind = "mut-" + k
        elif base == "seq":
            sc = sequential_script(rng, fim)
            kind = "seq-valid"
            if rng.chance(1, 2):
                sc, k = mutate_script(rng, sc, nc)
                kind = "seq-mut-" + k
        elif base == "empty":
            sc, kind = [], "empty"
        else:
            sc = []
            for _ in range(rng.range(1, 6)):
                cs = sorted(set(rng.below(nc) for _ in range(rng.range(1, 3)))) if rng.chance(4, 5) else [rng.range(-1, nc + 1) for _ in range(rng.range(0, 6))]
                ss = rng.choice([0, 0, 1, rng.range(0, 63)])
                se = rng.choice([0, 63, 5, rng.range(0, 63)])
                sc.append((cs, ss, se, rng.choice([0, 0, 1, 2]), rng.choice([0, 0, 1, 2, 9])))
            kind = "random"
        if any(ss != 0 and se == 0 for cs, ss, se, ah, al in sc[:1]):
            continue           # lossless scripts belong to C02 (jpeg_write_coefficients refuses them)
        if any(len(cs) == 0 for cs, ss, se, ah, al in sc):
            continue           # not expressible in the line format
        out.append(("script %d %d %s" % (nc, P, script_str(sc) if sc else "-"), kind))
    return out


# ----------------------------------------------------------------------------- run
def run(ctx):
    rng = ctx.rng
    ctx.regen(["NatOrder", "RestartClamp", "EntropyBytes", "ScanCtl", "RestartCtr"])
    ctx.prove()
    drv = ctx.model_driver()
    flavours = ["simd", "plain"] if not ctx.thorough() else ["simd", "plain", "asan"]
    exes = {fl: ctx.cc("c03", ["c03.c"], fl, libs=("jpeg",)) for fl in flavours}

    cases = []    # (harness line, kind, image or None, cfgs or None)
    if ctx.replay:
        r = json.load(open(ctx.replay))
        l = r.get("case", "")
        if l.startswith("script "):
            cases.append((l, "replay-script", None, None))
        elif l.startswith("img "):
            cases.append(rebuild_case(l))
        return run_cases(ctx, cases, exes, drv, flavours)
    cdir = os.path.join(core.VERIF, "corpus", "C03")
    if os.path.isdir(cdir):
        for fn in sorted(os.listdir(cdir)):
            for l in open(os.path.join(cdir, fn)):
                l = l.strip()
                if l.startswith("script "):
                    cases.append((l, "corpus-script", None, None))
                elif l.startswith("img "):
                    cases.append(rebuild_case(l))
    kinds = ["dense", "sparse", "extreme", "runs", "planes", "zero"]
    nimg = ctx.n(64, 2500)
    for i in range(nimg):
        kind = kinds[i % len(kinds)] if i < 3 * len(kinds) else rng.choice(kinds)
        P = 12 if ((i // len(kinds)) + i) % 3 == 2 else 8
        im = gen_image(rng, kind, P)
        cfgs = gen_configs(rng, im, ctx.n(5, 7))
        cases.append((case_line(im, cfgs), "img-%s-%d" % (kind, P), im, cfgs))
    # flat images with > 32767 consecutive all-zero blocks
    for j, kind in enumerate(["flat1", "flat", "flatchroma"][:ctx.n(2, 3)] * ctx.n(1, 4)):
        P = 12 if rng.chance(1, 4) else 8
        im = gen_image(rng, kind, P)
        im.model_variants = {1, 2} if not ctx.thorough() else None
        m = im.mcus_interleaved()
        cfgs = [("prog", "src=a nobi prog=1"),
                ("script", "src=a nobi nosu scans=" + script_str(random_complete_script(rng, im, max_al=rng.choice([0, 1, 2])))),
                ("opt", "src=a nobi nosu opt=1 ri=%d" % rng.choice([0, 32767, 32768, 40000, m - 1])),
                ("prog", "src=a nobi nosu prog=1 ri=%d" % rng.choice([32767, 32768, 32769, 33000, 65535])),
                ("trans", "src=p nobi nosu arith=1")]
        cases.append((case_line(im, cfgs), "img-%s-%d" % (kind, P), im, cfgs))
    # AC refinement scans that overflow the correction-bit buffer; scans with more than 65535 MCUs
    for j in range(ctx.n(8, 120)):
        kind = ["denseref", "denseref-new", "denseref-part", "denseref"][j % 4]
        P = 12 if j % 3 == 2 else 8
        im = gen_image(rng, kind, P)
        cfgs = special_configs(rng, im)
        cases.append((case_line(im, cfgs), "img-%s-%d" % (kind, P), im, cfgs))
    for j in range(ctx.n(2, 30)):
        im = gen_image(rng, "deephuff", 12 if j % 3 == 2 else 8)
        cfgs = special_configs(rng, im)
        cases.append((case_line(im, cfgs), "img-deephuff-%d" % im.P, im, cfgs))
    for j in range(ctx.n(1, 8)):
        im = gen_image(rng, "arithri", 8)
        cfgs = special_configs(rng, im)
        cases.append((case_line(im, cfgs), "img-arithri-8", im, cfgs))
    for j in range(ctx.n(6, 120)):
        im = gen_image(rng, "expmcu", 8)
        cfgs = special_configs(rng, im)
        cases.append((case_line(im, cfgs), "img-expmcu-8", im, cfgs))
    # compression from pixels through a suspending destination (single-pass Huffman): bytes must not depend on it
    for j in range(ctx.n(10, 300)):
        nc = rng.choice([1, 1, 3])
        samp = [rng.choice([(1, 2), (1, 2), (2, 2), (1, 1), (1, 4), (2, 1)])] if nc == 1 else \
            [rng.choice([(2, 2), (2, 2), (2, 1), (1, 2), (4, 2)]), (1, 1), (1, 1)]
        W = rng.range(20, 200)
        H = rng.range(8 * samp[0][1] + 1, 80)
        sizes = sorted(set(rng.range(520, 1600) for _ in range(6)) | {520, 4096})
        line = "pix %d %d %d %d %d | %s | opt=0 %s | %s" % (nc, W, H, rng.choice([30, 50, 75, 90]), rng.below(1 << 30),
                                                          " ".join("%d %d" % hv for hv in samp), rng.choice(["", "", "ri=3", "rows=1"]),
                                                          " ".join(map(str, sizes)))
        cases.append((line, "pix-susp-dest", None, None))
    for j in range(ctx.n(1, 6)):
        im = gen_image(rng, "bigmcu", 8)
        cfgs = special_configs(rng, im)
        cases.append((case_line(im, cfgs), "img-bigmcu-8", im, cfgs))
    for l, kind in gen_script_cases(rng, ctx.n(1000, 40000)):
        cases.append((l, "script-" + kind, None, None))
    return run_cases(ctx, cases, exes, drv, flavours)


def strip_px(l):
    return " ".join(t for t in l.split(" ") if not (t.startswith("px=") or t.startswith("bi=")))  # ck=/su= are compared


def case_line(im, cfgs):
    return "img %s | %s | %s | %s" % (im.head(), im.samp_s(), " ".join(im.entries), " ; ".join(c for _, c in cfgs))


def rebuild_case(l):
    sec = [s.strip() for s in l[4:].split("|")]
    P, NC, W, H = map(int, sec[0].split())
    sv = list(map(int, sec[1].split()))
    im = Image(P, W, H, [(sv[2 * c], sv[2 * c + 1]) for c in range(NC)])
    im.entries = sec[2].split()
    im.kind = "replay"
    cfgs = [("replay", c.strip()) for c in sec[3].split(";")]
    return (l, "img-replay-%d" % P, im, cfgs)


def run_cases(ctx, cases, exes, drv, flavours):
    outs = {}
    for fl, exe in exes.items():
        lines = []
        crashes = 0
        while len(lines) < len(cases):
            rest = cases[len(lines):]
            rc, out, err = sh2([exe], input=("\n".join(c[0] for c in rest) + "\n").encode(), timeout=3000)
            got = out.decode().split("\n")
            got.pop()                       # "" after the final newline, or a partial line cut by a crash
            lines += got[:len(rest)]
            if len(lines) < len(cases):
                # the harness died on case len(lines): report it, mark it, continue after it
                idx = len(lines)
                ctx.violation("implementation crashed/aborted (%s build, rc=%d) on case %d: %s" % (fl, rc, idx, err[-300:]),
                              {"case": cases[idx][0], "flavour": fl, "stderr": err[-2000:]},
                              signature="crash:" + cases[idx][1])
                lines.append("<crash>")
                crashes += 1
                if crashes >= 8:
                    lines += ["<crash>"] * (len(cases) - len(lines))
        outs[fl] = lines
        ctx.log("harness %s: %d cases" % (fl, len(cases)))
    ref = outs[flavours[0]]

    # ---- model lines: one per distinct JPEG (the builds normally emit identical bytes) ----
    mlines_in = []      # (key, line, scans)
    seen = set()
    for i, (line, kind, im, cfgs) in enumerate(cases):
        if im is None:
            if not line.startswith("pix "):
                mlines_in.append(((i, -1, ""), line, None))
            continue
        for fl in flavours:
            if outs[fl][i] == "<crash>":
                continue
            for j, p in enumerate(outs[fl][i].split(" | ")):
                if p.startswith("ok ") and (im.model_variants is None or j in im.model_variants):
                    hx = p.split()[1]
                    key = (i, j, hx)
                    if key in seen:
                        continue
                    seen.add(key)
                    ml = model_line(im, bytes.fromhex(hx))
                    if ml:
                        mlines_in.append((key, ml[0], ml[1]))
    mout = None
    if drv and mlines_in:
        rc, out, err = sh2("ulimit -s 4000000 2>/dev/null || ulimit -s unlimited 2>/dev/null; exec %s" % drv,
                           input=("\n".join(m[1] for m in mlines_in) + "\n").encode(), timeout=3000)
        mo = out.decode().split("\n")
        ctx.log("model driver: %d lines" % len(mlines_in))
        if rc != 0 or len(mo) < len(mlines_in):
            ctx.broken_tie("model-driver", "extracted model failed: rc=%d after %d of %d lines: %s" % (rc, len(mo) - 1, len(mlines_in), err[-200:]))
        else:
            mout = {m[0]: (mo[k], m[2]) for k, m in enumerate(mlines_in)}

    disagree = 0
    nscans_checked = 0
    checked_keys = set()
    for i, (line, kind, im, cfgs) in enumerate(cases):
        impl = ref[i]
        for fl in flavours[1:]:
            # pixel hashes are compared within a build only: SIMD and scalar IDCT may legitimately differ on
            # coefficients that no forward DCT produces (that is C05's subject), the coded BYTES may not
            if impl != "<crash>" and outs[fl][i] != "<crash>" and strip_px(outs[fl][i]) != strip_px(impl):
                ctx.violation("builds disagree (%s vs %s): different bytes / result for the same coefficients and settings" % (flavours[0], fl),
                              {"case": line, flavours[0]: impl[:2000], fl: outs[fl][i][:2000]}, signature="build-disagree:" + kind)
        if im is None and line.startswith("pix "):
            # ---------------- suspending destination: same bytes as the one-buffer compression
            if impl != "<crash>":
                for fl in flavours:
                    o = outs[fl][i]
                    if o == "<crash>":
                        continue
                    if not o.startswith("ok "):
                        ctx.violation("compressing pixels fails (%s build): %s" % (fl, o[:80]), {"case": line, "flavour": fl}, signature="pix-error")
                        continue
                    for part in o.split(" | ")[1:]:
                        sz, res = part.split("=", 1)
                        sd = ctx.cov.setdefault("suspending_dest_runs", {})
                        sd[res.split("@")[0].split(":")[0]] = sd.get(res.split("@")[0].split(":")[0], 0) + 1
                        if res.startswith("ne"):
                            ctx.violation("compression through a suspending destination of %s bytes emits different bytes than the one-buffer "
                                          "compression (%s build): first difference at offset %s" % (sz, fl, res[3:]),
                                          {"case": line, "flavour": fl, "bufsize": sz, "result": part}, signature="suspdest-mismatch")
                        elif res.startswith("err") and "CANT_SUSPEND" not in res:
                            ctx.violation("compression through a suspending destination of %s bytes fails: %s" % (sz, res),
                                          {"case": line, "flavour": fl}, signature="suspdest-error")
            ctx.count(kind, 1, ("pix", impl[:80]))
            continue
        if im is None:
            # ---------------- scan script: property-level + model
            if impl == "<crash>":
                continue
            if kind.endswith("valid-complete") or kind.endswith("seq-valid"):
                if not impl.startswith("ok"):
                    ctx.violation("validate_script rejects a script built by the successive-approximation grammar: " + impl,
                                  {"case": line, "impl": impl}, signature="script-valid-rejected")
            if mout is not None:
                m = mout[(i, -1, "")][0]
                if m != impl:
                    disagree += 1
                    if disagree <= 3:
                        ctx.log("script model/impl disagree:", line[:200], "| model:", m, "| impl:", impl)
                    ctx.broken_tie("correspondence:script", "validate_script model=%s impl=%s on %s" % (m, impl, line[:300]))
            ctx.count(kind.split("+")[0], 1, ("script", line))
            continue
        # ---------------- image: property-level oracle on every variant, in every build
        for fl in flavours:
            if outs[fl][i] == "<crash>":
                continue
            parts = outs[fl][i].split(" | ")
            pxs = {}
            for j, p in enumerate(parts):
                fam, cfg = cfgs[j] if j < len(cfgs) else ("?", "?")
                rep = {"case": "img %s | %s | %s | %s" % (im.head(), im.samp_s(), " ".join(im.entries),
                                                         " ; ".join(c for _, c in cfgs[:j + 1])),
                       "variant": cfg, "impl": p[-300:], "flavour": fl}
                if not p.startswith("ok "):
                    ctx.violation("writing in-range coefficients failed under '%s' (%s build): %s" % (cfg[:160], fl, p[:80]), rep,
                                  signature="write-error:%s:%s" % (fam, p.split()[1] if len(p.split()) > 1 else "?"))
                    continue
                f = p.split()
                rb, w, px = f[2], f[3], f[4]
                if rb != "rb=1":
                    ctx.violation("coefficients changed by entropy coding under '%s' (%s build): %s (c,block,k:got/expected)" % (cfg[:160], fl, rb),
                                  rep, signature="coef-mismatch:%s" % fam)
                elif w != "w=0":
                    ctx.violation("decoder warns on the library's own output under '%s' (%s build, %s)" % (cfg[:160], fl, w), rep,
                                  signature="warn:%s" % fam)
                su = next((t for t in f[5:] if t.startswith("su=")), "su=skip")
                bi = next((t for t in f[5:] if t.startswith("bi=")), "bi=skip")
                ck = next((t for t in f[5:] if t.startswith("ck=")), "ck=1")
                if ck.startswith("ck=0"):
                    ctx.violation("decoding through a refilling (stdio-like, chunked) source gives different coefficients than the one-buffer "
                                  "decode under '%s' (%s build): %s" % (cfg[:160], fl, ck), rep, signature="chunked-mismatch:%s" % fam)
                if fl == flavours[0] and "arith=1" in cfg and " ri=" in cfg + " ":
                    ctx.cov["arith_segments_ending_in_stuffed_ff"] = ctx.cov.get("arith_segments_ending_in_stuffed_ff", 0) + \
                        sum(f[1].count("ff00ffd%d" % d) for d in range(8))
                if su.startswith("su=0"):
                    ctx.violation("decoding through a suspending source gives different coefficients than the one-buffer decode "
                                  "under '%s' (%s build): %s (chunk size:c,block,k:got/expected)" % (cfg[:160], fl, su), rep,
                                  signature="suspend-mismatch:%s" % fam)
                if bi.startswith("bi=error") and bi != "bi=error:FRACT_SAMPLE_NOTIMPL":
                    ctx.violation("buffered-image decode fails under '%s' (%s build): %s" % (cfg[:160], fl, bi), rep,
                                  signature="buffered-error:%s" % fam)
                elif bi != "bi=skip" and not bi.startswith("bi=error") and not px.startswith("px=error") and bi[3:].split("/")[0] != px[3:]:
                    ctx.violation("buffered-image mode (an output pass per scan, then the final pass) ends in a different image than the "
                                  "plain decode under '%s' (%s build): final %s vs %s" % (cfg[:160], fl, bi, px), rep,
                                  signature="buffered-mismatch:%s" % fam)
                if not px.startswith("px=error"):
                    pxs.setdefault(px, []).append(cfg)
                elif px != "px=error:FRACT_SAMPLE_NOTIMPL":    # documented limitation of jdsample.c, not an entropy matter

                    ctx.violation("pixel decoding of the library's own output fails under '%s' (%s build): %s" % (cfg[:160], fl, px), rep,
                                  signature="pixel-error:%s" % fam)
                bad_rst = restart_markers_consistent(im, bytes.fromhex(f[1]))
                if bad_rst:
                    ctx.violation("restart markers in the stream do not match the announced DRI under '%s' (%s build): %s" % (cfg[:160], fl, bad_rst),
                                  rep, signature="dri-mismatch:%s" % fam)
                if fl == flavours[0]:
                    ctx.count("variant-" + fam, 1, (kind, f[1][-64:]))
                # ---- model correspondence (once per distinct JPEG)
                key = (i, j, f[1])
                if mout is not None and key in mout and key not in checked_keys:
                    checked_keys.add(key)
                    mo, scans = mout[key]
                    if " | D" not in mo:
                        disagree += 1
                        ctx.broken_tie("correspondence:driver", "driver output malformed: %s on %s" % (mo[:100], cfg[:160]))
                        continue
                    es, d = mo.split(" | D")
                    es = [e.strip() for e in es.split(" ; ")]
                    bad = None
                    for sidx, sc in enumerate(scans):
                        nscans_checked += 1
                        sk = ctx.cov.setdefault("scans_byte_compared_by_kind", {})
                        sk[sc.get("kind", "?")] = sk.get(sc.get("kind", "?"), 0) + 1
                        exp = ("E " + bytes(sc["data"]).hex()).strip()
                        got = es[sidx] if sidx < len(es) else "E <missing>"
                        if got != exp:
                            bad = "model encoder differs from real bytes (%s build) in scan %d (comps=%s Ss=%d Se=%d Ah=%d Al=%d ri=%d): model=%s.. real=%s.." % (
                                fl, sidx, [c[0] for c in sc["comps"]], sc["Ss"], sc["Se"], sc["Ah"], sc["Al"], sc["ri"], got[:60], exp[:60])
                            break
                    if bad is None and d.strip() != im.expected_sparse():
                        bad = "model decoder does not recover the input coefficients from the real bytes (%s build): %s" % (fl, d.strip()[:80])
                    if bad:
                        disagree += 1
                        if disagree <= 3:
                            ctx.log("model/impl disagree:", bad, "\n  cfg:", cfg[:300])
                        if rb == "rb=1":
                            ctx.broken_tie("correspondence:" + fam, bad + " || cfg=" + cfg + " || case=" + rep["case"][:1500])
            if len(pxs) > 1:
                ctx.violation("variants of the same coefficients decode to different pixels (%s build): %s" % (
                              fl, {k: [x[:80] for x in v[:2]] for k, v in pxs.items()}),
                              {"case": line, "flavour": fl, "pixels": {k: v for k, v in pxs.items()}}, signature="pixel-mismatch:" + kind)
        ctx.count(kind, 1, (kind, impl[-80:]))
        if i % 37 == 0:
            ctx.sample({"case": line[:300], "impl": impl[-200:]})
    if mout is not None:
        ctx.cov["traces_validated_against_impl"] = len(mlines_in)
        ctx.cov["scans_byte_compared"] = nscans_checked
    ctx.cov["model_impl_disagreements"] = disagree
    ctx.cov["rule"] = ("coefficient images (dense, sparse, extreme amplitude +-(2^(P+2)-1) and maximal DC differences, exact zero runs "
                       "15/16/17/31/32/47/48/62 and coefficient 63, bit-plane patterns, all-zero, flat images with > 32767 consecutive "
                       "zero blocks) x 8/12 bit x sampling layouts x {default, optimised, simple progression, random complete scripts, "
                       "arithmetic, restart 0/1/2/7/MCUs-1/MCUs/65535/rows, non-interleaved, transcoding}; scan scripts valid/mutated/random; "
                       "a case is distinct when its output bytes are distinct")
    ctx.assume += ["correspondence is differential testing of the hand models against the real coders; it supports the tie, not the theorems",
                   "arithmetic scans: the extracted binarisation (model/ArithBin.v) + the QM coder model of C04 (model/T81Arith.v) must reproduce the real bytes and decode them",
                   "MCU layout / dummy blocks of jctrans.c compress_output are reproduced by glue in ml/C03_driver.ml, checked only by byte equality"]
    ctx.trusted.append("checks/C03.py marker parser (SOF/DHT/DRI/SOS) used to cut the real files into scans for the model")
