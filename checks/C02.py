"""C02 -- lossless mode reproduces every sample exactly.

0. translator  : tools/gen_Lossless.py reads PREDICTOR1..7, the wiring of jpeg_[un]difference1..7, the
                 first-row switch, the "& 0xFFFF" masks, restart accounting and the category-coder constants
                 from the CURRENT sources -> coq/gen/GenLossless.v; C02_source_facts proves they are the model's.
1. proofs      : coq/props/C02.v (model/Lossless.v, proofs/LosslessProofs.v): row round trip for every
                 predictor incl. the modulo-2^16 reconstruction, whole component over any number of rows
                 and restart resets, difference categories 0..16 / bit level, point transform.
2. correspondence (same case lines through ml/C02_driver and the C harnesses):
   kernel  harness/c02k.c (x3: BITS_IN_JSAMPLE 8/12/16) includes jclossls.c / jdlossls.c and calls the
           REAL jpeg_difference*/jpeg_undifference*/reset_predictor/scalers: diff rows, undiff rows,
           row sequences with restart counters, point transform;
   api     harness/c02.c: tj3Compress8/12/16 + tj3Decompress*, and jpeg_enable_lossless +
           jpeg{,12,16}_write_scanlines / read_scanlines (scan scripts, restart rows/blocks, buffered-image),
           with the difference arrays observed at cinfo->entropy->encode_mcus / decode_mcus and compared
           with the model's; 'inj' replaces the encoder's differences by arbitrary ones so that the real
           category coder + decoder + undifferencer are compared with the model on values such as +-32768.
3. property-level oracle on the implementation's own output for every case: decoded samples ==
   (s >> Pt) << Pt, decoded differences == encoder differences (mod 2^16), undiff(diff(row)) == row.
"""
import json
import os
from vlib import core
from vlib.core import sh2

WIDTHS = [1, 2, 3, 7, 8, 9, 16, 17, 33]
# TJPF_*: RGB BGR RGBX BGRX XBGR XRGB GRAY RGBA BGRA ABGR ARGB CMYK
TJ_PF = {1: [6], 3: [0, 1, 2, 3, 4, 5, 7, 8, 9, 10], 4: [11]}


def bits_of_prec(prec):
    return 8 if prec <= 8 else 12 if prec <= 12 else 16


def content(rng, kind, prec, w, h):
    mx = (1 << prec) - 1
    n = w * h
    if kind == "alt":
        ph = rng.below(2)
        return [mx if ((i + ph) & 1) else 0 for i in range(n)]
    if kind == "checker":
        return [mx if (((i % w) + (i // w)) & 1) else 0 for i in range(n)]
    if kind == "noise":
        return [rng.below(mx + 1) for _ in range(n)]
    if kind == "gradient":
        a, b, c = rng.range(1, 1 + mx // 4 + 1), rng.range(0, mx), rng.range(0, mx)
        return [((i % w) * a + (i // w) * b + c) % (mx + 1) for i in range(n)]
    if kind == "const":
        v = rng.choice([0, mx, mx >> 1, (mx >> 1) + 1, rng.below(mx + 1)])
        return [v] * n
    ext = [0, mx, mx - 1 if mx > 1 else 0, 1, (mx + 1) >> 1, ((mx + 1) >> 1) - 1]
    return [rng.choice(ext) for _ in range(n)]


KINDS = ["alt", "checker", "noise", "gradient", "const", "extreme"]


def sp(xs):
    return " ".join(map(str, xs))


def gen_api(rng, i, prec=None, psv=None, wide=None, bad=False, splits=False):
    prec = prec or rng.range(2, 16)
    psv = psv or rng.range(1, 7)
    pt = 0 if rng.chance(1, 2) else rng.range(0, prec - 1)
    if bad:        # outside 1 <= Ss <= 7 / 0 <= Al < precision: both APIs must refuse
        if rng.chance(1, 2):
            psv = rng.choice([0, 8, -1, 15])
        else:
            pt = rng.choice([prec, prec + 1, 16, -1])
    w = wide or rng.choice(WIDTHS)
    h = rng.choice([1, 1, 2, 3, 4, 5, 8]) if not wide else rng.choice([2, 3])
    if splits:     # small image: the stream is cut at EVERY byte position
        w = rng.choice([1, 2, 3, 7, 9])
        h = rng.choice([1, 2, 3, 4])
    kind = "tj" if rng.chance(1, 2) else "lj"
    nc = rng.choice([1, 3, 3, 4]) if kind == "tj" else rng.choice([1, 2, 3, 3, 4, 4, rng.range(5, 10)])
    rmode = rng.choice([0, 0, 1, 1, 2]) if not wide else 1
    rval = 0
    ri = 0
    if rmode == 1:
        rval = rng.choice([1, 1, 2, 3, h, h + 1])
        ri = min(rval * w, 65535)       # per_scan_setup: MIN(restart_in_rows * MCUs_per_row, 65535)
    elif rmode == 2:
        if rng.chance(5, 6):
            rval = w * rng.range(1, 3)
        else:
            rval = w * rng.range(1, 3) + rng.range(1, max(1, w - 1))    # refused unless w == 1
        ri = rval
    pairs = [(psv, pt)]
    scanmode = bufimg = bottomup = pad = 0
    if kind == "tj":
        pf = rng.choice(TJ_PF[nc])
        bottomup = rng.below(2)
        pad = rng.choice([0, 0, 1, 5])
        bufimg = rng.below(2)
    else:
        pf = rng.choice([0, 0, 1] + ([2, 3] if nc == 3 else []))
        bufimg = rng.below(2)
        scanmode = rng.choice([0, 0, 1, 2, 3]) if nc >= 2 else rng.choice([0, 1])
        if bad:
            scanmode = rng.choice([0, 1])
        if scanmode == 2:
            pairs = [(psv, pt)] + [(rng.range(1, 7), 0 if rng.chance(1, 2) else rng.range(0, prec - 1)) for _ in range(nc - 1)]
        elif scanmode == 3:
            p2 = (rng.range(1, 7), 0 if rng.chance(1, 2) else rng.range(0, prec - 1))
            pairs = [(psv, pt)] + [p2] * (nc - 1)
        if nc > 4 and bad:
            nc = 4
        if nc > 4:          # more components than fit one scan: JCS_UNKNOWN with a scan script
            pf = 1
            scanmode = rng.choice([2, 4])
            pairs = []
            for g in range(0, nc, 3 if scanmode == 4 else 1):
                p = (rng.range(1, 7), 0 if rng.chance(1, 2) else rng.range(0, prec - 1))
                pairs += [p] * (min(3, nc - g) if scanmode == 4 else 1)
    pairs = (pairs + [pairs[-1]] * nc)[:nc]
    # how the libjpeg decode is fed: 0 = jpeg_mem_src, else a suspending source manager
    sus = -1 if splits else rng.choice([0, 0, 1, 3, 7, 16, 61, -2, -2]) if not wide else rng.choice([0, 4096, 61])
    seed = rng.below(1 << 30)
    ck = KINDS[i % len(KINDS)] if rng.chance(1, 2) else rng.choice(KINDS)
    planes = [content(rng, ck, prec, w, h) for _ in range(nc)]
    line = "api %s %d %d %d %d %d %d %d %d %d %d %d %d %d %d | %s | %s" % (
        kind, prec, w, h, nc, ri, rmode, rval, pf, bottomup, pad, scanmode, bufimg, sus, seed,
        sp([x for p in pairs for x in p]), " | ".join(sp(p) for p in planes))
    meta = {"prec": prec, "w": w, "h": h, "nc": nc, "ri": ri, "pairs": pairs, "planes": planes, "kind": kind, "bad": bad,
            "key": (kind, prec, psv, pt != 0, w, h, nc, rmode, ck, scanmode, pf, sus)}
    return line, "api-" + kind, meta


DIFF_EDGE = [0, 1, -1, 2, -2, 32767, -32767, 32768, -32768, 32769, -32769, 65535, -65535, 65536, -65536,
             65537, 98304, -98304, 131070, -131070, 131071, -131071, 16384, -16384, 255, -255, 256, -256]


def gen_diffs(rng, n):
    m = rng.below(3)
    if m == 0:
        return [rng.choice(DIFF_EDGE) for _ in range(n)]
    if m == 1:
        return [rng.range(-131071, 131071) for _ in range(n)]
    return [rng.choice(DIFF_EDGE) if rng.chance(1, 3) else rng.range(-40000, 40000) for _ in range(n)]


def gen_inj(rng):
    prec = rng.range(2, 16)
    psv = rng.range(1, 7)
    pt = 0 if rng.chance(2, 3) else rng.range(0, prec - 1)
    w = rng.choice(WIDTHS)
    h = rng.choice([1, 2, 3, 5])
    nc = rng.range(1, 4)
    ri = rng.choice([0, 0, w, 2 * w])
    planes = [gen_diffs(rng, w * h) for _ in range(nc)]
    line = "inj %d %d %d %d %d | %d %d | %s" % (prec, w, h, nc, ri, psv, pt, " | ".join(sp(p) for p in planes))
    return line, "inj", {"planes": planes, "nc": nc, "key": ("inj", prec, psv, pt != 0, w, h, nc, ri != 0)}


def sample_range(rng, bits, prec, pt, wild):
    if wild:        # anything the sample type can hold: model-vs-code only
        if bits == 12:
            return lambda: rng.range(-32768, 32767)
        return lambda: rng.below(1 << bits)
    mx = (1 << (prec - pt)) - 1
    ext = [0, mx, max(0, mx - 1), (mx + 1) >> 1]
    return lambda: rng.choice(ext) if rng.chance(1, 2) else rng.below(mx + 1)


def gen_kernel(rng, i):
    which = ["row", "row", "und", "seq", "scale"][i % 5]
    prec = rng.range(2, 16)
    bits = bits_of_prec(prec)
    psv = 1 + (i // 5) % 7
    pt = 0 if rng.chance(1, 2) else rng.range(0, prec - 1)
    w = rng.choice(WIDTHS + [64])
    if which == "row":
        first = 1 if rng.chance(1, 4) else 0
        wild = rng.chance(1, 5)
        f = sample_range(rng, bits, prec, pt, wild)
        if rng.chance(1, 4):
            mx = (1 << (prec - pt)) - 1
            cur = [mx if (k & 1) else 0 for k in range(w)]
            prev = [0 if (k & 1) else mx for k in range(w)] if rng.chance(1, 2) else [mx] * w
        else:
            cur = [f() for _ in range(w)]
            prev = [f() for _ in range(w)]
        line = "row %d %d %d %d | %s | %s" % (prec, pt, psv, first, sp(prev), sp(cur))
        return line, "k%d" % bits, "row", {"cur": cur, "key": ("row", prec, psv, first, pt != 0, w, wild)}
    if which == "und":
        first = 1 if rng.chance(1, 4) else 0
        prev = [rng.below(65536) for _ in range(w)]
        diffs = gen_diffs(rng, w)
        line = "und %d %d %d %d | %s | %s" % (prec, pt, psv, first, sp(prev), sp(diffs))
        return line, "k%d" % bits, "und", {"key": ("und", prec, psv, first, w)}
    if which == "seq":
        h = rng.choice([1, 2, 3, 4, 6, 9])
        if rng.chance(1, 12):
            psv = rng.choice([0, 8])           # no case in the switch: stays on the first-row differencer
        mpr = w if rng.chance(3, 4) else rng.range(1, 40)
        ri = rng.choice([0, mpr, 2 * mpr, 3 * mpr]) if rng.chance(7, 8) else rng.range(1, 100)
        f = sample_range(rng, bits, prec, 0, False)
        s = [f() for _ in range(w * h)]
        line = "seq %d %d %d %d %d %d %d | %s" % (prec, pt, psv, ri, mpr, w, h, sp(s))
        return line, "k%d" % bits, "seq", {"key": ("seq", prec, psv, pt != 0, w, h, ri // mpr if mpr else 0)}
    f = sample_range(rng, bits, prec, 0, False)
    s = [f() for _ in range(w)]
    line = "scale %d %d %d | %s" % (bits, prec, pt, sp(s))
    return line, "k%d" % bits, "scale", {"s": s, "pt": pt, "key": ("scale", prec, pt, w)}


def clear_low(s, pt):
    return (s >> pt) << pt


def parse_groups(txt):
    """' 1 2 / 3 4' -> [[1,2],[3,4]]"""
    return [[int(x) for x in g.split()] for g in txt.split("/")]


def parse_api_out(line):
    """ok ed .. ; dd .. ; out ..  ->  dict of groups"""
    if not line.startswith("ok "):
        return None
    res = {}
    for part in line[3:].split(";"):
        part = part.strip()
        name, _, rest = part.partition(" ")
        if name in ("tb", "ecs", "buf", "lz"):
            res[name] = rest
            continue
        res[name] = None if rest.strip() == "-" else parse_groups(rest)
    return res


def oracle(case, impl):
    """property-level oracle on the implementation's own output; returns None or a message"""
    line, target, kind, meta = case
    if kind in ("api-tj", "api-lj"):
        if impl == "rej":
            return None       # the compressor refused the parameters: nothing to reproduce
        if meta.get("bad"):
            return "predictor/point transform outside the legal range was accepted: " + impl[:80]
        r = parse_api_out(impl)
        if r is None:
            return "round trip failed: " + impl[:120]
        exp = [[clear_low(s, meta["pairs"][ci][1]) for s in meta["planes"][ci]] for ci in range(meta["nc"])]
        if r.get("out") != exp:
            for ci in range(meta["nc"]):
                got = r["out"][ci] if r.get("out") and ci < len(r["out"]) else []
                for k, (a, b) in enumerate(zip(got, exp[ci])):
                    if a != b:
                        return ("decoded sample differs from the original: component %d x=%d y=%d got %d expected %d"
                                % (ci, k % meta["w"], k // meta["w"], a, b))
            return "decoded image has the wrong shape"
        if r.get("ed") is not None:
            for e, d in zip(r["ed"], r["dd"]):
                if [x & 0xFFFF for x in e] != [x & 0xFFFF for x in d]:
                    return "decoded differences are not congruent (mod 2^16) to the encoder's differences"
        return None
    if kind == "inj":
        r = parse_api_out(impl)
        if r is None:
            return "differences were not accepted/decoded: " + impl[:120]
        for ci in range(meta["nc"]):
            if [x & 0xFFFF for x in r["dd"][ci]] != [x & 0xFFFF for x in meta["planes"][ci]]:
                return "decode_mcus(encode_mcus(d)) is not congruent to d modulo 2^16"
            if any(not (-32767 <= x <= 32768) for x in r["dd"][ci]):
                return "decoded difference outside -32767..32768"
        return None
    if kind == "row":
        cur = meta["cur"]
        if all(0 <= s < 65536 for s in cur):
            u = impl.split("| u")
            if len(u) != 2 or [int(x) for x in u[1].split()] != cur:
                return "undifference(difference(row)) != row"
        return None
    if kind == "scale":
        parts = impl[1:].split("|")
        if len(parts) == 2:
            up = [int(x) for x in parts[1].split()]
            if up != [clear_low(s, meta["pt"]) for s in meta["s"]]:
                return "upscale(downscale(s)) != (s >> Pt) << Pt"
        return None
    return None


def run(ctx):
    rng = ctx.rng
    ctx.regen(["Lossless", "StdHuff"])      # StdHuff: imported by proofs/HuffCodeProofs.v (C19 inverse theorem)
    ctx.prove()
    drv = ctx.model_driver()
    flavours = ["simd", "asan"]
    exes = {}
    for fl in flavours:
        exes[fl] = {"api": ctx.cc("c02", ["c02.c"], fl, libs=("turbojpeg",))}
        for b in (8, 12, 16):
            exes[fl]["k%d" % b] = ctx.cc("c02k%d" % b, ["c02k.c"], fl, libs=("jpeg",), extra="-DBITS_IN_JSAMPLE=%d" % b)

    cases = []      # (line, target, kind, meta)
    if ctx.replay:
        r = json.load(open(ctx.replay))
        if r.get("case"):
            cases.append(classify(r["case"]))
        return run_cases(ctx, cases, exes, drv, flavours)

    cdir = os.path.join(core.VERIF, "corpus", "C02")
    if os.path.isdir(cdir):
        for fn in sorted(os.listdir(cdir)):
            for l in open(os.path.join(cdir, fn)):
                l = l.strip()
                if l and not l.startswith("#"):
                    cases.append(classify(l))

    napi = ctx.n(1500, 40000)
    i = 0
    for prec in range(2, 17):          # every precision x predictor at least once
        for psv in range(1, 8):
            line, kind, meta = gen_api(rng, i, prec, psv)
            cases.append((line, "api", kind, meta))
            i += 1
    while i < napi:
        line, kind, meta = gen_api(rng, i)
        cases.append((line, "api", kind, meta))
        i += 1
    for _ in range(ctx.n(120, 3000)):       # every split position of the stream, suspending source
        line, kind, meta = gen_api(rng, i, splits=True)
        cases.append((line, "api", kind, meta))
        i += 1
    for _ in range(ctx.n(40, 1000)):
        line, kind, meta = gen_api(rng, i, bad=True)
        cases.append((line, "api", kind, meta))
        i += 1
    # wide rows: restart_in_rows * width above / below the 16-bit DRI limit
    for wide in [65500, 40000, 21845] + ([32768, 21846, 13107, 65499] if ctx.thorough() else []):
        line, kind, meta = gen_api(rng, i, wide=wide)
        cases.append((line, "api", kind, meta))
        i += 1
    for _ in range(ctx.n(200, 3000)):
        line, kind, meta = gen_inj(rng)
        cases.append((line, "api", kind, meta))
    if ctx.thorough():                 # every difference value -131072..131071 once
        for k in range(64):
            vals = list(range(-131072 + 4096 * k, -131072 + 4096 * (k + 1)))
            cases.append(("inj 16 64 64 1 %d | %d 0 | %s" % (64 * (k % 3), 1 + k % 7, sp(vals)), "api", "inj",
                          {"planes": [vals], "nc": 1, "key": ("inj-exhaustive", k)}))
    for k in range(ctx.n(4000, 60000)):
        line, target, kind, meta = gen_kernel(rng, k)
        cases.append((line, target, kind, meta))
    return run_cases(ctx, cases, exes, drv, flavours)


def classify(line):
    """case line (corpus / replay) -> (line, target, kind, meta)"""
    f = [x.strip() for x in line.split("|")]
    hd = f[0].split()
    if hd[0] == "api":
        a = [int(x) for x in hd[2:]]
        prec, w, h, nc, ri = a[0], a[1], a[2], a[3], a[4]
        pp = [int(x) for x in f[1].split()]
        pairs = [(pp[2 * k], pp[2 * k + 1]) for k in range(len(pp) // 2)]
        pairs = (pairs + [pairs[-1]] * nc)[:nc]
        planes = [[int(x) for x in f[2 + c].split()] for c in range(nc)]
        bad = any(not (1 <= a <= 7 and 0 <= b < prec) for a, b in pairs)
        return (line, "api", "api-" + hd[1], {"prec": prec, "w": w, "h": h, "nc": nc, "ri": ri, "pairs": pairs, "bad": bad,
                                             "planes": planes, "kind": hd[1], "key": ("corpus", line[:60])})
    if hd[0] == "inj":
        nc = int(hd[4])
        planes = [[int(x) for x in f[2 + c].split()] for c in range(nc)]
        return (line, "api", "inj", {"planes": planes, "nc": nc, "key": ("corpus", line[:60])})
    if hd[0] == "scale":
        return (line, "k%s" % hd[1], "scale", {"s": [int(x) for x in f[1].split()], "pt": int(hd[3]), "key": ("corpus", line[:60])})
    bits = bits_of_prec(int(hd[1]))
    meta = {"key": ("corpus", line[:60])}
    if hd[0] == "row":
        meta["cur"] = [int(x) for x in f[2].split()]
    return (line, "k%d" % bits, hd[0], meta)


def run_cases(ctx, cases, exes, drv, flavours):
    targets = ["api", "k8", "k12", "k16"]
    idx = {t: [i for i, c in enumerate(cases) if c[1] == t] for t in targets}
    outs = {}
    for fl in flavours:
        res = [None] * len(cases)
        for t in targets:
            if not idx[t]:
                continue
            inp = ("\n".join(cases[i][0] for i in idx[t]) + "\n").encode()
            rc, out, err = sh2([exes[fl][t]], input=inp, timeout=3000)
            lines = out.decode().split("\n")
            if lines and lines[-1] == "":
                lines.pop()
            if rc != 0 or len(lines) < len(idx[t]):
                bad = cases[idx[t][min(len(lines), len(idx[t]) - 1)]]
                ctx.violation("implementation crashed/aborted (%s build, %s harness, rc=%d): %s" % (fl, t, rc, err[-300:]),
                              {"case": bad[0], "target": t, "flavour": fl, "stderr": err[-2000:]},
                              signature="crash:" + bad[2])
                lines += ["<no output>"] * (len(idx[t]) - len(lines))
            for j, i in enumerate(idx[t]):
                res[i] = lines[j]
        outs[fl] = res
    mlines = None
    if drv:
        inp = ("\n".join(c[0] for c in cases) + "\n").encode()
        rc, out, err = sh2([drv], input=inp, timeout=3000)
        mlines = out.decode().split("\n")
        if rc != 0 or len(mlines) < len(cases):
            ctx.broken_tie("model-driver", "extracted model failed: rc=%d %s" % (rc, err[-200:]))
            mlines = None

    ref = outs[flavours[0]]
    disagree = 0
    rejected = 0
    dist = {"sus": {}, "pf_tj": {}, "scanmode": {}, "restart": {}, "ecs_with_stuffing": 0, "ecs_with_rst": 0,
            "ecs_compared": 0, "buffers_compared": 0, "first_row_cases": 0, "later_row_cases": 0, "category16_inj": 0}
    for i, case in enumerate(cases):
        line, target, kind, meta = case
        impl = ref[i]
        bad = oracle(case, impl)
        if bad:
            ctx.violation("%s: %s" % (kind, bad), {"case": line, "target": target, "impl": impl[:4000]},
                          signature="%s:%s" % (kind, bad.split(":")[0][:60]))
        for fl in flavours[1:]:
            if outs[fl][i] != impl:
                ctx.violation("builds disagree (%s vs %s)" % (flavours[0], fl),
                              {"case": line, "target": target, flavours[0]: impl[:2000], fl: outs[fl][i][:2000]},
                              signature="build-disagree:" + kind)
        if impl == "rej":
            rejected += 1
        # distribution over the case splits of the model (both sides of each `if`)
        if kind in ("api-tj", "api-lj"):
            hdr = line.split("|")[0].split()
            if len(hdr) >= 16:
                dist["sus"][hdr[14]] = dist["sus"].get(hdr[14], 0) + 1
                dist["restart"][hdr[7]] = dist["restart"].get(hdr[7], 0) + 1
                if kind == "api-tj":
                    dist["pf_tj"][hdr[9]] = dist["pf_tj"].get(hdr[9], 0) + 1
                else:
                    dist["scanmode"][hdr[12]] = dist["scanmode"].get(hdr[12], 0) + 1
            if "; ecs" in impl:
                e = impl.split("; ecs")[1].split(";")[0]
                dist["ecs_compared"] += 1
                dist["ecs_with_stuffing"] += 1 if " 255 0" in e else 0
                dist["ecs_with_rst"] += 1 if " 255 20" in e or " 255 21" in e else 0
            if "; buf " in impl and not impl.rstrip().endswith("buf -"):
                dist["buffers_compared"] += 1
        elif kind == "row":
            dist["first_row_cases" if line.split()[4] == "1" else "later_row_cases"] += 1
        elif kind == "inj":
            dist["category16_inj"] += sum(1 for pl in meta["planes"] for d in pl if (d & 0xFFFF) == 32768)
        if mlines is not None and mlines[i] != impl:
            disagree += 1
            if disagree <= 3:
                ctx.log("model/impl disagree on", kind, "\n  case :", line[:200], "\n  model:", mlines[i][:200], "\n  impl :", impl[:200])
            if not bad:
                ctx.broken_tie("correspondence:" + kind,
                               "model and implementation differ on: %s || model=%s || impl=%s" % (line[:300], mlines[i][:200], impl[:200]))
        ctx.count(kind, 1, meta.get("key"))
        if i % 397 == 0:
            ctx.sample({"case": line[:300], "impl": impl[:300]})
    if mlines is not None:
        ctx.cov["traces_validated_against_impl"] = len(cases)
    ctx.cov["model_impl_disagreements"] = disagree
    ctx.cov["compressor_refusals"] = rejected
    ctx.cov["distribution"] = dist
    ctx.cov["rule"] = ("API round trips (TurboJPEG 8/12/16 and libjpeg scanline API; precision 2..16 x PSV 1..7 grid, Pt, 1-4 components, "
                       "12 pixel formats, bottom-up, pitch padding, restart rows/blocks, scan scripts, buffered-image decoding; "
                       "0/max alternation, checkerboard, noise, gradient, constant, extreme-value content) with observed difference arrays; "
                       "injected arbitrary differences through the real entropy coder; kernel rows/sequences/scalers of "
                       "jclossls.c/jdlossls.c in the three sample widths; a case is distinct when its parameter key is distinct")
    ctx.assume += ["correspondence is differential testing of the hand model against the real functions; it supports the tie, not the theorem",
                   "pixel-format / row-order / pitch handling (jccolor.c rgb reorder, null conversion, turbojpeg-mp.c row pointers) is "
                   "exercised by the API oracle only, not modelled",
                   "Huffman code of the category symbols is abstract in the bit-level theorem (any prefix code); C19 covers the tables"]
