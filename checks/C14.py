"""C14 -- allocation failures are survived, nothing leaks, configured limits hold.

1. translator   : gen_MemConst (MAX_ALLOC_CHUNK, ALIGN_SIZE, slops, guards of jmemmgr.c, jmemnobs.c
                  no-backing-store facts, the maxPixels/scanLimit/maxMemory comparisons)
2. proofs       : coq/props/C14.v over model/MemMgr.v (all op sequences, all failure oracles)
3. correspondence (a): random / boundary / fault-swept op sequences through the extracted model and
                  through the REAL jpeg_memory_mgr (harness/c14.c, malloc wrapped), heap event trace,
                  pool lists and total_space_allocated compared line by line
4. property-level oracle on the implementation:
   (a) every malloc size <= MAX_ALLOC_CHUNK and >= the request, total_space_allocated = live bytes,
       nothing live after self_destruct, no bad free
   (b) fault-injection catalogue (harness/c14_fi.c): every TurboJPEG / libjpeg entry point x every k
       (single failure, persistent failure from k, pairs): error or success, never a crash (ASan build),
       0 live library blocks after destroy, no double free
   (c) TJPARAM_MAXPIXELS / SCANLIMIT / MAXMEMORY at the threshold
"""
import json
import os
import re
from vlib import core
from vlib.core import sh2

WRAP = "-Wl,--wrap=malloc,--wrap=free,--wrap=calloc,--wrap=realloc,--wrap=posix_memalign,--wrap=aligned_alloc,--wrap=strdup"
WRAP_FI = WRAP + " -rdynamic -ldl"     # harness/c14_fi.c attributes allocation calls to functions (dladdr)
WRAP_MM = WRAP + ",--wrap=jpeg_open_backing_store"      # harness/c14.c can supply a backing store
ENV = {"ASAN_OPTIONS": "detect_leaks=0:allocator_may_return_null=1:max_allocation_size_mb=4096", "UBSAN_OPTIONS": "print_stacktrace=1"}
MAXC = 1000000000
U64 = 1 << 64


# ----------------------------------------------------------------- (a) generators
def pick_pool(rng):
    r = rng.below(20)
    return 1 if r < 11 else 0 if r < 18 else rng.choice([2, -1, 7])


def pick_size(rng, st):
    r = rng.below(100)
    if r < 35:
        return rng.range(0, 300)
    if r < 55:
        return rng.range(300, 40000)
    if r < 70:  # around the slop values / pool remainders
        return rng.choice([1600, 16000, 5000, 50, 1550, 15950, 4950]) + rng.range(-40, 40)
    if r < 80:
        return rng.range(40000, 4000000)
    if r < 88:  # just below / at / above MAX_ALLOC_CHUNK (a real ~1 GB reservation when it succeeds)
        v = MAXC + rng.range(-120, 40)
        if v + 64 <= MAXC:
            if st["big"] >= 2:
                return rng.range(0, 5000)
            st["big"] += 1
        return v
    if r < 94:  # size_t wrap candidates
        return U64 - rng.range(1, 200)
    if r < 97:
        return rng.choice([1 << 63, (1 << 63) - 1, (1 << 32), (1 << 32) - 1, (1 << 31), U64 // 2 + 5])
    return rng.range(MAXC + 1, 1 << 40)


def gen_op(rng, st):
    r = rng.below(100)
    if r < 22:
        return "small %d %d" % (pick_pool(rng), pick_size(rng, st))
    if r < 38:
        return "large %d %d" % (pick_pool(rng), pick_size(rng, st))
    if r < 50:
        q = rng.below(10)
        if q < 6:
            w, rows = rng.range(1, 6000), rng.range(0, 60)
        elif q < 8:
            w, rows = rng.range(1, 64), rng.range(0, 20000)
        elif q < 9:      # width guard / JERR_WIDTH_OVERFLOW boundary
            w, rows = rng.choice([MAXC, MAXC + 1, MAXC - 24, MAXC - 64, 999999936, 999999937, 499999968, 500000000,
                                  (1 << 32) - 1, 1 << 31]) + rng.range(-2, 2), rng.range(1, 3)
            w = max(1, min(w, (1 << 32) - 1))
            if st["big"] >= 2:
                w = rng.range(1, 500)
            else:
                st["big"] += 1
        else:            # several chunks
            if st["big"] >= 1:
                w, rows = rng.range(1, 500), rng.range(0, 30)
            else:
                st["big"] += 3
                w, rows = rng.range(300000, 1200000), rng.range(900, 2400)
        return "sarr %d %d %d" % (pick_pool(rng), w, rows)
    if r < 60:
        q = rng.below(10)
        if q < 8:
            w, rows = rng.range(1, 400), rng.range(0, 40)
        elif q < 9:
            w, rows = rng.choice([7812499, 7812500, 7812501, 3906250, (1 << 32) - 1, 1 << 25]), rng.range(1, 2)
            if st["big"] >= 2:
                w = rng.range(1, 100)
            else:
                st["big"] += 1
        else:
            if st["big"] >= 1:
                w, rows = rng.range(1, 100), rng.range(0, 30)
            else:
                st["big"] += 3
                w, rows = rng.range(20000, 90000), rng.range(100, 300)
        return "barr %d %d %d" % (pick_pool(rng), w, rows)
    if r < 70:
        return "reqs %d %d %d %d" % (1 if rng.chance(9, 10) else pick_pool(rng), rng.range(1, 3000), rng.range(0, 1200), rng.range(1, 16))
    if r < 78:
        return "reqb %d %d %d %d" % (1 if rng.chance(9, 10) else pick_pool(rng), rng.range(1, 300), rng.range(0, 200), rng.range(1, 8))
    if r < 86:
        return "real"
    if r < 90:
        return "maxmem %d" % rng.choice([0, 0, rng.range(1, 5000), rng.range(5000, 300000), rng.range(300000, 50000000), 1 << 40])
    if r < 94:
        return "freep %d" % pick_pool(rng)
    if r < 96:
        return "prec %d" % rng.choice([8, 12, 16, 8])
    if r < 98:
        return "destroy"
    return "init"


def gen_seq(rng, kind):
    st = {"big": 0}
    ops = ["init"] if rng.chance(19, 20) else []
    if kind == "virt":
        ops.append("maxmem %d" % rng.choice([0, rng.range(1000, 400000), rng.range(400000, 30000000)]))
        if rng.chance(1, 3):
            ops.append("prec %d" % rng.choice([12, 16]))
        for _ in range(rng.range(1, 6)):
            if rng.chance(1, 2):
                ops.append("reqs 1 %d %d %d" % (rng.range(1, 4000), rng.range(0, 900), rng.range(1, 16)))
            else:
                ops.append("reqb 1 %d %d %d" % (rng.range(1, 200), rng.range(0, 120), rng.range(1, 8)))
            if rng.chance(1, 4):
                ops.append(gen_op(rng, st))
        ops.append("real")
        for _ in range(rng.range(0, 4)):
            ops.append(rng.choice(["real", "maxmem %d" % rng.range(0, 60000000), "freep 1", gen_op(rng, st),
                                   "reqs 1 %d %d %d" % (rng.range(1, 900), rng.range(0, 300), rng.range(1, 9))]))
        ops.append("real")
    elif kind == "hugevirt":     # SIZE_MAX guard of maximum_space (out_of_memory 10/11); products stay < 2^63
        n = rng.range(3, 5)
        for _ in range(n):
            if rng.chance(2, 3):
                ops.append("reqs 1 %d %d 1" % ((1 << 31) - rng.range(0, 3), (1 << 31) - rng.range(0, 3)))
            else:
                ops.append("reqb 1 %d %d 1" % ((1 << 27) - rng.range(0, 3), (1 << 28) - rng.range(0, 3)))
        ops.append("real")
        ops.append("freep 1")
        ops.append("real")
    else:
        for _ in range(rng.range(3, 26)):
            ops.append(gen_op(rng, st))
    q = rng.below(10)
    if q < 4:
        spec = "none"
    elif q < 7:
        spec = "at " + " ".join(str(rng.range(0, 40)) for _ in range(rng.range(1, 4)))
    else:
        spec = "from %d" % rng.range(0, 30)
    return "seq %s | %s" % (spec, " ; ".join(ops))


def gen_vacc(rng):
    """access_virt_sarray/barray through a window with backing store (supplied by the harness): geometry + script"""
    kind = "b" if rng.chance(2, 5) else "s"
    prec = rng.choice([8, 8, 12, 16]) if kind == "s" else 8
    # sample rows are padded to 2*ALIGN_SIZE by alloc_sarray but do_sarray_io transfers unpadded rows contiguously (latent,
    # unreachable with jmemnobs.c): keep widths that need no padding so that the real backing-store path is meaningful
    width = 64 * rng.range(1, 6) if kind == "s" else rng.range(1, 5)
    rows = rng.choice([rng.range(1, 12), rng.range(12, 60), rng.range(60, 140)])
    maxacc = rng.range(1, min(12, max(1, rows)))
    if rng.chance(1, 8):
        maxacc = rng.range(1, 16)
    pz = rng.below(2)
    unit = 128 if kind == "b" else (2 if prec > 8 else 1)
    strip = maxacc * width * unit
    maxmem = rng.choice([0, 1, 17000, 16400 + strip, 16400 + 2 * strip + rng.range(0, strip), 16400 + 3 * strip, 16400 + rng.range(0, 6) * strip,
                         16400 + rows * width * unit - 1, 16400 + rows * width * unit + 200, 10 ** 7])
    ops, U, val = [], 0, [rng.range(1, 9)]

    def vals(n):
        out = []
        for _ in range(n):
            val[0] = val[0] % 30000 + 1
            out.append(val[0])
        return out
    # a writing pass in strips (possibly partial), then reads / rewrites / faults
    stop = rows if rng.chance(3, 4) else rng.range(0, rows)
    while U < stop and len(ops) < 40:
        n = min(rng.range(1, maxacc) if rng.chance(1, 4) else maxacc, rows - U)
        ops.append("w %d %s" % (U, " ".join(map(str, vals(n)))))
        U += n
    for _ in range(rng.range(3, 18)):
        q = rng.below(20)
        n = rng.range(1, maxacc) if rng.chance(2, 3) else maxacc
        if q < 7:       # read somewhere in the defined part
            s0 = rng.range(0, max(0, U - n)) if U else 0
            ops.append("r %d %d" % (s0, min(n, rows - s0)))
        elif q < 10:    # read ahead / at the end
            s0 = rng.choice([max(0, U - 1), U, max(0, rows - n), rng.range(0, max(0, rows - n))])
            ops.append("r %d %d" % (s0, min(n, rows - s0)))
        elif q < 13:    # rewrite defined rows or continue writing
            s0 = rng.choice([U, rng.range(0, U), max(0, U - n)])
            s0 = min(s0, max(0, rows - 1))
            n2 = max(0, min(n, rows - s0))
            ops.append("w %d %s" % (s0, " ".join(map(str, vals(n2)))))
            if s0 <= U:
                U = max(U, s0 + n2)
        elif q < 15:    # writer skipping rows
            s0 = min(rows, U + rng.range(1, 5))
            ops.append("w %d %s" % (s0, " ".join(map(str, vals(max(0, min(n, rows - s0)))))))
        elif q < 17:    # invalid requests
            ops.append(rng.choice(["r %d %d" % (rng.range(0, rows), maxacc + 1), "r %d %d" % (max(0, rows - 1), 2 + rng.below(3)),
                                   "w %d %s" % (rows, "7"), "r %d 0" % rng.range(0, rows)]))
        else:           # backward scan
            s0 = max(0, (U or rows) - n * rng.range(1, 4))
            ops.append("r %d %d" % (s0, min(n, rows - s0)))
    return "vacc %s %d %d %d %d %d %d | %s" % (kind, prec, width, rows, maxacc, pz, maxmem, " ; ".join(ops))


def vacc_oracle(case, impl):
    """plain-array specification (theorem C14_virt_array_refines_plain_array) judged on the implementation's own line"""
    hd, opss = case[4:].split("|", 1)
    kind, prec, width, rows, maxacc, pz, maxmem = hd.split()
    rows, maxacc, pz = int(rows), int(maxacc), int(pz)
    parts = impl.split(" || ")[0].split(" ; ")
    m = re.match(r"geom inmem=(\d+) rpc=(\d+) open=(\d) total=(\d+)", parts[0])
    if not m:
        return ("virtual-array harness produced no geometry: " + impl[:100], "va-noresult")
    inmem = int(m.group(1))
    ops = [o.strip() for o in opss.split(";") if o.strip()]
    if len(parts) - 1 != len(ops):
        return ("virtual-array harness: %d results for %d accesses: %s" % (len(parts) - 1, len(ops), impl[:200]), "va-noresult")
    L, U = {}, 0
    for o, r in zip(ops, parts[1:]):
        f = o.split()
        s0 = int(f[1])
        if "OUTSIDE-WINDOW" in r:
            return ("access_virt_%carray(start=%d) returned row pointers outside the in-memory window of %d rows: %s" % (kind, s0, inmem, r[:80]), "va-window")
        if f[0] == "r":
            n = int(f[2])
            experr = s0 + n > rows or n > maxacc or (U < s0 + n and not pz)
            if experr != r.startswith("bad"):
                return ("read of rows [%d,%d) with %d defined rows: expected %s, got '%s'" % (s0, s0 + n, U, "JERR_BAD_VIRTUAL_ACCESS" if experr else "success", r[:60]), "va-read-result")
            if not experr:
                mv = re.search(r"\[([-\d ]*)\]", r)
                got = [int(x) for x in mv.group(1).split()] if mv else None
                want = [L[s0 + k] if s0 + k < U else 0 for k in range(n)]
                if got != want:
                    return ("read of rows [%d,%d) returned %s, the rows were last written as %s (rows >= %d are zero)" % (s0, s0 + n, got, want, U), "va-read-values")
        else:
            v = [int(x) for x in f[2:]]
            n = len(v)
            experr = s0 + n > rows or n > maxacc or (U < s0 + n and U < s0)
            if experr != r.startswith("bad"):
                return ("write of rows [%d,%d) with %d defined rows: expected %s, got '%s'" % (s0, s0 + n, U, "JERR_BAD_VIRTUAL_ACCESS" if experr else "success", r[:60]), "va-write-result")
            if not experr:
                for k in range(n):
                    L[s0 + k] = v[k]
                U = max(U, s0 + n)
    if not impl.endswith("end live=0 badfree=0"):
        return ("blocks left after self_destruct: " + impl[-40:], "va-leak")
    return None


SWEEP_OPS = ["init", "small 0 120", "small 1 300", "small 0 4000", "large 1 70000", "sarr 1 700 9", "barr 1 40 6",
             "reqs 1 500 64 8", "reqb 1 30 20 2", "real", "small 1 17000", "freep 1", "sarr 1 64 3", "small 0 20"]


def sweep_cases(ctx, nmalloc):
    out = []
    body = " ; ".join(SWEEP_OPS)
    for k in range(nmalloc + 1):
        out.append(("seq at %d | %s" % (k, body), "sweep-at"))
        out.append(("seq from %d | %s" % (k, body), "sweep-from"))
    if ctx.thorough():
        for a in range(nmalloc):
            for b in range(a + 1, nmalloc + 1):
                out.append(("seq at %d %d | %s" % (a, b, body), "sweep-pair"))
    else:
        for _ in range(60):
            a = ctx.rng.range(0, nmalloc - 1)
            b = ctx.rng.range(a + 1, nmalloc)
            out.append(("seq at %d %d | %s" % (a, b, body), "sweep-pair"))
    return out


# ------------------------------------------------------- (a) oracle on one line
EV = re.compile(r"m(\d+)=(\d+|F)")


def seq_oracle(case, impl, cfg):
    """property-level checks on the implementation's own output line; returns (what, sig) or None"""
    if not case.startswith("seq"):
        return None
    parts = impl.split(" || ")
    if len(parts) != 3:
        return ("memory-manager harness produced no complete result line: " + impl[:120], "mm-noresult")
    ops = [o.strip() for o in case.split("|", 1)[1].split(";") if o.strip()]
    res = [r.strip() for r in parts[0].split(" ; ") if r.strip()]
    hdr = cfg["hdr"]
    # max_memory_to_use bound (theorem C14_max_memory_honoured) judged on the implementation's own results
    arrays, prec, maxmem, known, tprev = [], 8, 0, True, None
    for o, r in zip(ops, res):
        f = o.split()
        okr = r.startswith("ok")
        if f[0] == "prec":
            prec = int(f[1])
        elif f[0] == "init" and okr:
            arrays, maxmem, known = [], 0, True
        elif f[0] == "maxmem" and okr:
            maxmem = int(f[1])
        elif f[0] in ("reqs", "reqb") and okr:
            arrays.append((f[0], int(f[2]), int(f[3]), int(f[4])))
        elif (f[0] == "freep" and f[1] == "1" and okr) or (f[0] == "destroy" and okr):
            arrays, known = [], True
        elif f[0] == "real":
            if okr and known and maxmem > 0 and tprev is not None and arrays:
                unit = lambda k: (2 if prec > 8 else 1) if k == "reqs" else cfg["block"]
                need = sum(rows * w * unit(k) for k, w, rows, acc in arrays)
                minneed = sum(acc * w * unit(k) for k, w, rows, acc in arrays)
                avail = max(maxmem - tprev, 0)
                if need > max(avail, minneed):
                    return ("realize_virt_arrays succeeded with max_memory_to_use=%d and %d bytes already allocated, although the arrays need "
                            "%d bytes (> max(available=%d, one access height each=%d)); expected JERR_NO_BACKING_STORE" % (
                                maxmem, tprev, need, avail, minneed), "mm-maxmem-bound")
            if okr:
                arrays = []
            elif not r.startswith("nomgr"):
                known = False
        mt = re.search(r"\]t=(\d+)", r)
        tprev = int(mt.group(1)) if mt else None
    for o, r in zip(ops, res):
        for sz, rid in EV.findall(r):
            if int(sz) > cfg["max"]:
                return ("malloc(%s) exceeds MAX_ALLOC_CHUNK during '%s'" % (sz, o), "mm-size>max")
        f = o.split()
        if f[0] in ("small", "large") and r.startswith("ok"):
            want = int(f[2])
            got = [int(sz) for sz, rid in EV.findall(r) if rid != "F"]
            if f[0] == "large" and (len(got) != 1 or got[0] < want + hdr):
                return ("alloc_large(%d) succeeded with malloc sizes %s (size_t wrap?)" % (want, got), "mm-large-wrap")
            if f[0] == "small" and got and got[-1] < want + hdr:
                return ("alloc_small(%d) created a pool of %d bytes (size_t wrap?)" % (want, got[-1]), "mm-small-wrap")
            if want > cfg["max"]:
                return ("%s of %d bytes > MAX_ALLOC_CHUNK succeeded" % (f[0], want), "mm-size-guard")
        if r.startswith("err"):
            return ("unexpected libjpeg error %s during '%s'" % (r.split("[")[0], o), "mm-unexpected-error")
    m = re.search(r"t=(\d+) maxmem=-?\d+ live=(\d+) bytes=(\d+) badfree=(\d+)", parts[1])
    if m:
        t, live, nbytes, bad = map(int, m.groups())
        if t != nbytes:
            return ("total_space_allocated=%d but the live library blocks hold %d bytes" % (t, nbytes), "mm-total")
        npools = sum(len([x for x in re.search(tag + r"=(\S*)", parts[1]).group(1).split(",") if x]) for tag in ("S0", "S1", "L0", "L1"))
        if live != npools + 1:
            return ("%d live blocks but %d pools on the manager's lists (+1 control block)" % (live, npools), "mm-lists")
    else:
        m2 = re.search(r"nomgr live=(\d+) bytes=\d+ badfree=(\d+)", parts[1])
        if not m2:
            return ("unparsable summary: " + parts[1][:100], "mm-noresult")
        if int(m2.group(1)) != 0:
            return ("%s blocks live although the manager is destroyed" % m2.group(1), "mm-leak-after-destroy")
    m = re.search(r"end live=(\d+) badfree=(\d+)", parts[2])
    if not m:
        return ("unparsable end: " + parts[2][:100], "mm-noresult")
    if int(m.group(1)) != 0:
        return ("self_destruct left %s blocks allocated" % m.group(1), "mm-leak-after-destroy")
    if int(m.group(2)) != 0:
        return ("free() of a block that was not live (%s times)" % m.group(2), "mm-badfree")
    return None


def run_lines(exe, lines, args=(), timeout=1200):
    """run a line-protocol harness; on a crash restart after the crashing case.
    returns (outputs aligned with lines, list of (index, rc, stderr))"""
    outs = [None] * len(lines)
    crashes = []
    start = 0
    while start < len(lines):
        inp = ("\n".join(lines[start:]) + "\n").encode()
        rc, out, err = sh2([exe] + list(args), input=inp, timeout=timeout, env=ENV)
        got = out.decode("utf-8", "replace").split("\n")
        if got and got[-1] == "":
            got.pop()
        n = min(len(got), len(lines) - start)
        for i in range(n):
            outs[start + i] = got[i]
        if rc == 0 and n == len(lines) - start:
            break
        crashes.append((start + n, rc, err[-1500:]))
        if len(crashes) > 20:
            break
        start = start + n + 1
    return outs, crashes


def part_a(ctx, drv, flavours):
    rng = ctx.rng.fork()
    exes = {fl: ctx.cc("c14", ["c14.c"], fl, libs=("jpeg",), extra=WRAP_MM) for fl in flavours}
    cases = []      # (line, kind)
    cdir = os.path.join(core.VERIF, "corpus", "C14")
    if os.path.isdir(cdir):
        for fn in sorted(os.listdir(cdir)):
            for l in open(os.path.join(cdir, fn)):
                if l.strip().startswith("seq"):
                    cases.append((l.strip(), "corpus"))
    # number of mallocs of the sweep sequence (from the model-independent harness)
    n = ctx.n(1500, 30000)
    kinds = ["mix", "mix", "mix", "virt", "virt", "hugevirt"]
    for i in range(n):
        k = kinds[i % len(kinds)] if i < 3 * len(kinds) else rng.choice(kinds[:5] if rng.chance(49, 50) else kinds)
        cases.append((gen_seq(rng, k), k))
    for i in range(ctx.n(600, 8000)):
        cases.append((gen_vacc(rng), "vacc"))
    return exes, cases


def exec_part_a(ctx, drv, exes, cases, add_sweep=True):
    total_dis = 0
    heavy = None          # case lines that obtain > 16 MB in total (measured on the first, non-ASan, flavour)
    for fl, exe in exes.items():
        rc, out, err = sh2([exe], input=b"sizes\n", env=ENV, timeout=60)
        cfgline = out.decode().strip()
        if rc != 0 or not cfgline.startswith("cfg "):
            ctx.violation("memory-manager harness does not start (%s): %s" % (fl, err[-300:]), {"flavour": fl}, signature="mm-harness-start")
            continue
        cfg = {k: int(v) for k, v in (x.split("=") for x in cfgline.split()[1:])}
        mine = list(cases)
        if add_sweep:
            # how many mallocs does the sweep sequence make without failures?
            rc, out, err = sh2([exe], input=(cfgline + "\nseq none | " + " ; ".join(SWEEP_OPS) + "\n").encode(), env=ENV, timeout=60)
            nm = len(EV.findall(out.decode()))
            mine += sweep_cases(ctx, nm)
        if fl.startswith("asan") and heavy is not None:
            # ~1 GB reservations cost ~50 ms each under ASan (shadow poisoning): keep only a few of those cases there
            budget = [ctx.n(15, 300)]

            def keep(c):
                if c[0] not in heavy:
                    return True
                budget[0] -= 1
                return budget[0] >= 0
            mine = [c for c in mine if keep(c)]
        lines = [cfgline] + [c[0] for c in mine]
        outs, crashes = run_lines(exe, lines)
        for idx, rc, err in crashes:
            case = lines[min(idx, len(lines) - 1)]
            ctx.violation("memory manager crashed/aborted (%s build, rc=%d): %s" % (fl, rc, err[-400:]),
                          {"case": case, "cfg": cfgline, "flavour": fl, "stderr": err}, signature="mm-crash:" + fl)
        mouts = None
        if drv:
            rc, out, err = sh2([drv], input=("\n".join(lines) + "\n").encode(), timeout=1800)
            mouts = out.decode().split("\n")
            if rc != 0 or len(mouts) < len(lines):
                ctx.broken_tie("model-driver", "extracted model failed: rc=%d %s" % (rc, err[-200:]))
                mouts = None
        if outs[0] != "cfg ok":
            ctx.broken_tie("cfg:" + fl, "harness rejects its own configuration line: %s" % outs[0])
        if mouts is not None and mouts[0] != "cfg ok":
            ctx.broken_tie("constants:" + fl, "constants compiled into the library differ from the translator's (gen_MemConst): %s  [%s]" % (mouts[0], cfgline))
        dis = 0
        if heavy is None and not fl.startswith("asan"):
            heavy = set()
            for i, (line, kind) in enumerate(mine):
                if outs[i + 1] and sum(int(sz) for sz, rid in EV.findall(outs[i + 1]) if rid != "F") > (16 << 20):
                    heavy.add(line)
        for i, (line, kind) in enumerate(mine):
            impl = outs[i + 1]
            if impl is None:
                continue
            bad = vacc_oracle(line, impl) if line.startswith("vacc") else seq_oracle(line, impl, cfg)
            if bad:
                ctx.violation(bad[0] + " (%s build)" % fl, {"case": line, "cfg": cfgline, "flavour": fl, "impl": impl[:3000]},
                              signature=bad[1] + ":" + kind)
            if mouts is not None and mouts[i + 1] != impl:
                dis += 1
                if dis <= 3:
                    ctx.log("model/impl disagree (%s, %s)\n  case : %s\n  model: %s\n  impl : %s" % (fl, kind, line[:300], mouts[i + 1][:600], impl[:600]))
                    ctx.broken_tie("correspondence:%s:%s" % (kind, fl), "model and real jpeg_memory_mgr differ on: %s || model=%s || impl=%s" % (
                        line[:400], mouts[i + 1][:300], impl[:300]))
            if line.startswith("vacc") and impl and fl == list(exes)[0]:
                d = ctx.cov.setdefault("vacc_distribution", {"window_with_backing_store": 0, "whole_array_in_memory": 0, "with_swap_out": 0,
                                                             "with_swap_in": 0, "bad_virtual_access": 0, "prezero_read_ahead": 0})
                d["window_with_backing_store" if " open=1 " in impl else "whole_array_in_memory"] += 1
                d["with_swap_out"] += " x=[W" in impl
                d["with_swap_in"] += bool(re.search(r"x=\[(W\S+ )*R", impl))
                d["bad_virtual_access"] += "; bad" in impl
                d["prezero_read_ahead"] += bool(re.search(r"\[[-\d ]* 0\]", impl))
            key = re.sub(r"=\d+", "=", impl.split(" || ")[0])[:400] if impl else None
            ctx.count("mm-" + kind + ":" + fl, 1, ("mm", key))
            if i % 499 == 0 and fl == list(exes)[0]:
                ctx.sample({"case": line[:300], "impl": impl[:300]})
        total_dis += dis
        if mouts is not None:
            ctx.cov["traces_validated_against_impl"] += len(mine)
    ctx.cov["model_impl_disagreements"] = total_dis


# ------------------------------------------------------------- (b) catalogue
RES = re.compile(r"result (\S+) (\S+) (-?\d+) (-?\d+) rc=(-?\d+) n=(\d+) live=(\d+) leakbytes=(\d+) firstleak=(\S+) badfree=(\d+) peak=(-?\d+) stolen=(\d+) badptr=(\d+) \| ?(.*)")
INITNAME = {"c": "compress", "d": "decompress", "t": "transform"}


def fi_signature(name, mode, k1, k2, n, info, ninit):
    """stable signature; leaks that originate in tj3Init (finding F4) get one family name"""
    t, inner = info.get(name, ("-", "-"))
    fails = [k1] if mode in ("at", "from") else [k1, k2]
    if t in ninit:
        hit = [k for k in fails if k < ninit[t] and k < n]
        if hit and n <= ninit[t] + (len(fails) if mode != "from" else 64):
            if mode == "from" or n <= ninit[t] + 8:
                if mode == "pair":
                    return "tj3Init-leak:%s:at=%d" % (INITNAME[t], max(hit))
                return "tj3Init-leak:%s:%s=%d" % (INITNAME[t], mode, k1)
        if inner in ninit:
            hit = [k - ninit[t] for k in fails if ninit[t] <= k < ninit[t] + ninit[inner] and k < n]
            if hit and (mode == "from" or n <= ninit[t] + ninit[inner] + 8):
                return "tj3Init-leak:%s:%s=%d:inner" % (INITNAME[inner], "at" if mode == "pair" else mode, max(hit))
    return "leak:%s" % name


def fi_eval(ctx, fl, line, case, info, ninit):
    m = RES.match(line or "")
    if not m:
        return None
    name, mode, k1, k2, rc, n, live, leak, first, bad, peak, stolen, badptr, msg = m.groups()
    k1, k2, rc, n, live, leak, bad, stolen, badptr = int(k1), int(k2), int(rc), int(n), int(live), int(leak), int(bad), int(stolen), int(badptr)
    fam = re.sub(r"_.*", "", name) if not name.startswith(("xf_filt", "lj_seq", "tj_seq")) else name[:6]
    if rc not in (0, -1):
        ctx.violation("scenario %s (%s %s): %s (rc=%d)" % (name, mode, k1, msg.strip() or "neither success nor error", rc),
                      {"fi": case, "flavour": fl, "result": line}, signature="fi-rc:%s" % name)
    nf = lambda t: t.replace("with allocation failure none 0:", "WITHOUT any injected failure:")
    kk = k1 if mode != "pair" else (k1, k2)
    if badptr > 0:
        ctx.violation(nf("%s with allocation failure %s %s: after the call %d pointer(s) handed to the caller point to memory that is no longer "
                         "allocated (dangling: a write or free through it corrupts the heap); API said: rc=%d '%s'" % (
                             name, mode, kk, badptr, rc, msg.strip())),
                      {"fi": case, "flavour": fl, "result": line}, signature="dangling:%s" % name)
    if stolen > 0:
        ctx.violation(nf("%s with allocation failure %s %s: the library free()d %d block(s) owned by the application (caller-supplied buffer or a "
                         "result already handed over); API said: rc=%d '%s'" % (name, mode, kk, stolen, rc, msg.strip())),
                      {"fi": case, "flavour": fl, "result": line}, signature="freed-callers-block:%s" % name)
    if live > 0 or bad > 0:
        sig = fi_signature(name, mode, k1, k2, n, info, ninit)
        what = ("%s with allocation failure %s %s: %d library block(s) / %d bytes still allocated after destroy (first leaked: allocation #%s), "
                "%d free()s of a block that was not allocated (double free); API said: rc=%d '%s'" % (
                    name, mode, (k1 if mode != "pair" else (k1, k2)), live, leak, first, bad, rc, msg.strip()))
        what = nf(what)
        ctx.violation(what, {"fi": case, "flavour": fl, "result": line}, signature=sig)
    return (name, mode, rc, n, msg.strip()[:60])


def part_b(ctx, flavours):
    scratch = os.path.join(core.BUILD, "c14scratch")
    os.makedirs(scratch, exist_ok=True)
    res = {}
    for fl in flavours:
        exe = ctx.cc("c14_fi", ["c14_fi.c", "c14_rdgif.c", "c14_rdtga.c"], fl, libs=("turbojpeg",), extra=WRAP_FI)
        d = os.path.join(scratch, fl)
        os.makedirs(d, exist_ok=True)
        res[fl] = (exe, d)
    return res


def fi_setup(ctx, exe, d, fl):
    rc, out, err = sh2([exe, d], input=b"list\n", env=ENV, timeout=300)
    if rc != 0:
        ctx.violation("fault-injection harness fails during its failure-free setup (%s build, rc=%d): %s" % (fl, rc, err[-600:]),
                      {"flavour": fl, "stderr": err[-3000:]}, signature="fi-setup-crash:" + fl)
        return None
    info = {}
    for l in out.decode().split("\n"):
        f = l.split()
        if len(f) >= 4 and f[0] == "scn":
            info[f[1]] = (f[2], f[3])
            if f[1].startswith("xf_filt_") and len(f) > 4:
                XF[f[1]] = tuple(int(x) for x in f[4].split(","))
    names = list(info)
    lines = ["run %s none 0 0" % nm for nm in names]
    outs, crashes = fi_run(exe, d, lines)
    counts = {}
    for nm, o in zip(names, outs):
        m = RES.match(o or "")
        if not m:
            ctx.violation("scenario %s crashed without any injected failure (%s build)" % (nm, fl), {"fi": "run %s none 0 0" % nm, "flavour": fl},
                          signature="fi-crash-nofail:%s" % nm)
            continue
        counts[nm] = int(m.group(6))
        fi_eval(ctx, fl, o, "run %s none 0 0" % nm, info, {})
    ninit = {t: counts.get("init_" + t, 0) for t in "cdt"}
    ctx._c14_nofail = (names, outs)
    return info, counts, ninit


def fi_run(exe, d, lines):
    """each 'run' prints a begin and a result line; returns result lines aligned with lines"""
    outs = [None] * len(lines)
    crashes = []
    start = 0
    while start < len(lines):
        rc, out, err = sh2([exe, d], input=("\n".join(lines[start:]) + "\n").encode(), timeout=1800, env=ENV)
        allout = out.decode("utf-8", "replace").split("\n")
        for l in allout:
            if l.startswith("sites "):
                f = l.split()
                SITES[f[1]] = {kv.split("=")[0]: int(kv.split("=")[1]) for kv in f[2:]}
        got = [l for l in allout if l.startswith("result ") or l.startswith("limit ")]
        n = min(len(got), len(lines) - start)
        for i in range(n):
            outs[start + i] = got[i]
        if rc == 0 and n == len(lines) - start:
            break
        crashes.append((start + n, rc, err[-2500:]))
        if len(crashes) > 25:
            break
        start = start + n + 1
    return outs, crashes


def init_model_tie(ctx, drv, fl, lines, outs):
    """tj3Init model (model/TjInit.v, handler as found in the source) vs the init_* scenarios:
    success, number of allocation calls and number of blocks left must agree"""
    if not drv:
        return
    q, idx = [], []
    for i, (case, o) in enumerate(zip(lines, outs)):
        f = case.split()
        if o is None or not f[1].startswith("init_"):
            continue
        spec = {"at": "at %s" % f[3], "from": "from %s" % f[3], "pair": "at %s %s" % (f[3], f[4]), "none": "none"}[f[2]]
        q.append("tjinit %s %s" % (f[1][5], spec))
        idx.append(i)
    if not q:
        return
    # the configuration line of this flavour is needed for ALIGN_SIZE: representative values are enough here
    rc, out, err = sh2([drv], input=("\n".join(q) + "\n").encode(), timeout=600)
    ml = out.decode().split("\n")
    bad = 0
    for i, mo in zip(idx, ml):
        m = RES.match(outs[i])
        mm = re.match(r"tjinit ok=(\d) n=(\d+) live=(\d+) badfree=(\d+) hd=(\d)", mo)
        if not m or not mm:
            continue
        ctx.cov["tjinit_handler_destroys"] = bool(int(mm.group(5)))
        impl = (1 if int(m.group(5)) == 0 else 0, int(m.group(6)), int(m.group(7)), int(m.group(10)))
        mod = tuple(int(mm.group(j)) for j in (1, 2, 3, 4))
        if impl != mod:
            bad += 1
            if bad <= 3:
                ctx.log("tj3Init model/impl disagree on", lines[i], "\n  model (ok,n,live,badfree):", mod, "\n  impl:", impl)
                ctx.broken_tie("correspondence:tj3Init:" + fl, "tj3Init model and implementation differ on '%s': model=%s impl=%s" % (lines[i], mod, impl))
        ctx.cov["traces_validated_against_impl"] += 1
    ctx.cov["tjinit_model_disagreements"] = ctx.cov.get("tjinit_model_disagreements", 0) + bad


def destbuf_script(name):
    """the DestBuf-model script of a catalogue scenario run WITHOUT injected failures (None: not applicable)"""
    if name.startswith("lj_seq_") or name.startswith("tj_seq_"):
        pat = name[7:]
        tr = {"L": "L2F", "S": "C2F", "M": "C2F", "B": "C0F", "N": "C0F", "R": "R0F"}
        toks = [tr[pat[i]] + pat[i + 1] for i in range(0, len(pat), 2)]
        return ("lj" if name.startswith("lj") else "tj"), toks
    return None


XF = {}
SITES = {}


def tjalloc_tie(ctx, drv, fl):
    """generated allocation programs (gen/GenTjAlloc.v) vs the implementation: the number of malloc calls made directly by each
    modelled TurboJPEG function in the failure-free run of every scenario (attributed by return address) must be a multiple
    (number of calls) of the count the program predicts for the scenario's component count"""
    if not drv:
        return
    names = re.findall(r"^\(\* (\w+) \([\w.\-]+\): .*acquisition sites \*\)$", open(os.path.join(core.COQ, "gen", "GenTjAlloc.v")).read(), re.M)
    rc, out, err = sh2([drv], input=b"tjalloc\n", timeout=120)
    m = re.match(r"tjalloc (.*)", out.decode())
    if not m or len(m.group(1).split()) != len(names):
        ctx.broken_tie("correspondence:tjalloc", "driver does not list the generated programs: %s" % out.decode()[:200])
        return
    pred = {}
    for nm, ent in zip(names, m.group(1).split()):
        q = [int(x) for x in ent.split(":")]
        pred[nm] = {1: q[1], 3: q[2], 4: q[3]}
    bad = checked = 0
    for scn, st in SITES.items():
        nc = 1 if "gray" in scn else 4 if "cmyk" in scn else 3
        for fn, n in st.items():
            cands = [nm for nm in pred if fn == nm or (fn.startswith(nm) and fn[len(nm):] in ("8", "12", "16"))]
            if not cands:
                continue
            p = pred[cands[0]]
            exp = p[nc]
            checked += 1
            ok = exp > 0 and n % exp == 0 and n // exp <= 4
            if not ok and "gray" not in scn and "cmyk" not in scn:
                ok = any(e > 0 and n % e == 0 and n // e <= 4 for e in p.values())     # other component counts inside the scenario
            if not ok:
                bad += 1
                if bad <= 3:
                    ctx.broken_tie("correspondence:tjalloc:" + fl, "%s made %d direct malloc calls in scenario %s, the generated program predicts %d per call (nc=%d)" % (
                        fn, n, scn, exp, nc))
    ctx.cov["tjalloc_site_counts_checked"] = ctx.cov.get("tjalloc_site_counts_checked", 0) + checked
    ctx.cov["tjalloc_disagreements"] = ctx.cov.get("tjalloc_disagreements", 0) + bad
    ctx.cov["traces_validated_against_impl"] += checked


def destbuf_tie(ctx, drv, fl, names, outs):
    """DestBuf model (configuration read from the source) vs the sequence / custom-filter scenarios without injected failures:
    leak, invalid free or dangling pointer, library freeing an application block must agree"""
    if not drv:
        return
    q, idx = [], []
    for i, nm in enumerate(names):
        sc = destbuf_script(nm)
        if nm.startswith("xf_filt_") and nm in XF and XF[nm][4] != 1:
            n, fail, later, icc, buf = XF[nm]
            m = "L" if buf == 0 else "C"
            g = 2 if icc else 0      # without the ICC profile nothing is written before the filter runs
            toks = []
            for t in range(n):
                if t == fail:
                    toks.append("%s%dTf" % (m, g))
                    break
                toks.append("%s%dF%s" % (m, g, "k" if (0 <= fail < n) or t < n - 1 else "f"))
            if not (0 <= fail < n):
                toks[-1] = toks[-1][:3] + "f"
            toks.append("L%dFf" % g)
            sc = ("tj", toks)
        if sc and outs[i]:
            q.append("destbuf %s %s" % (sc[0], " ".join(sc[1])))
            idx.append(i)
    if not q:
        return
    rc, out, err = sh2([drv], input=("\n".join(q) + "\n").encode(), timeout=300)
    ml = out.decode().split("\n")
    bad = 0
    for i, mo, qq in zip(idx, ml, q):
        m = RES.match(outs[i])
        mm = re.match(r"destbuf leak=(\d+) badfree=(\d+) stolen=(\d+)", mo)
        if not m or not mm:
            continue
        impl = (int(m.group(7)) > 0, int(m.group(10)) + int(m.group(13)) + int(m.group(12)) > 0, int(m.group(12)) > 0)
        mod = (int(mm.group(1)) > 0, int(mm.group(2)) + int(mm.group(3)) > 0, int(mm.group(3)) > 0)
        ctx.cov["traces_validated_against_impl"] += 1
        if impl != mod:
            bad += 1
            if bad <= 3:
                ctx.log("DestBuf model/impl disagree on", names[i], qq, "\n  model (leak, bad free/dangling, app block freed):", mod, "\n  impl:", impl)
                ctx.broken_tie("correspondence:destbuf:" + fl, "destination-buffer model and implementation differ on %s [%s]: model=%s impl=%s" % (
                    names[i], qq, mod, impl))
    ctx.cov["destbuf_model_disagreements"] = ctx.cov.get("destbuf_model_disagreements", 0) + bad


def exec_part_b(ctx, built, drv=None):
    for fl, (exe, d) in built.items():
        su = fi_setup(ctx, exe, d, fl)
        if su is None:
            continue
        info, counts, ninit = su
        destbuf_tie(ctx, drv, fl, *ctx._c14_nofail)
        tjalloc_tie(ctx, drv, fl)
        rng = ctx.rng.fork()
        lines = []
        for nm, n in counts.items():
            for k in range(n + 1):
                lines.append("run %s at %d 0" % (nm, k))
                lines.append("run %s from %d 0" % (nm, k))
            pairs = [(a, b) for a in range(n) for b in range(a + 1, n)]
            if not ctx.thorough():
                pairs = rng.shuffle(pairs)[:ctx.n(25, 0)]
            for a, b in pairs:
                lines.append("run %s pair %d %d" % (nm, a, b))
        outs, crashes = fi_run(exe, d, lines)
        for idx, rc, err in crashes:
            case = lines[min(idx, len(lines) - 1)]
            f = case.split()
            ctx.violation("%s with allocation failure %s %s/%s CRASHED (%s build, rc=%d): %s" % (f[1], f[2], f[3], f[4], fl, rc, err[-500:]),
                          {"fi": case, "flavour": fl, "stderr": err}, signature="fi-crash:%s" % f[1])
        for case, o in zip(lines, outs):
            if o is None:
                continue
            key = fi_eval(ctx, fl, o, case, info, ninit)
            ctx.count("fi-%s:%s" % (case.split()[2], fl), 1, ("fi", key))
        init_model_tie(ctx, drv, fl, lines, outs)
        ctx.cov.setdefault("fi_scenarios", len(counts))
        ctx.cov.setdefault("fi_allocations_per_scenario", counts)


# --------------------------------------------------------------- (c) limits
def limit_cases(ctx):
    rng = ctx.rng.fork()
    out = []      # (line, expect_reject, must_contain, kind)
    dims = [(16, 16), (33, 7), (100, 3), (rng.range(8, 90), rng.range(8, 90))]
    for w, h in dims:
        for api in ("decompress8", "toyuv", "transform"):
            for lim, rej in ((w * h - 1, True), (w * h, False), (w * h + 1, False), (1, True), (0, False)):
                out.append(("limit pix %d %d %d %s" % (w, h, lim, api), rej, "Image is too large", "pix"))
    for kind in ("ppm", "bmp"):
        for w, h in [(16, 16), (31, 5), (rng.range(2, 60), rng.range(2, 60))]:
            for lim, rej in ((w * h - 1, True), (w * h, False), (1, True), (0, False)):
                out.append(("limit load %s %d %d %d" % (kind, w, h, lim), rej, "Maximum supported image dimension", "load"))
        # the product needs 64 bits: 2^16 x 2^16 = 2^32 pixels, a 32-bit product would be 0
        # (PNM dimensions are capped at 65535 by the reader, so only BMP can reach 2^32 pixels)
        big = 65536 if kind == "bmp" else 65535
        out.append(("limit load %s %d %d 1000" % (kind, big, big), True, "Maximum supported image dimension", "load64"))
        out.append(("limit load %s %d 65535 2147483647" % (kind, big + 1 if kind == "bmp" else big), True, "Maximum supported image dimension", "load64"))
    # every input route x every header variant: tj3LoadImage8/12/16 with BMP 12/40/64-byte headers (108/124 are not read at all),
    # PNM P2/P3/P5/P6; the cjpeg GIF and Targa readers through their start_input entry points
    tooBig = "Maximum supported image dimension"
    for w, h in [(7, 5), (rng.range(2, 40), rng.range(2, 40))]:
        variants = [("bmp12", 8), ("bmp40", 8), ("bmp64", 8)] + [(p, pr) for p in ("p2", "p3", "p5", "p6") for pr in (8, 12, 16)]
        for fmt, prec in variants:
            for lim, rej in ((w * h - 1, True), (w * h, False), (w * h + 1, False), (1, True), (0, False)):
                out.append(("limit loadv %s %d %d %d %d" % (fmt, prec, w, h, lim), rej, tooBig, "loadv"))
        for fmt in ("bmp108", "bmp124"):
            for lim in (w * h - 1, w * h):
                out.append(("limit loadv %s 8 %d %d %d" % (fmt, w, h, lim), True, "", "loadv-unsup"))
        for fmt in ("gif", "tga"):
            for lim, rej in ((w * h - 1, True), (w * h, False), (1, True), (0, False)):
                out.append(("limit rd %s %d %d %d" % (fmt, w, h, lim), rej, tooBig, "rd"))
    out.append(("limit loadv bmp12 8 300 200 59999", True, tooBig, "loadv"))
    out.append(("limit rd gif 65535 65535 4294836224", True, tooBig, "rd"))
    out.append(("limit rd tga 65535 65535 4294836224", True, tooBig, "rd"))
    for idx in range(8):
        scans = idx + 2
        for api in ("decompress8", "toyuv", "transform"):
            for lim, rej in ((scans - 1, True), (scans, False), (scans + 1, False)):
                out.append(("limit scan %d %d %s" % (idx, lim, api), rej, "Progressive JPEG image has more than", "scan"))
    for api in ("decompress8", "transform", "compress"):
        out.append(("limit mem 1 640 480 %s" % api, True, "Memory limit exceeded", "mem"))
        out.append(("limit mem 64 640 480 %s" % api, False, "", "mem"))
    return out


WIDE = [("dec", 48000, 128, 420), ("coef", 48000, 128, 420), ("comp", 48000, 128, 420), ("comp", 65500, 16, 444), ("dec", 65500, 96, 444)]
WIDE_API = {"dec": "decompress8", "coef": "transform", "comp": "compress"}


def wide_cases(ctx, fl):
    """very wide multi-scan images: the ordinary (non-virtual) allocations alone reach small limits"""
    rng = ctx.rng.fork()
    ms = [0, 1, 1000, 65536, 1 << 20, 2 << 20, 3 << 20, 4 << 20, 6 << 20, 8 << 20, 12 << 20, 16 << 20, 20 << 20, 24 << 20, 32 << 20, 64 << 20]
    out = []
    for kind, w, h, ss in WIDE:
        for m in ms + [rng.range(1, 40 << 20) for _ in range(ctx.n(2, 12))]:
            out.append("limit vmem %s %d %d %d %d %d" % (kind, w, h, ss, m, 1 if (ctx.thorough() and m in (0, 64 << 20)) else 0))
    mbs = [1, 2, 3, 4, 6, 8, 12, 16, 24, 32, 64]
    if fl.startswith("asan") and not ctx.thorough():
        mbs = [1, 2, 4]
    for kind, w, h, ss in WIDE:
        for mb in mbs:
            out.append("limit wmem %d %d %d %d %s" % (mb, w, h, ss, WIDE_API[kind]))
    return out


def exec_wide(ctx, built):
    MB = 1 << 20
    for fl, (exe, d) in built.items():
        cases = wide_cases(ctx, fl)
        outs, crashes = fi_run(exe, d, cases)
        for idx, rc, err in crashes:
            case = cases[min(idx, len(cases) - 1)]
            ctx.violation("memory-limit case crashed (%s build, rc=%d): %s" % (fl, rc, err[-400:]), {"limit": case, "flavour": fl, "stderr": err},
                          signature="limit-crash:" + " ".join(case.split()[1:3]))
        facts = {}
        for case, o in zip(cases, outs):
            if o is None:
                continue
            f = case.split()
            if f[1] == "vmem":
                m = re.search(r"rc=(-?\d+) need=(\d+) minneed=(\d+) tbefore=(\d+) realize_calls=(\d+) ok=(\d+) boundviol=(\d+) peak=(\d+) live=(\d+) \| ?(.*)", o)
                if not m:
                    ctx.violation("limit case gave no result: " + o, {"limit": case, "flavour": fl}, signature="limit-noresult")
                    continue
                rc, need, mn, tb, calls, okc, bv, peak, live = map(int, m.groups()[:9])
                why = m.group(10)
                M = int(f[6])
                key = tuple(f[2:6])
                facts[key] = (need, mn, tb)
                avail = max(M - tb, 0)
                what = None
                if M > 0 and rc == 0 and (bv or need > max(avail, mn)):
                    what = ("max_memory_to_use=%d, %d bytes already allocated: realize_virt_arrays SUCCEEDED for virtual arrays of %d bytes "
                            "(> max(available %d, one access height each %d)); expected 'Memory limit exceeded'" % (M, tb, need, avail, mn))
                elif rc == 0 and M > 0 and peak > M + max(mn, 0) + tb:
                    what = "max_memory_to_use=%d but %d bytes were live at the peak" % (M, peak)
                elif rc != 0 and (M == 0 or M - tb >= need):
                    what = "a limit of %d bytes (%d already allocated, arrays need %d) must be accepted, got '%s'" % (M, tb, need, why.strip())
                elif rc != 0 and "Memory limit exceeded" not in why:
                    what = "expected 'Memory limit exceeded', got '%s'" % why.strip()
                elif live:
                    what = "%d blocks live after jpeg_destroy" % live
                if what:
                    ctx.violation("libjpeg %s of a %sx%s progressive image: %s" % (f[2], f[3], f[4], what), {"limit": case, "flavour": fl, "result": o},
                                  signature="maxmem-bound:%s:%sx%s" % (f[2], f[3], f[4]))
            else:
                m = re.search(r"rc=(-?\d+) peak=(-?\d+) \| ?(.*)", o)
                if not m:
                    ctx.violation("limit case gave no result: " + o, {"limit": case, "flavour": fl}, signature="limit-noresult")
                    continue
                rc, peak, why = int(m.group(1)), int(m.group(2)), m.group(3)
                mb, w, h, ss, api = int(f[2]), f[3], f[4], f[5], f[6]
                kind = [k for k, v in WIDE_API.items() if v == api][0]
                fk = facts.get((kind, w, h, ss))
                if not fk:
                    continue
                need, mn, tb = fk
                what = None
                if need > max(mb * MB, mn) and not (rc == -1 and "Memory limit exceeded" in why):
                    what = ("TJPARAM_MAXMEMORY=%d MB NOT enforced: the coefficient arrays need %d bytes (one access height: %d, ordinary allocations "
                            "%d), the call must fail with 'Memory limit exceeded' but gave rc=%d '%s' (peak %d bytes)" % (mb, need, mn, tb, rc, why.strip(), peak))
                elif mb * MB >= tb + need + 4 * MB and rc != 0:
                    what = "TJPARAM_MAXMEMORY=%d MB is enough (%d bytes needed) but the call failed: '%s'" % (mb, tb + need, why.strip())
                elif rc == -1 and "Memory limit exceeded" in why and peak > tb + MB + mn:
                    what = "rejected, but %d bytes were live at the peak (ordinary allocations: %d)" % (peak, tb)
                if what:
                    ctx.violation("tj3 %s of a %sx%s progressive image: %s" % (api, w, h, what), {"limit": case, "flavour": fl, "result": o},
                                  signature="maxmem-not-enforced:%s:%sx%s" % (api, w, h))
            ctx.count("limit-%s:%s" % (f[1], fl), 1, ("limit", case))


def exec_part_c(ctx, built, drv, cases=None):
    cases = cases if cases is not None else limit_cases(ctx)
    # the extracted model's verdicts (tie of the comparison operators found in the source)
    mver = {}
    if drv:
        q = []
        for line, rej, msg, kind in cases:
            f = line.split()
            if kind in ("pix",):
                q.append("pix %s %s %s" % (f[2], f[3], f[4]))
            elif kind in ("load", "load64"):
                q.append("pix %s %s %s" % (f[3], f[4], f[5]))
            elif kind in ("loadv", "loadv-unsup"):
                q.append("pix %s %s %s" % (f[4], f[5], f[6]))
            elif kind == "rd":
                q.append("pix %s %s %s" % (f[3], f[4], f[5]))
            elif kind == "scan":
                q.append("scan %d %s" % (int(f[2]) + 2, f[3]))
            else:
                q.append("maxmem %s" % f[2])
        rc, out, err = sh2([drv], input=("\n".join(q) + "\n").encode(), timeout=300)
        ml = out.decode().split("\n")
        for (line, rej, msg, kind), mo in zip(cases, ml):
            if kind == "loadv-unsup":
                continue
            if kind != "mem":
                if (mo.split()[-1] == "reject") != rej:
                    ctx.broken_tie("limits-model", "extracted limit comparison disagrees with the specification on %s: %s" % (line, mo))
            elif mo != "maxmem %d" % (int(line.split()[2]) * 1048576):
                ctx.broken_tie("limits-model", "max_memory_to_use scale differs: %s" % mo)
    for fl, (exe, d) in built.items():
        outs, crashes = fi_run(exe, d, [c[0] for c in cases])
        for idx, rc, err in crashes:
            case = cases[min(idx, len(cases) - 1)][0]
            ctx.violation("limit case crashed (%s build, rc=%d): %s" % (fl, rc, err[-400:]), {"limit": case, "flavour": fl, "stderr": err},
                          signature="limit-crash:" + " ".join(case.split()[1:2]))
        for (line, rej, msg, kind), o in zip(cases, outs):
            if o is None:
                continue
            m = re.search(r"rc=(-?\d+)(?: biggest=(\d+))?(?: peak=(-?\d+))?(?: got=\S+)? \| ?(.*)", o)
            if not m:
                ctx.violation("limit case gave no result: " + o, {"limit": line, "flavour": fl}, signature="limit-noresult")
                continue
            rc, why = int(m.group(1)), m.group(4)
            if rej and not (rc == -1 and msg in why):
                ctx.violation("limit NOT enforced: '%s' should be rejected with '%s' but gave rc=%d '%s'" % (line, msg, rc, why.strip()),
                              {"limit": line, "flavour": fl, "result": o}, signature="limit-not-enforced:%s:%s" % (kind, line.split()[-1] if kind in ("pix", "scan", "mem") else line.split()[2]))
            if not rej and rc != 0:
                ctx.violation("input within the configured limit rejected: '%s' gave rc=%d '%s'" % (line, rc, why.strip()),
                              {"limit": line, "flavour": fl, "result": o}, signature="limit-overstrict:%s" % kind)
            if kind == "mem" and rej and m.group(3) is not None:
                mb = int(line.split()[2])
                if int(m.group(3)) > mb * 1048576 + 1048576:
                    ctx.violation("TJPARAM_MAXMEMORY=%d MB but %s bytes were live at the peak of '%s'" % (mb, m.group(3), line),
                                  {"limit": line, "flavour": fl, "result": o}, signature="limit-mem-peak")
            ctx.count("limit-%s:%s" % (kind, fl), 1, ("limit", line))


# -------------------------------------------------------------------- replay
def do_replay(ctx, drv):
    r = json.load(open(ctx.replay))
    fl = r.get("flavour", "asan")
    if fl not in ("simd", "plain", "asan", "asansimd"):
        fl = "asan"
    if "case" in r:
        exes = {fl: ctx.cc("c14", ["c14.c"], fl, libs=("jpeg",), extra=WRAP_MM)}
        exec_part_a(ctx, drv, exes, [(r["case"], "replay")], add_sweep=False)
    elif "fi" in r:
        built = part_b(ctx, [fl])
        exe, d = built[fl]
        su = fi_setup(ctx, exe, d, fl)
        if su:
            info, counts, ninit = su
            outs, crashes = fi_run(exe, d, [r["fi"]])
            for idx, rc, err in crashes:
                f = r["fi"].split()
                ctx.violation("%s with allocation failure %s %s CRASHED (%s build, rc=%d): %s" % (f[1], f[2], f[3], fl, rc, err[-500:]),
                              {"fi": r["fi"], "flavour": fl, "stderr": err}, signature="fi-crash:%s" % f[1])
            if outs[0]:
                fi_eval(ctx, fl, outs[0], r["fi"], info, ninit)
                ctx.log("replay:", outs[0])
    elif "limit" in r:
        built = part_b(ctx, [fl])
        if r["limit"].split()[1] in ("vmem", "wmem"):
            orig = globals()["wide_cases"]
            f = r["limit"].split()
            extra = []
            if f[1] == "wmem":      # the verdict needs the facts of the same image from the libjpeg-level run
                kind = [k for k, v in WIDE_API.items() if v == f[6]][0]
                extra = ["limit vmem %s %s %s %s 0 0" % (kind, f[3], f[4], f[5])]
            globals()["wide_cases"] = lambda c, fl_: extra + [r["limit"]]
            try:
                exec_wide(ctx, built)
            finally:
                globals()["wide_cases"] = orig
            return
        cases = [c for c in limit_cases(ctx) if c[0] == r["limit"]]
        if not cases:
            f = r["limit"].split()
            cases = [(r["limit"], True, "", f[1])]
        exec_part_c(ctx, built, drv, cases[:1])


def run(ctx):
    ctx.regen(["TjAlloc"])
    if not ctx.regen(["MemConst"]):
        # a stale .vo of the generated facts must not satisfy the proof obligations
        for ext in (".vo", ".vos", ".vok", ".glob"):
            try:
                os.remove(os.path.join(core.COQ, "gen", "GenMemConst" + ext))
            except OSError:
                pass
    ctx.prove()
    drv = ctx.model_driver()
    if ctx.replay:
        return do_replay(ctx, drv)
    fla = ["simd", "plain", "asan"]
    flb = ["asan", "simd"] if not ctx.thorough() else ["asan", "simd", "plain"]
    exes, cases = part_a(ctx, drv, fla)
    ctx.log("(a) memory-manager correspondence: %d generated sequences x %s" % (len(cases), fla))
    exec_part_a(ctx, drv, exes, cases)
    ctx.log("(a) done: model/impl disagreements = %s" % ctx.cov.get("model_impl_disagreements"))
    built = part_b(ctx, flb)
    exec_part_b(ctx, built, drv)
    ctx.log("(b) fault-injection catalogue done: %s scenarios" % ctx.cov.get("fi_scenarios"))
    exec_part_c(ctx, built, drv)
    exec_wide(ctx, built)
    ctx.log("(c) limits done")
    ctx.cov["rule"] = ("(a) op sequences over the 12 client operations of jpeg_memory_mgr: random mixes with sizes at the slop / "
                       "MAX_ALLOC_CHUNK / 2^64 boundaries, virtual-array scripts with and without max_memory_to_use, SIZE_MAX-guard scripts, "
                       "and one fixed script swept over every failing malloc index (single, persistent, pairs); a case is distinct when its "
                       "result/event line (ids erased) is distinct.  (b) %s API scenarios x every allocation index (single, persistent from k, "
                       "pairs%s).  (c) limits at threshold-1/threshold/threshold+1 for every API that checks them." % (
                           ctx.cov.get("fi_scenarios", "?"), "" if ctx.thorough() else " sampled"))
    ctx.assume += ["correspondence is differential testing of the hand model against the real jpeg_memory_mgr; it supports the tie, not the theorems",
                   "the fault-injection catalogue is the property-level oracle on the implementation: it covers the scenarios listed, not every input",
                   "JPEGMEM is unset; malloc/calloc/realloc/free are the only allocators of the library (translator checks jmemnobs.c)",
                   "after a libjpeg error the application destroys the object (example.c) and, for jpeg_mem_dest with a library-allocated buffer, "
                   "first calls dest->term_destination to learn the current buffer (as turbojpeg.c does); see design/C14.md"]
    ctx.trusted += ["tools/gen_MemConst.py (regular-expression reader of jmemmgr.c/jmemnobs.c/jmemsys.h/turbojpeg*.c/rd*.c)",
                    "GNU ld --wrap interposition of malloc/calloc/realloc/free; harness/c14.c, harness/c14_fi.c"]
