"""C12 -- instance results are independent of prior history, even after errors.

1. translator : gen_ErrPaths (turbojpeg.c + turbojpeg-mp.c: setjmp handlers, bailout blocks, tj3Set table,
                field lists of jpeg_set_defaults / reset_marker_reader / reset_input_controller / ...)
2. proofs     : coq/props/C12.v (model/ApiState.v, proofs/ApiStateProofs.v) over the generated data
3. correspondence: every history is executed by harness/c12.c (REAL turbojpeg.c of the working tree compiled into
                the harness, abstract state read from the real structs after every call) and by the extracted
                model (ml/C12_driver) fed with the observed outcome stage of every call; abstract states compared.
4. property-level oracle on the implementation: the probe (last call of a history) is executed on the USED instance
                and on a FRESH instance with the same parameter settings: identical return code / stage / output hash,
                no sanitizer report, both instances destroyable.  Same for the raw libjpeg API (reused
                jpeg_compress_struct / jpeg_decompress_struct with jpeg_abort and longjmp error exits).
"""
import json
import os
import re
from vlib import core
from vlib.core import sh2

# ----------------------------------------------------------------------------- library mirror (harness/c12.c build_library)
# id: (w, h, subsamp, lossless, precision, progressive, components)
S444, S422, S420, SGRAY, S440, S411, S441 = 0, 1, 2, 3, 4, 5, 6
LIB = {
    0: (48, 40, S444, 0, 8, 0, 3), 1: (64, 48, S420, 0, 8, 0, 3), 2: (37, 29, S422, 0, 8, 0, 3),
    3: (33, 33, SGRAY, 0, 8, 0, 1), 4: (64, 64, S420, 0, 8, 1, 3), 5: (40, 40, S444, 0, 8, 0, 3),
    6: (56, 40, S420, 0, 8, 1, 3), 7: (31, 23, S444, 1, 8, 0, 3), 8: (29, 31, SGRAY, 1, 8, 0, 1),
    9: (48, 48, S420, 0, 8, 0, 3), 10: (40, 32, S444, 0, 8, 0, 3), 11: (48, 32, S420, 0, 8, 0, 3),
    12: (40, 40, S420, 0, 12, 0, 3), 13: (24, 24, S444, 1, 16, 0, 3), 14: (24, 20, SGRAY, 1, 12, 0, 1),
    15: (32, 32, S444, 0, 8, 0, 4), 16: (40, 48, S440, 0, 8, 0, 3), 17: (64, 32, S411, 0, 8, 0, 3),
    18: (32, 64, S441, 0, 8, 0, 3), 19: (32, 32, S444, 0, 8, 0, 3), 20: (128, 96, S420, 0, 8, 0, 3),
    21: (64, 64, S420, 0, 8, 1, 3), 22: None, 23: (32, 24, S420, 0, 8, 0, 3), 24: (64, 48, S420, 0, 8, 0, 3),
    25: (64, 64, S422, 0, 8, 0, 3), 26: (64, 64, S444, 0, 8, 0, 3), 27: (256, 256, S444, 0, 8, 1, 3), 28: None, 29: None,
}
MCUW = {S444: 8, S422: 16, S420: 16, SGRAY: 8, S440: 8, S411: 32, S441: 8}
MCUH = {S444: 8, S422: 8, S420: 16, SGRAY: 8, S440: 16, S411: 8, S441: 32}
SF = [(2, 1), (15, 8), (7, 4), (13, 8), (3, 2), (11, 8), (5, 4), (9, 8), (1, 1), (7, 8), (3, 4), (5, 8), (1, 2), (3, 8), (1, 4), (1, 8)]
# probes may only use self-contained streams: these corruption kinds keep a prefix of a self-contained stream
PROBE_KINDS = ["", "", "", "", "t", "m", "M", "e", "z", "g"]
HIST_KINDS = ["", "", "t", "m", "M", "e", "z", "x", "k", "r", "g", "n"]
(P_STOP, P_BOTTOMUP, P_NOREALLOC, P_QUALITY, P_SUBSAMP, P_JW, P_JH, P_PREC, P_CS, P_FASTUP, P_FASTDCT, P_OPT, P_PROG, P_SCANLIMIT,
 P_ARITH, P_LOSSLESS, P_PSV, P_PT, P_RBLOCKS, P_RROWS, P_XD, P_YD, P_DU, P_MAXMEM, P_MAXPIX, P_SAVEMARKERS) = range(26)
LEGACY_FLAGS = [0, 2, 256, 1024, 2048, 4096, 8192, 16384, 32768]


def scaled(d, sf):
    return (d * sf[0] + sf[1] - 1) // sf[1]


class Gen:
    """history grammar; all randomness from ctx.rng"""

    def __init__(self, rng):
        self.r = rng

    def jref(self, kinds, ids=None):
        r = self.r
        if ids is None:
            ids = [i for i in LIB if i not in (22, 23, 27, 28, 29)]
        i = r.choice(ids)
        k = r.choice(kinds)
        if k == "z" and kinds is PROBE_KINDS and LIB.get(i) and LIB[i][5]:
            k = "e"      # the "entropy data" of a multi-scan stream contains later DHT segments: overwriting them makes it abbreviated
        if k == "":
            return i, str(i)
        if k == "t":
            return i, "%d.t%d" % (i, r.range(1, 700))
        if k in ("m", "r"):
            return i, "%d.%s%d" % (i, k, r.range(0, 12))
        if k == "M":
            return i, "%d.M%d.%d" % (i, r.range(0, 12), r.range(0, 2))
        if k == "e":
            return i, "%d.e%d" % (i, r.range(0, 999))
        if k == "z":
            return i, "%d.z%d.%d" % (i, r.range(0, 990), r.range(0, 63))
        if k == "x":
            return i, "%d.x%d.%d" % (i, r.range(2, 400), r.range(0, 255))
        if k == "k":
            return i, "%d.k%d.%d" % (i, r.range(0, 12), r.choice([0xC5, 0xC3, 0xCB, 0xE3, 0xDB, 0xC4, 0xD9, 0x01, 0xC8]))
        if k == "g":
            return i, "%d.g%d" % (i, r.range(0, 255))
        if k == "n":
            return i, "%d.n0" % i
        return i, str(i)

    def pf(self):
        return self.r.choice([0, 0, 1, 2, 3, 4, 5, 6, 7, 8, 9, 10, 11])

    def dims(self):
        r = self.r
        return r.choice([(16, 16), (33, 17), (40, 40), (64, 48), (7, 5), (1, 1), (128, 96), (96, 8), (17, 64)])

    def setp(self, inst, valid=True):
        r = self.r
        cparams = [(P_QUALITY, lambda: r.range(1, 100)), (P_SUBSAMP, lambda: r.range(0, 6)), (P_OPT, lambda: r.range(0, 1)),
                   (P_PROG, lambda: r.range(0, 1)), (P_ARITH, lambda: r.range(0, 1)), (P_LOSSLESS, lambda: r.range(0, 1)),
                   (P_PSV, lambda: r.range(1, 7)), (P_PT, lambda: r.range(0, 7)), (P_RBLOCKS, lambda: r.choice([0, 0, 1, 2, 7, 100])),
                   (P_RROWS, lambda: r.choice([0, 0, 1, 2, 5])), (P_XD, lambda: r.choice([1, 72, 300])), (P_YD, lambda: r.choice([1, 72, 300])),
                   (P_DU, lambda: r.range(0, 2)), (P_CS, lambda: r.range(0, 4)), (P_NOREALLOC, lambda: r.range(0, 1)),
                   (P_PREC, lambda: r.choice([2, 5, 8, 9, 12, 13, 16])), (P_FASTDCT, lambda: r.range(0, 1)), (P_BOTTOMUP, lambda: r.range(0, 1))]
        dparams = [(P_FASTUP, lambda: r.range(0, 1)), (P_FASTUP, lambda: 1), (P_FASTDCT, lambda: r.range(0, 1)), (P_BOTTOMUP, lambda: r.range(0, 1)),
                   (P_SCANLIMIT, lambda: r.choice([0, 1, 2, 5, 100])), (P_STOP, lambda: r.range(0, 1)), (P_MAXPIX, lambda: r.choice([0, 100, 3000, 100000])),
                   (P_SAVEMARKERS, lambda: r.range(0, 4)), (P_SUBSAMP, lambda: r.range(0, 6)), (P_MAXMEM, lambda: r.choice([0, 0, 1, 2]))]
        if not valid:
            p = r.range(-1, 27)
            return "set %d %d" % (p, r.choice([-5, -1, 0, 1, 2, 7, 101, 65536, 1 << 30]))
        pool = (cparams if inst in "ct" else []) + (dparams if inst in "dt" else [])
        p, f = r.choice(pool)
        return "set %d %d" % (p, f())

    def buf(self, probe=False):
        return self.r.choice(["n", "n", "s", "b"] if probe else ["n", "n", "r", "r", "s", "b"])

    def comp_op(self, probe=False):
        r = self.r
        w, h = self.dims()
        k = r.below(10)
        if k < 6:
            prec = r.choice([8, 8, 8, 8, 12, 16])
            return "c %d %d %d %d %d %s" % (prec, w, h, r.range(0, 50), self.pf(), self.buf(probe))
        if k < 7:
            # tj3CompressFromYUV8 has three planes: keep the colourspace parameter three-component and lossy
            # (a 4-component TJPARAM_COLORSPACE / TJPARAM_LOSSLESS with YUV input over-reads the plane array on
            # ANY instance: not a history effect, see design/C12.md "Side observations")
            ss = r.range(0, 6)
            return ["set %d 0" % P_LOSSLESS, "set %d %d" % (P_SUBSAMP, ss), "set %d %d" % (P_CS, 2 if ss == SGRAY else r.range(0, 1)),
                    "cy %d %d %d %s" % (w, h, r.range(0, 50), self.buf(probe))]
        if k < 8:
            ss = r.range(0, 6)
            return ["set %d 0" % P_LOSSLESS, "set %d %d" % (P_SUBSAMP, ss), "set %d %d" % (P_CS, 2 if ss == SGRAY else r.range(0, 1)),
                    "ey %d %d %d %d" % (w, h, r.range(0, 50), self.pf())]
        return "lc %d %d %d %d %d %d %d" % (w, h, r.range(0, 50), self.pf(), r.range(0, 6), r.range(1, 100),
                                          r.choice(LEGACY_FLAGS) | r.choice(LEGACY_FLAGS))

    def dec_ops(self, probe=False):
        """returns a list of ops (the cropping sequence has several)"""
        r = self.r
        kinds = PROBE_KINDS if probe else HIST_KINDS
        k = r.below(16)
        ids = None
        if not probe and r.chance(1, 10):
            ids = [22, 23, 28, 29]
        if k < 2:
            return ["h " + self.jref(kinds, ids)[1]]
        if k < 7:
            i, j = self.jref(kinds, ids)
            prec = LIB[i][4] if (LIB.get(i) and r.chance(9, 10)) else r.choice([8, 12, 16])
            return ["d %d %s %d" % (prec, j, self.pf())]
        if k < 10:
            # header, cropping region, decompress, reset the region
            i, j = self.jref(kinds, [x for x in LIB if LIB[x] and LIB[x][4] == 8 and x not in (23, 27)])
            w, h, ss, ll, prec, prog, nc = LIB[i]
            sf = r.choice(SF) if r.chance(1, 2) else (1, 1)
            sw, sh = scaled(w, sf), scaled(h, sf)
            mw = scaled(MCUW[ss], sf)
            cx = mw * r.range(0, max(0, (sw - 1) // max(mw, 1)))
            cy = r.range(0, max(0, sh - 1))
            cw = r.choice([0, r.range(1, max(1, sw - cx))])
            ch = r.choice([0, r.range(1, max(1, sh - cy))])
            seq = ["sf %d %d" % sf, "h %d" % i, "crop %d %d %d %d" % (cx, cy, cw, ch), "d 8 %s %d" % (j, self.pf())]
            if not probe:
                seq += ["crop 0 0 0 0", "sf 1 1"]
            return seq
        if k < 12:
            return [r.choice(["dy ", "dy ", "dyp "]) + self.jref(kinds, ids)[1]] if r.chance(3, 4) else \
                ["ldy %s %d" % (self.jref(kinds, ids)[1], r.choice(LEGACY_FLAGS) | r.choice(LEGACY_FLAGS))]
        if k < 13:
            w, h = self.dims()
            return ["uy %d %d %d %d" % (w, h, r.range(0, 50), self.pf())]
        if k < 14:
            i, j = self.jref(kinds, ids)
            return ["h " + j, "gi"]
        if k < 15:
            return ["ld %s %d %d" % (self.jref(kinds, ids)[1], self.pf(), r.choice(LEGACY_FLAGS) | r.choice(LEGACY_FLAGS))]
        return ["lh " + self.jref(kinds, ids)[1]]

    def xform_ops(self, probe=False):
        r = self.r
        kinds = PROBE_KINDS if probe else HIST_KINDS
        i, j = self.jref(kinds)
        opts = 0
        for b in (1, 2, 4, 8, 16, 32, 64, 128, 256):
            if r.chance(1, 5):
                opts |= b
        k = r.below(10)
        if k < 6:
            return ["t %s %d %d %s" % (j, r.range(0, 7), opts, self.buf(probe))]
        if k < 7:
            return ["t %s %d %d %s %d %d" % (j, r.range(0, 7), opts, r.choice(["n", "b"]), r.range(0, 7), r.choice([0, 16, 32, 64]))]
        if k < 8:
            return ["h " + j, "tb %d %d" % (r.range(0, 7), opts & 0x4F)]
        return ["lt %s %d %d %d" % (j, r.range(0, 7), opts & ~16, r.choice(LEGACY_FLAGS))]

    def image_io(self, inst):
        """tj3SaveImage* / tj3LoadImage* (PPM for 8/12/16 bit, BMP for 8 bit): work on a temporary instance"""
        r = self.r
        prec = r.choice([8, 8, 12, 16])
        if r.chance(1, 2):
            w, h = self.dims()
            return ["si %d %d %d %d %d %d" % (prec, min(w, 64), min(h, 64), r.range(0, 50), r.choice([0, 1, 2, 6, 7]), r.range(0, 1))]
        # no RGBX-type format: tj3LoadImage* leaves the unused X byte of such pixels unset (unspecified by the API)
        return ["li %d %d %d" % (prec, r.range(0, 1), r.choice([0, 1, 6, 7, 8]))]

    def any_ops(self, inst, probe=False):
        r = self.r
        choices = []
        if inst in "ct":
            choices += ["c", "c"]
        if inst in "dt":
            choices += ["d", "d", "d"]
        if inst == "t":
            choices += ["x", "x"]
        c = r.choice(choices)
        if c == "c":
            o = self.comp_op(probe)
            return o if isinstance(o, list) else [o]
        if c == "d":
            return self.dec_ops(probe)
        return self.xform_ops(probe)

    def history(self):
        r = self.r
        inst = r.choice(["c", "d", "d", "t", "t"])
        ops = []
        if inst in "ct" and r.chance(9, 10):
            ops += ["set %d %d" % (P_QUALITY, r.range(1, 100)), "set %d %d" % (P_SUBSAMP, r.range(0, 6))]
        n = r.range(1, 7)
        while len(ops) < n + 2:
            k = r.below(20)
            if k < 5:
                ops.append(self.setp(inst, valid=not r.chance(1, 8)))
            elif k < 6 and inst in "ct":
                ops.append("icc %d" % r.choice([0, 1, 3, 7]))
            elif k < 7 and inst in "dt":
                ops.append("sf %d %d" % (r.choice(SF) if r.chance(4, 5) else (3, 7)))
            elif k < 8:
                ops.append("bad %d" % r.range(0, 7))
            elif k < 9 and r.chance(1, 3):
                ops += self.image_io(inst)
            else:
                ops += self.any_ops(inst)
        # parameter changes just before the probe make "switched among modes" histories
        if r.chance(1, 2):
            ops.append(self.setp(inst))
        probe = self.any_ops(inst, probe=True) if not r.chance(1, 25) else self.image_io(inst)
        ops += probe
        return "I %s ; " % inst + " ; ".join(ops)

    def mem_history(self):
        """TJPARAM_MAXMEMORY small enough to matter, large enough for ONE operation (256x256 4:4:4: about 0.4 MB of
        coefficient arrays), and the same full-image virtual-array operation repeated on the instance before the probe"""
        r = self.r
        limit = r.choice([1, 1, 2, 3, 4])
        reps = r.range(3, 6) if limit == 1 else r.range(4, 6) * limit
        kind = r.below(4)
        pre = ["set %d %d" % (P_MAXMEM, limit)]
        if kind == 0:        # progressive decode
            inst, op = r.choice(["d", "t"]), "d 8 27 %d" % r.choice([0, 2, 6, 7])
        elif kind == 1:      # optimised-Huffman or progressive compression (coefficient buffer for the whole image)
            inst = r.choice(["c", "t"])
            pre += ["set %d %d" % (P_QUALITY, r.range(50, 95)), "set %d %d" % (P_SUBSAMP, r.choice([0, 1, 2])),
                    "set %d 1" % r.choice([P_OPT, P_PROG])]
            op = "c 8 256 256 %d 0 n" % r.range(0, 50)
        elif kind == 2:      # lossless transform
            inst, op = "t", "t 27 %d %d n" % (r.range(0, 7), r.choice([0, 32, 256, 1]))
        else:                # decompress to YUV of a progressive image
            inst, op = r.choice(["d", "t"]), "dy 27"
        ops = pre + [op] * reps
        if r.chance(1, 3):   # a failing operation in between must give its space back as well
            ops.insert(r.range(2, len(ops) - 1), "d 8 27.e%d 0" % r.range(100, 900) if inst in "dt" else "bad 0")
        return "I %s ; " % inst + " ; ".join(ops + [op])

    def marker_history(self):
        """tables-only datastreams (with COM / APP1 / APP2-ICC markers) read by tj3DecompressHeader / handed to the
        decompression functions, then a probe that consumes saved markers; and tj3DecodeYUV8 calls that fail inside
        their jpeg_read_header (dimension > 65500), then a decompression probe"""
        r = self.r
        k = r.below(5)
        if k < 3:
            inst = "t" if (k == 0 or r.chance(1, 2)) else "d"
            ops = []
            if r.chance(1, 2):
                ops.append("set %d %d" % (P_SAVEMARKERS, r.range(0, 4)))
            if inst == "t" and r.chance(1, 3):
                ops.append("t %d %d %d n" % (r.choice([1, 11, 24]), r.range(0, 7), r.choice([0, 0, 64])))   # switches marker saving on
            for _ in range(r.range(1, 3)):
                tab = r.choice([22, 28, 28, 29])
                ops.append(r.choice(["h %d", "h %d", "d 8 %d 0", "dy %d", "h %d.m1", "h %d.t40"]) % tab)
            if r.chance(1, 2):
                ops.append("set %d %d" % (P_SAVEMARKERS, r.range(0, 4)))
            img = r.choice([0, 1, 3, 11, 24, 26])
            if inst == "t" and k == 0:
                probe = ["t %d %d %d %s" % (img, r.range(0, 7), r.choice([0, 0, 0, 64, 32]), r.choice(["n", "b"]))]
            elif r.chance(1, 2):
                probe = ["h %d" % img, "gi"]
            elif inst == "t":
                probe = ["h %d" % img, "tb %d %d" % (r.range(0, 7), r.choice([0, 64]))]
            else:
                probe = ["d 8 %d %d" % (img, self.pf())]
            return "I %s ; " % inst + " ; ".join(ops + probe)
        inst = r.choice(["d", "t"])
        ops = ["set %d %d" % (P_SUBSAMP, r.range(0, 6))]
        big = r.choice(["uy 65501 1 %d %d", "uy 1 65501 %d %d", "uy 70000 2 %d %d"]) % (r.range(0, 50), self.pf())
        ops += [big] * r.range(1, 2)
        if r.chance(1, 2):
            ops.append("uy 16 16 %d %d" % (r.range(0, 50), self.pf()))
        i, j = self.jref(PROBE_KINDS)
        probe = r.choice([["d 8 %s %d" % (j, self.pf())], ["h " + j], ["dy " + j], ["h %d" % i, "gi"]] + ([["t %s 0 0 n" % j]] if inst == "t" else []))
        return "I %s ; " % inst + " ; ".join(ops + probe)

    def legacy_fail_history(self):
        """legacy wrappers failing at their own stages (tjTransform under TJFLAG_NOREALLOC rejecting the cropping region after it
        has read the header, tjDecompress2 / tjDecompressToYUV2 on corrupt streams, tjCompress2 with a too small buffer), then a
        call that must start from a clean instance"""
        r = self.r
        small = r.choice([2, 3, 7, 8, 13, 14, 17, 18])       # the fixed 16,16,16,16 region does not fit / is not iMCU aligned
        k = r.below(4)
        if k == 0:
            inst, ops = "t", ["lt %d %d %d %d" % (small, r.range(0, 7), 4 | r.choice([0, 1, 2, 8]), 1024 | r.choice([0, 2, 8192]))]
        elif k == 1:
            inst, ops = "t", ["lt %s %d %d %d" % (self.jref(HIST_KINDS)[1], r.range(0, 7), r.choice([0, 4, 5]), r.choice([1024, 0, 1024 | 16384]))]
        elif k == 2:
            inst, ops = r.choice(["d", "t"]), ["ld %s %d %d" % (self.jref(HIST_KINDS)[1], self.pf(), r.choice(LEGACY_FLAGS)),
                                              "ldy %s %d" % (self.jref(HIST_KINDS)[1], r.choice(LEGACY_FLAGS))]
        else:
            inst, ops = r.choice(["c", "t"]), ["lc %d %d %d %d %d %d %d" % (r.choice([64, 128]), r.choice([48, 96]), r.range(0, 50), self.pf(),
                                                                            r.range(0, 6), r.range(60, 100), 1024)]
        if r.chance(1, 2):
            ops = ops + [ops[0]]
        img = r.choice([0, 1, 4, 5, 9, 11])
        if inst == "t":
            probe = r.choice([["t %d %d 0 n" % (img, r.range(0, 7))], ["lt %d %d 0 0" % (img, r.range(0, 7))], ["d 8 %d %d" % (img, self.pf())],
                              ["h %d" % img, "tb 0 0"]])
        elif inst == "d":
            probe = r.choice([["d 8 %d %d" % (img, self.pf())], ["h %d" % img], ["dy %d" % img], ["ld %d 0 0" % img]])
        else:
            probe = [self.comp_op(True)]
            probe = probe[0] if isinstance(probe[0], list) else probe
        return "I %s ; " % inst + " ; ".join(ops + probe)

    def arena_history(self):
        """the caller passes the SAME buffer address again with a different declared size (arena: 'A' = all 400 000 bytes declared,
        'a' = 1 KB declared), with and without TJPARAM_NOREALLOC; YUV / 8-bit calls after 12/16-bit, lossless and transform calls"""
        r = self.r
        k = r.below(3)
        if k < 2:
            inst = r.choice(["c", "t"])
            ops = ["set %d %d" % (P_QUALITY, r.range(60, 98)), "set %d %d" % (P_SUBSAMP, r.range(0, 2)), "set %d %d" % (P_NOREALLOC, 1 if k == 0 else r.range(0, 1))]
            big = "c 8 %d %d %d 0 A" % (r.choice([64, 128, 128]), r.choice([48, 96]), r.range(0, 50))
            ops += [big] * r.range(1, 2)
            # with reallocation allowed the documentation says *jpegSize is ignored for a reused buffer: the declared size binds only with NOREALLOC
            ops.append("set %d 1" % P_NOREALLOC)
            probe = r.choice(["c 8 128 96 %d 0 a" % r.range(0, 50), "c 8 128 96 %d 0 a" % r.range(0, 50), "cy 64 48 %d a" % r.range(0, 50)])
            if probe.startswith("cy"):
                ops += ["set %d 0" % P_LOSSLESS, "set %d 1" % P_CS]
            return "I %s ; " % inst + " ; ".join(ops + [probe])
        # precision left behind by 12/16-bit, lossless or transform calls, then the 8-bit-only YUV entry points
        inst = r.choice(["c", "t"])
        ops = ["set %d %d" % (P_QUALITY, r.range(30, 98)), "set %d %d" % (P_SUBSAMP, r.range(0, 2))]
        hist = [["c 12 %d %d %d 0 n" % (r.choice([16, 40]), r.choice([16, 40]), r.range(0, 50))],
                ["set %d 1" % P_LOSSLESS, "set %d %d" % (P_PREC, r.choice([13, 16])), "c 16 16 16 %d 0 n" % r.range(0, 50), "set %d 0" % P_LOSSLESS],
                ["set %d 1" % P_LOSSLESS, "set %d %d" % (P_PREC, r.choice([9, 12])), "c 12 16 16 %d 0 n" % r.range(0, 50), "set %d 0" % P_LOSSLESS]]
        if inst == "t":
            hist.append(["t %d 0 0 n" % r.choice([12, 14])])
        ops += r.choice(hist)
        ss = r.range(0, 2)
        ops += ["set %d 0" % P_LOSSLESS, "set %d %d" % (P_SUBSAMP, ss), "set %d 1" % P_CS]
        probe = r.choice(["cy %d %d %d n" % (r.choice([16, 40, 64]), r.choice([16, 48]), r.range(0, 50)),
                          "ey %d %d %d %d" % (r.choice([16, 40, 64]), r.choice([16, 48]), r.range(0, 50), r.choice([0, 1, 2, 7]))])
        return "I %s ; " % inst + " ; ".join(ops + [probe])

    def saved_marker_cut_history(self):
        """a header / decompress / transform call that FAILS INSIDE a saved marker (stream cut in the middle of a COM / APPn /
        ICC segment, TJPARAM_STOPONWARNING so that the memory source's premature-EOF warning aborts the call from within
        save_marker), then header + ICC / decompress / transform of another image that carries saved markers"""
        r = self.r
        inst = r.choice(["d", "d", "t"])
        ops = ["set %d 1" % P_STOP]
        sm = r.choice([2, 2, 4, 3, 1]) if inst == "t" else r.choice([2, 2, 4])
        if sm != 2 or r.chance(1, 3):
            ops.append("set %d %d" % (P_SAVEMARKERS, sm))
        # (stream, index among its COM/APPn segments) of a segment that is saved under this setting
        icc = [(11, 1), (26, 1), (28, 2)]
        com = [(24, 0), (28, 0), (29, 0)]
        app1 = [(24, 1), (28, 1), (29, 1)]
        if inst == "d":
            targets = icc
        else:
            targets = {1: com, 2: icc + com + app1, 3: com + app1, 4: icc}[sm]
        for _ in range(r.range(1, 2)):
            img, seg = r.choice(targets)
            ref = "%d.S%d.%d" % (img, seg, r.range(0, 2))
            if inst == "t" and r.chance(2, 3):
                ops.append("t %s %d %d n" % (ref, r.range(0, 7), r.choice([0, 0, 32])))
            else:
                ops.append(r.choice(["h %s", "h %s", "d 8 %s 0", "dy %s"]) % ref)
        img = r.choice([11, 26, 11, 26, 24])
        if inst == "t" and r.chance(1, 2):
            probe = ["t %d %d %d n" % (img, r.range(0, 7), r.choice([0, 0, 32]))]
        else:
            probe = r.choice([["h %d" % img, "gi"], ["d 8 %d %d" % (img, self.pf())], ["h %d" % img, "gi"]])
        return "I %s ; " % inst + " ; ".join(ops + probe)

    def raw_marker_history(self):
        r = self.r
        ops = ["d %d 1 0 1 0" % r.choice([22, 28, 28, 29]) for _ in range(r.range(1, 2))]
        if r.chance(1, 3):
            ops.insert(0, "d %d 1 0 1 0" % r.choice([1, 24, 11]))
        ops.append("d %d %d 0 1 0" % (r.choice([0, 1, 3, 11, 24, 26]), r.range(0, 1)))
        return "L d ; " + " ; ".join(ops)

    def raw_history(self):
        r = self.r
        if r.chance(1, 2):
            ops = []
            for _ in range(r.range(2, 5)):
                i, j = self.jref(HIST_KINDS if len(ops) else [""], [x for x in LIB if LIB[x] and LIB[x][4] == 8 and not LIB[x][3] and x != 27])
                fancy = r.range(0, 1)
                skip = r.choice([0, 0, 2, 8, 16, 18])    # even start lines only, see design/C12.md "Side observations"
                ops.append("d %s %d %d %d %d" % (j, fancy, skip, r.choice([1, 2, 7, 16, 17, 100]), r.range(0, 1)))
            # the probe: a clean stream
            i, j = self.jref([""], [x for x in LIB if LIB[x] and LIB[x][4] == 8 and not LIB[x][3] and x not in (23, 27)])
            ops.append("d %s %d %d %d %d" % (j, r.range(0, 1), r.choice([0, 2, 8, 16, 18]), r.choice([1, 2, 7, 16, 17]), r.range(0, 1)))
            return "L d ; " + " ; ".join(ops)
        ops = []
        for _ in range(r.range(2, 5)):
            w, h = self.dims()
            rows = h if r.chance(2, 3) else r.range(0, h)
            ops.append("c %d %d %d %d %d %d %d %d" % (w, h, r.range(0, 50), r.range(1, 100), r.range(0, 1), r.range(0, 1), r.range(0, 1), rows))
        return "L c ; " + " ; ".join(ops)


# ----------------------------------------------------------------------------- result parsing
def parse_result(line):
    """-> dict(kind, ops=[{rc,st,h,n,w,S}], fresh={..}|None, verdict, crash)"""
    parts = [p.strip() for p in line.split(" | ")]
    out = {"kind": parts[0][:1], "ops": [], "fresh": None, "verdict": None, "crash": None, "destroyed": False, "raw": line}
    for p in parts[1:]:
        if p.startswith("CRASH"):
            out["crash"] = p[6:]
        elif p in ("SAME", "DIFF"):
            out["verdict"] = p
        elif p == "destroyed":
            out["destroyed"] = True
        elif p.startswith("S=") and not out["ops"]:
            out["init"] = p[2:]
        else:
            fresh = p.startswith("F ")
            d = dict(kv.split("=", 1) for kv in p.split() if "=" in kv)
            if "S" in d:
                # S= is the last field and contains spaces: re-extract
                d["S"] = p[p.index("S=") + 2:]
            if fresh:
                out["fresh"] = d
            else:
                out["ops"].append(d)
    return out


def finding_signature(hist, res):
    """stable signature for a history-dependence / memory error observed on the implementation"""
    crash = res["crash"] or ""
    ops = [o.strip() for o in hist.split(";")]
    probe = ops[-1].split()
    if any(o.get("st", "").startswith("OVERRUN") for o in res.get("ops", []) + ([res["fresh"]] if res.get("fresh") else [])):
        return "buffer-overrun:declared-size-ignored-for-reused-address"
    if probe and probe[0] == "uy" and res.get("ops") and "BADHUFF" in res["ops"][-1].get("st", ""):
        return "F13:stale-huffman-slot:tj3DecodeYUV8-after-failed-header"
    for oi, o in enumerate(res.get("ops", [])):
        parts_ = o.get("S", "").split()
        kk = [p for p in parts_ if p.startswith("k:")]
        dd = [p for p in parts_ if p.startswith("d:") and p != "d:-"]
        if kk and "0" in kk[0][2:].split(","):
            return "marker-reader-methods-not-restored-after:" + (ops[oi + 1].split()[0] if oi + 1 < len(ops) else "?")
        if dd and (int(dd[0][2:].split(",")[7]) & 2):
            return "saved-markers-survive:" + (ops[oi + 1].split()[0] if oi + 1 < len(ops) else "?") + (":probe-differs" if res.get("verdict") == "DIFF" else "")
    for oi, o in enumerate(res.get("ops", [])):
        mm = [p for p in o.get("S", "").split() if p.startswith("m:")]
        if mm and (mm[0][2:].split(",")[0] != "0" or mm[0][2:].split(",")[2] != "0"):
            return "memory-accounting-drift:" + ("probe-differs-under-TJPARAM_MAXMEMORY" if res.get("verdict") == "DIFF" else "total_space_allocated")
    for oi, o in enumerate(res.get("ops", [])):
        stt = o.get("S", "").split()
        if len(stt) >= 2 and ((stt[0] != "c:-" and not stt[0].startswith("c:100,")) or (stt[1] != "d:-" and not stt[1].startswith("d:200,"))):
            return "errpath:global_state-not-START-after:" + (ops[oi + 1].split()[0] if oi + 1 < len(ops) else "?")
    if probe and probe[0] == "mb" and not crash and res.get("fresh") and res.get("ops"):
        # known (F62): the permanent pool left by earlier calls counts against TJPARAM_MAXMEMORY.  Only a boundary shift that
        # the permanent-pool difference explains carries that signature; unreturned image-pool bytes (drift) or a larger
        # shift are different dependences
        try:
            def mfield(S, i):
                return int([p for p in S.split() if p.startswith("m:")][0][2:].split(",")[i])
            uo, fo = res["ops"][-1], res["fresh"]
            drift = any(mfield(o["S"], 0) != 0 or mfield(o["S"], 2) != 0 for o in res["ops"] if "S" in o)
            w = int(probe[1]) if len(probe) > 1 and probe[1] in ("8", "16", "24", "32") else 16
            row_bytes = (w // 8) * 128                      # one block row of the coefficient array of the grayscale image
            shift_bytes = abs(int(uo["n"]) - int(fo["n"])) // 8 * row_bytes
            dperm = abs(mfield(uo["S"], 4) - mfield(fo["S"], 4)) + abs(mfield(uo["S"], 5) - mfield(fo["S"], 5))
            if not drift and shift_bytes <= dperm + 2 * row_bytes:
                return "F40:maxmemory-boundary:permanent-pool"
            return "maxmemory-boundary-unexplained:shift=%dB:permanent-delta=%dB" % (shift_bytes, dperm)
        except (KeyError, IndexError, ValueError):
            return "maxmemory-boundary-unexplained"
    if "jdapistd.c" in crash and "read_and_discard_scanlines" in crash and "use-after-free" in crash:
        return "F5:stale-cconvert:skip-scanlines-merged-upsampling"
    # the same defect without a sanitizer: the stale pointer is read and written silently, the pixels may differ
    if not crash and probe and ops[0].startswith("L") and probe[0] == "d" and len(probe) >= 4 and probe[2] == "0" and probe[3] != "0":
        return "F5:stale-cconvert:skip-scanlines-merged-upsampling"
    if not crash and probe and probe[0] == "d" and res.get("ops"):
        try:
            d = res["ops"][-1]["S"].split()[1].split(",")
            p = res["ops"][-1]["S"].split()[2][2:].split(",")
            if d[10] == "1" and (p[29] != "0" or p[31] != "0"):
                return "F5:stale-cconvert:skip-scanlines-merged-upsampling"
        except (KeyError, IndexError):
            pass
    if probe and probe[0] == "gi":
        return "F9:stale-icc-profile:tj3GetICCProfile"
    if probe and probe[0] == "tb":
        return "F9:stale-icc-profile:tj3TransformBufSize"
    if probe and probe[0] == "uy":
        try:
            before = (res["ops"][-2]["S"] if len(res["ops"]) >= 2 else res["init"]).split()[1].split(",")
            if before[4] != "1":
                return "F12:stale-marker-flags:tj3DecodeYUV8-after-Adobe-marker-JPEG"
        except (KeyError, IndexError):
            pass
        return "F10:stale-master-lossless:tj3DecodeYUV8-after-lossless-decode"
    if probe and probe[0] in ("t", "lt") and not crash and res.get("fresh") and res["ops"]:
        try:
            before = (res["ops"][-2]["S"] if len(res["ops"]) >= 2 else res["init"]).split()[0].split(",")
            if before[11] == "12":
                return "F11:stale-data-precision:tj3Transform-after-12bit-operation"
        except (KeyError, IndexError):
            pass
    if crash:
        m = re.search(r"AddressSanitizer: (\S+) \S*?([A-Za-z0-9_.-]+\.c):\d+ in (\S+)", crash)
        if m:
            return "crash:%s:%s:%s" % (m.group(1), m.group(2), m.group(3))
        return "crash:" + re.sub(r"0x[0-9a-f]+|\d+", "N", crash)[:80]
    return "history-dependent:" + (probe[0] if probe else "?")


def run(ctx):
    rng = ctx.rng
    ctx.regen(["ErrPaths"])
    ctx.prove()
    drv = ctx.model_driver()
    # other builders share coq/: make sure the extraction is not older than the model it was made from
    try:
        ext = os.path.join(core.COQ, "x_c12.ml")
        if drv and os.path.getmtime(ext) < os.path.getmtime(os.path.join(core.COQ, "model", "ApiOps.vo")):
            os.remove(os.path.join(core.COQ, "extract", "ExtractC12.vo"))
            drv = ctx.model_driver()
    except OSError:
        pass
    flavours = ["asan", "simd"] if not ctx.thorough() else ["asan", "simd", "plain"]
    exes = {fl: ctx.cc("c12", ["c12.c"], fl, libs=("turbojpeg",), extra="-DBMP_SUPPORTED -DPPM_SUPPORTED") for fl in flavours}

    hists = []   # (line, stream)
    if ctx.replay:
        r = json.load(open(ctx.replay))
        if r.get("history"):
            hists.append((r["history"], "replay"))
        return run_hists(ctx, hists, exes, drv, flavours)
    cdir = os.path.join(core.VERIF, "corpus", "C12")
    if os.path.isdir(cdir):
        for fn in sorted(os.listdir(cdir)):
            for l in open(os.path.join(cdir, fn)):
                l = l.split("#")[0].strip()
                if l:
                    hists.append((l, "corpus"))
    g = Gen(rng)
    for _ in range(ctx.n(1500, 18000)):
        hists.append((g.history(), "tj"))
    for _ in range(ctx.n(40, 300)):
        hists.append((g.mem_history(), "mem"))
    for _ in range(ctx.n(120, 1200)):
        hists.append((g.marker_history(), "markers"))
    for _ in range(ctx.n(40, 600)):
        hists.append((g.raw_marker_history(), "raw"))
    for _ in range(ctx.n(60, 800)):
        hists.append((g.legacy_fail_history(), "legacy-fail"))
    for _ in range(ctx.n(60, 800)):
        hists.append((g.arena_history(), "arena-precision"))
    for _ in range(ctx.n(60, 600)):
        hists.append((g.saved_marker_cut_history(), "cut-in-saved-marker"))
    for _ in range(ctx.n(300, 3000)):
        hists.append((g.raw_history(), "raw"))
    return run_hists(ctx, hists, exes, drv, flavours)


def run_hists(ctx, hists, exes, drv, flavours):
    inp = ("\n".join(h for h, _ in hists) + "\n").encode()
    env = {"ASAN_OPTIONS": "detect_leaks=0:abort_on_error=0:allocator_may_return_null=1", "UBSAN_OPTIONS": "print_stacktrace=0"}
    outs = {}
    import threading
    raw_out = {}

    def _run(fl, exe):
        raw_out[fl] = sh2([exe], input=inp, timeout=3000, env=env)
    ths = [threading.Thread(target=_run, args=(fl, exe)) for fl, exe in exes.items()]
    for t in ths:
        t.start()
    for t in ths:
        t.join()
    for fl, exe in exes.items():
        rc, out, err = raw_out[fl]
        lines = out.decode("utf-8", "replace").split("\n")
        if rc != 0 or len(lines) < len(hists):
            ctx.broken_tie("harness:" + fl, "harness stopped early (rc=%d, %d of %d lines): %s" % (rc, len(lines), len(hists), err[-300:]))
            lines += ["X missing"] * (len(hists) - len(lines))
        outs[fl] = lines
    model = model_lines(ctx, drv, hists, outs[flavours[0]])
    ndiff = 0
    for i, (h, stream) in enumerate(hists):
        res0 = None
        for fl in flavours:
            res = parse_result(outs[fl][i])
            if res0 is None:
                res0 = res
            bad = None
            if res["crash"]:
                bad = "memory error / crash during the history (%s build): %s" % (fl, res["crash"])
            elif res["kind"] == "X":
                continue
            elif not res["destroyed"]:
                bad = "instance not destroyable after the history (%s build)" % fl
            elif res["kind"] == "R" and res["verdict"] == "DIFF":
                bad = "probe result on the used instance differs from a fresh instance with the same parameters (%s build): used %s/%s/%s fresh %s/%s/%s" % (
                    fl, res["ops"][-1].get("rc"), res["ops"][-1].get("st"), res["ops"][-1].get("h"),
                    res["fresh"].get("rc"), res["fresh"].get("st"), res["fresh"].get("h"))
            elif res["kind"] == "L" and res["fresh"] and (res["fresh"].get("rc") != res["ops"][-1].get("rc") or res["fresh"].get("h") != res["ops"][-1].get("h")):
                bad = "libjpeg API: reused object gives a different result than a fresh object (%s build)" % fl
            if not bad and res["kind"] == "R":
                # getters after a failed call: a header-reading call that fails in its argument checks or inside
                # jpeg_read_header leaves every tj3Get-visible parameter (and scaling factor, cropping region, ICC size) as it was
                prev = res.get("init", "")
                hops = [o.strip().split() for o in h.split(";")][1:]
                for oi, o in enumerate(res["ops"]):
                    cur = o.get("S", "")
                    stg = o.get("st", "")
                    if oi < len(hops) and hops[oi] and hops[oi][0] in ("h", "lh", "d", "dy", "dyp", "ldy", "ld", "t", "uy") and \
                            (stg in ("T0", "T1") or stg.startswith("Ed200") or stg.startswith("Ed201")):
                        pa = [p for p in prev.split() if p.startswith("p:")]
                        pb = [p for p in cur.split() if p.startswith("p:")]
                        if pa and pb and pa[0] != pb[0] and not (hops[oi][0] == "ld" and False):
                            bad = "call %d (%s) failed at %s but changed the parameters the getters report: %s -> %s (%s build)" % (
                                oi + 1, hops[oi][0], stg, pa[0][:120], pb[0][:120], fl)
                            break
                        ctx.cov["getter_checks_after_failed_calls"] = ctx.cov.get("getter_checks_after_failed_calls", 0) + 1
                    prev = cur
            if not bad and res["kind"] == "R":
                # the memory manager's total_space_allocated accounts exactly for what its pools hold, after every call
                for oi, o in enumerate(res["ops"]):
                    mm = [p for p in o.get("S", "").split() if p.startswith("m:")]
                    if mm:
                        v = mm[0][2:].split(",")
                        if v[0] != "0" or v[2] != "0":
                            bad = ("after call %d total_space_allocated exceeds what the memory pools hold by %s (compressor) / %s (decompressor) "
                                   "bytes: the next operations see less of TJPARAM_MAXMEMORY than a fresh instance (%s build)" % (oi + 1, v[0], v[2], fl))
                            break
            if not bad and res["kind"] == "R":
                for oi, o in enumerate(res["ops"] + ([res["fresh"]] if res.get("fresh") else [])):
                    if o.get("st", "").startswith("OVERRUN"):
                        bad = "call %d wrote %s bytes beyond the declared size of the caller's JPEG buffer (%s build)" % (oi + 1, o["st"][7:], fl)
                        break
            if not bad and res["kind"] == "R":
                for oi, o in enumerate(res["ops"]):
                    parts_ = o.get("S", "").split()
                    kk = [p for p in parts_ if p.startswith("k:")]
                    dd = [p for p in parts_ if p.startswith("d:") and p != "d:-"]
                    if kk and "0" in kk[0][2:].split(","):
                        bad = "after call %d read_markers / reset_marker_reader / start_input_pass are not the original methods (%s) (%s build)" % (oi + 1, kk[0], fl)
                        break
                    if dd and (int(dd[0][2:].split(",")[7]) & 2):
                        bad = "after call %d cinfo->marker_list still holds saved markers of the finished datastream (%s build)" % (oi + 1, fl)
                        break
            if not bad and res["kind"] == "R":
                # (1) on the implementation: after every call both objects are back in their START state
                for oi, o in enumerate(res["ops"]):
                    stt = o.get("S", "").split()
                    if len(stt) >= 2 and ((stt[0] != "c:-" and not stt[0].startswith("c:100,")) or (stt[1] != "d:-" and not stt[1].startswith("d:200,"))):
                        bad = "after call %d the instance is not back in its START state (%s %s) (%s build)" % (oi + 1, stt[0][:6], stt[1][:6], fl)
                        break
            if bad:
                ndiff += 1
                sig = finding_signature(h, res)
                ctx.violation(bad + " || history: " + h, {"history": h, "flavour": fl, "result": res["raw"][-1500:]}, signature=sig)
        # builds agree on the probe outcome
        key = None
        if res0 and res0["ops"]:
            last = res0["ops"][-1]
            key = (stream, tuple(o.get("st") for o in res0["ops"])[-3:], last.get("h"))
        ctx.count(stream, 1, key)
        if i % 401 == 0 and res0:
            ctx.sample({"history": h, "result": res0["raw"][:600]})
        if model is not None:
            check_model(ctx, h, stream, res0, model[i])
    ctx.cov["implementation_dependences_seen"] = ndiff
    ctx.cov["rule"] = ("histories from a grammar: parameter changes (valid / out of range / not applicable), successful and failing "
                       "compress / decompress / YUV / transform / header / legacy-API calls of every mode (lossy, lossless, progressive, "
                       "arithmetic, optimised; 8/12/16 bit; all pixel formats; scaling; cropping), failures by truncation at marker "
                       "boundaries / inside segments / inside entropy data, garbage, changed marker codes, removed segments, invalid "
                       "arguments, NOREALLOC with a small buffer, scan/pixel/memory limits; then a probe on a self-contained stream or image "
                       "executed on the used and on a fresh instance; TJPARAM_MAXMEMORY 1..4 MB with 3..24 repetitions of a full-image "
                       "virtual-array operation (progressive decode / optimised or progressive compress / transform / decompress to YUV of a "
                       "256x256 image) before the same operation as probe; plus reused libjpeg objects with jpeg_abort and longjmp error exits; "
                       "distinct = distinct (stream, last outcome stages, probe output hash)")
    for d_ in (core.evidence_dir(), os.path.join(core.BUILD, "replay")):
        try:
            os.makedirs(d_, exist_ok=True)
        except OSError:
            pass
    ctx.assume += ["the fresh instance receives the parameter block of the used instance by field copy (every tj3Get-visible parameter, "
                   "scaling factor, cropping region, ICC profile to embed)",
                   "probe streams are self-contained (prefixes / in-place corruptions of interchange JPEGs); abbreviated streams only occur in the history",
                   "correspondence (model vs implementation abstract state after every call) is differential testing; it supports the tie, not the theorems"]


# ----------------------------------------------------------------------------- model bridge
S_ARGS, S_HDR, S_POSTHDR, S_START0, S_STARTCC, S_START, S_CROP, S_SCAN, S_FINISH = 1, 2, 3, 4, 5, 6, 7, 8, 9
S_CDEF, S_CSTART, S_CSCAN, S_CFINISH, S_RDCOEF, S_WRCOEF, S_XTHROW, S_MEMDEST, S_NOIMAGE, S_RDCOEF2, S_CSTART2, S_POSTHDR2 = 10, 11, 12, 13, 14, 15, 16, 17, 18, 19, 20, 21
S_LARGS, S_LSCALE = 22, 23
ICC_IDS = (11, 26)
PARAM_NAMES = ["stopOnWarning", "bottomUp", "noRealloc", "quality", "subsamp", "jpegWidth", "jpegHeight", "precision", "colorspace",
               "fastUpsample", "fastDCT", "optimize", "progressive", "scanLimit", "arithmetic", "lossless", "losslessPSV", "losslessPt",
               "restartIntervalBlocks", "restartIntervalRows", "xDensity", "yDensity", "densityUnits", "maxMemory", "maxPixels", "saveMarkers",
               "sfn", "sfd", "cx", "cy", "cw", "ch", "iccSize"]


def parse_state(S):
    """'c:.. d:.. p:..' -> dict(c=[..]|None, d=[..]|None, p=[..])"""
    out = {"c": None, "d": None, "p": [], "m": None, "k": None, "s": None}
    for part in S.split():
        k, v = part[0], part[2:]
        if v == "-":
            continue
        out[k] = [int(x) for x in v.split(",") if x != ""]
    return out


def jref_info(ref):
    """-> (id or None, corruption kind)"""
    if ref == "F1":
        return None, "F1"
    m = re.match(r"(\d+)(?:\.([a-zA-Z]))?", ref)
    return int(m.group(1)), (m.group(2) or "")


class Unsupported(Exception):
    pass


def stage_parts(st):
    m = re.match(r"E([cd])(\d+)\.(\w+)\.(\d)(\d)\.(\d+)$", st)
    if m:
        return {"side": m.group(1), "gs": int(m.group(2)), "code": m.group(3), "soi": int(m.group(4)), "sof": int(m.group(5)), "um": int(m.group(6))}
    return None


def to_model_call(idx, toks, res, pre, post, flags):
    """one harness op -> (kind string, args dict); sets flags['imprecise'] when the failure stage cannot be placed exactly"""
    op = toks[0]
    rc = int(res["rc"])
    st = res["st"]
    warn = int(res.get("w", "0"))
    pp = dict(zip(PARAM_NAMES, post["p"]))
    pq = dict(zip(PARAM_NAMES, pre["p"]))
    a = {"callid": idx + 1, "warn": warn, "fail": 0}
    E = stage_parts(st)
    T = int(st[1:]) if re.match(r"T\d+$", st) else None
    if st == "SKIP" or st == "?" or st == "T?" or st.startswith("OVERRUN"):
        raise Unsupported(op + ":" + st)
    if st == "W" and rc != 0 and pq["stopOnWarning"]:
        raise Unsupported("stop-on-warning abort")

    def dec_facts(ref):
        i, kind = jref_info(ref)
        d = post["d"]
        a.update({"img": (i if i is not None else 999) + 1000 * idx, "lossless": d[4], "arith": d[5], "prog": d[6], "um_end": d[3],
                  "jw": pp["jpegWidth"], "jh": pp["jpegHeight"], "jprec": pp["precision"], "subsamp": pp["subsamp"],
                  "colorspace": pp["colorspace"], "ncomp": 3, "o_xDensity": pp["xDensity"], "o_yDensity": pp["yDensity"],
                  "o_densityUnits": pp["densityUnits"], "o_losslessPSV": pp["losslessPSV"], "o_losslessPt": pp["losslessPt"],
                  "tables_only": 1 if (i in (22, 28, 29) and kind == "") else 0,
                  "saves_markers": 1 if ((d[7] & 2) or (i in (11, 26, 28) and pq["saveMarkers"] in (2, 4))) else 0})
        if len(d) >= 14:
            a.update({"jfif": d[11], "adobe": d[12], "adobe_tr": d[13]})
        selfc = 0 if (i == 23 or kind in ("r", "k", "x")) else 1
        return i, kind, selfc

    def dec_fail(kindname):
        """decompressor-side failure stage"""
        if rc == 0 or st == "W":
            return
        if E and E["side"] == "d":
            if E["gs"] in (200, 201):
                if E["code"] == "NOIMG":
                    # EOI before any SOS where an image is required: the model raises by itself
                    a.update({"tables_only": 1, "f_soi": E["soi"], "f_sof": E["sof"]})
                    return
                a.update({"fail": S_HDR, "f_soi": E["soi"], "f_sof": E["sof"], "f_um": E["um"], "tables_only": 0, "f_tables": E["soi"]})
            elif E["gs"] == 202:
                if kindname == "t":
                    a["fail"] = S_RDCOEF
                    flags["imprecise"] = True
                elif E["code"] == "CONV":
                    a["fail"] = S_STARTCC
                elif E["code"] in ("NOHUFF", "NOQUANT", "BADHUFF"):
                    a["fail"] = S_START
                else:
                    a["fail"] = S_START
                    flags["imprecise"] = True
            elif E["gs"] in (203, 204):
                a["fail"] = S_START
                flags["imprecise"] = True
            elif E["gs"] in (205, 206):
                a["fail"] = S_SCAN
            elif E["gs"] == 209:
                a["fail"] = S_RDCOEF2
            elif E["gs"] == 210:
                a["fail"] = S_FINISH
                flags["imprecise"] = True
            else:
                raise Unsupported("stage " + st)
        elif T is not None:
            if T in (0, 1):
                a["fail"] = S_ARGS
            elif T == 27:
                a["fail"] = S_START
                flags["imprecise"] = True
            elif T in (3, 6, 7, 11):
                a["fail"] = S_POSTHDR2 if (kindname == "dy" and T in (3, 11)) else S_POSTHDR
            elif T in (4, 28, 24, 25):
                a["fail"] = S_CROP
                flags["imprecise"] = True
            else:
                raise Unsupported("stage " + st)
        else:
            raise Unsupported("stage " + st)

    def flagargs(fl):
        a.update({"fl_bottomup": 1 if fl & 2 else 0, "fl_fastupsample": 1 if fl & 256 else 0, "fl_norealloc": 1 if fl & 1024 else 0,
                  "fl_fastdct": 1 if fl & 2048 else 0, "fl_accuratedct": 1 if fl & 4096 else 0, "fl_stoponwarning": 1 if fl & 8192 else 0,
                  "fl_progressive": 1 if fl & 16384 else 0, "fl_limitscans": 1 if fl & 32768 else 0})
        if st == "W" and rc != 0 and (fl & 8192):
            raise Unsupported("stop-on-warning abort")

    if op == "set":
        return "set", {"param": int(toks[1]), "value": int(toks[2])}
    if op == "sf":
        return "sf", {"num": int(toks[1]), "denom": int(toks[2]), "fail": 0 if rc == 0 else S_ARGS}
    if op == "crop":
        return "crop", {"x": pp["cx"], "y": pp["cy"], "w": pp["cw"], "h": pp["ch"], "fail": 0 if rc == 0 else S_ARGS}
    if op == "icc":
        return "icc", {"icc_id": int(toks[1]) * 100}
    if op == "gi":
        return "gi", {"fetch": 1, "fail": S_ARGS if (T in (0, 1)) else 0}
    if op == "tb":
        return "tb", {"copynone": 1 if int(toks[2]) & 64 else 0, "fail": S_ARGS if (rc != 0) else 0}
    if op == "bad":
        a["fail"] = S_ARGS
        a["bufmode"] = 2
        k = int(toks[1]) % 8
        return {0: "c.8", 4: "c.8", 1: "d.8.100", 5: "d.8.100", 2: "h.10", 3: "t.10", 6: "dy.10", 7: "ey"}[k], a
    if op in ("h", "lh"):
        i, kind, selfc = dec_facts(toks[1])
        dec_fail("h")
        if (rc == 0 or (op == "lh" and T == 6)) and post["d"][2] == 0 and post["d"][0] == 200:
            a["fail"] = 0
            # EOI before any SOS: jpeg_read_header aborts and reports a tables-only stream
            a.update({"tables_only": 1, "f_soi": 1, "f_sof": post["d"][2]})
        has = 1 if ((rc == 0 or st == "W") and not a.get("tables_only") and post["d"][9] == 1 and (pre["d"][9] == 0 or i in ICC_IDS)) else 0
        a.update({"has_icc": has, "icc_id": 1})
        return "h.%d%d" % (selfc, 0 if a["fail"] == S_ARGS else 1), a
    if op in ("si", "li"):
        prec = int(toks[1]) if int(toks[1]) in (8, 12, 16) else 8
        a.update({"img": 9500 + idx, "bmp_density": 1 if (op == "li" and rc == 0 and int(toks[2]) and prec == 8) else 0,
                  "o_xDensity": pp["xDensity"], "o_yDensity": pp["yDensity"], "o_densityUnits": pp["densityUnits"]})
        if rc != 0:
            a["fail"] = S_ARGS if T is not None else S_SCAN
            if T is None:
                raise Unsupported("image file error")
        return "%s.%d" % (op, prec), a
    if op in ("d", "dy", "dyp", "ldy"):
        ref = toks[2] if op == "d" else toks[1]
        if op == "ldy":
            flagargs(int(toks[2]))
        i, kind, selfc = dec_facts(ref)
        dec_fail("dy" if op in ("dyp", "ldy") else op)
        if op in ("dy", "dyp", "ldy"):
            a["merged_obs"] = post["d"][10]
            if op == "ldy":
                a.update({"sfn": pp["sfn"], "sfd": pp["sfd"]})
                if a["fail"] == S_POSTHDR:
                    a["fail"] = S_POSTHDR     # "Could not determine subsampling" is raised by tj3DecompressToYUV8 after the wrapper
                return "ldy.%d" % selfc, a
            return "dy.%d%d" % (selfc, 1 if op == "dyp" else 0), a
        bits = int(toks[1])
        bits = 8 if bits <= 8 else 12 if bits <= 12 else 16
        crop = 1 if (pq["cx"] or pq["cy"] or pq["cw"] or pq["ch"]) else 0
        merged = post["d"][10] if (rc == 0 or st == "W" or a["fail"] in (S_STARTCC, S_START, S_SCAN, S_FINISH, S_CROP)) else 0
        a["pf"] = int(toks[3])
        if crop and pq["ch"]:
            sh = (pp["jpegHeight"] * pq["sfn"] + pq["sfd"] - 1) // max(pq["sfd"], 1)
            a["skip_tail"] = 1 if pq["cy"] + pq["ch"] != sh else 0
        return "d.%d.%d%d%d" % (bits, selfc, crop, merged), a
    if op == "ld":
        flagargs(int(toks[3]))
        i, kind, selfc = dec_facts(toks[1])
        dec_fail("d")
        merged = post["d"][10] if (rc == 0 or st == "W" or a["fail"] in (S_STARTCC, S_START, S_SCAN, S_FINISH)) else 0
        a.update({"pf": int(toks[2]), "sfn": pp["sfn"], "sfd": pp["sfd"]})
        return "ld.%d%d" % (selfc, merged), a
    if op == "uy":
        a["img"] = 5000 + idx
        a["pf"] = int(toks[4])
        if rc != 0 and st != "W":
            if T in (0, 1):
                a["fail"] = S_ARGS
            elif T in (2, 10):
                a["fail"] = S_XTHROW
            elif E and E["side"] == "d" and E["gs"] in (200, 201):
                a["fail"] = S_HDR
            elif E and E["side"] == "d" and E["gs"] == 202:
                a["fail"] = S_STARTCC if E["code"] == "CONV" else S_START
                if E["code"] not in ("CONV", "NOHUFF", "NOQUANT", "BADHUFF"):
                    flags["imprecise"] = True
            else:
                raise Unsupported("stage " + st)
        merged = post["d"][10] if (rc == 0 or st == "W" or a["fail"] in (S_START, S_STARTCC)) else 0
        return "uy.%d" % merged, a
    # ---- compressor side
    def comp_fail(kindname):
        if rc == 0 or st == "W":
            return
        if T is not None:
            if T in (0, 1, 2, 9):
                a["fail"] = S_ARGS
            else:
                raise Unsupported("stage " + st)
        elif E and E["side"] == "c":
            if E["gs"] == 100:
                if E["code"] == "BUFSZ" and kindname != "ey":
                    a["fail"] = S_MEMDEST
                else:
                    a["fail"] = S_CSTART
                    flags["imprecise"] = True
            elif E["gs"] in (101, 102):
                a["fail"] = S_CSCAN
            elif E["gs"] == 103:
                a["fail"] = S_CFINISH
            else:
                raise Unsupported("stage " + st)
        else:
            raise Unsupported("stage " + st)

    if post["c"] is not None:
        a["ri_obs"] = post["c"][5]

    def bufargs(mode, initial):
        a["bufmode"] = {"n": 0, "s": 1, "b": 1, "r": 2, "A": 1, "a": 1}[mode]
        if mode in ("A", "a"):
            flags["dest_imprecise"] = True
        n = int(res.get("n", "0"))
        if mode == "r":
            flags["dest_imprecise"] = True
        a["grow"] = 1 if (rc == 0 and mode in ("n", "s") and n > initial[mode]) else 0
        if rc != 0 and mode in ("n", "s"):
            flags["dest_imprecise"] = True

    if op == "c":
        bits = int(toks[1])
        bits = 8 if bits <= 8 else 12 if bits <= 12 else 16
        lo = {8: 2, 12: 9, 16: 13}[bits]
        a.update({"w": int(toks[2]), "h": int(toks[3]), "img": 7000 + int(toks[4]), "pf": int(toks[5]),
                  "prec_in_range": 1 if lo <= pq["precision"] <= bits else 0})
        bufargs(toks[6], {"n": 4096, "s": 100})
        comp_fail("c")
        return "c.%d" % bits, a
    if op == "lc":
        flagargs(int(toks[7]))
        a.update({"w": int(toks[1]), "h": int(toks[2]), "img": 7500 + int(toks[3]), "pf": int(toks[4]), "ss": int(toks[5]), "qual": int(toks[6]),
                  "prec_in_range": 1 if 2 <= pq["precision"] <= 8 else 0})
        bufargs("n", {"n": 4096, "s": 100})
        comp_fail("c")
        return "lc", a
    if op == "cy":
        a.update({"w": int(toks[1]), "h": int(toks[2]), "img": 8000 + int(toks[3]), "pf": 0})
        bufargs(toks[4], {"n": 4096, "s": 100})
        comp_fail("cy")
        return "cy", a
    if op == "ey":
        a.update({"w": int(toks[1]), "h": int(toks[2]), "img": 9000 + int(toks[3]), "pf": int(toks[4])})
        comp_fail("ey")
        if T == 8:
            a["fail"] = 0
        return "ey", a
    if op in ("t", "lt"):
        legacy = op == "lt"
        two = (not legacy) and len(toks) > 5
        if legacy:
            flagargs(int(toks[4]))
        i, kind, selfc = dec_facts(toks[1])
        if i in LIB and LIB[i]:
            a.update({"jw": LIB[i][0], "jh": LIB[i][1], "jprec": LIB[i][4]})     # tj3Transform does not update the parameters
        opts = int(toks[3])
        a.update({"nooutput": 1 if opts & 16 else 0, "copynone": 1 if opts & 64 else 0, "x_optimize": 1 if opts & 256 else 0,
                  "x_progressive": 1 if opts & 32 else 0, "x_arithmetic": 1 if opts & 128 else 0, "copynone_all": 1 if opts & 64 else 0})
        if two:
            o2 = int(toks[6])
            a.update({"nooutput2": 1 if o2 & 16 else 0, "copynone2": 1 if o2 & 64 else 0, "x_optimize2": 1 if o2 & 256 else 0,
                      "x_progressive2": 1 if o2 & 32 else 0, "x_arithmetic2": 1 if o2 & 128 else 0,
                      "copynone_all": 1 if (opts & 64 and o2 & 64) else 0})
            flags["dest_imprecise"] = True
        bufargs("n" if legacy else toks[4], {"n": 4096, "s": 100})
        if rc != 0 and st != "W":
            if E and E["side"] == "c":
                if two:
                    raise Unsupported("two transforms, compressor-side failure")
                if E["gs"] == 100:
                    a["fail"] = S_MEMDEST if E["code"] == "BUFSZ" else S_WRCOEF
                    flags["imprecise"] = True
                else:
                    a["fail"] = S_CFINISH
            elif T is not None and T in (12, 13, 14, 15, 25, 6):
                if legacy and (int(toks[4]) & 1024) and T in (14, 15, 25, 6) and (opts & 4):   # getTransformedSpecs in the wrapper
                    a["fail"] = S_LSCALE
                else:
                    a["fail"] = S_XTHROW if T == 13 else S_CROP
            else:
                dec_fail("t")
        if legacy:
            return "lt.%d" % selfc, a
        return "t.%d%d" % (selfc, 1 if two else 0), a
    raise Unsupported(op)


def model_lines(ctx, drv, hists, ref_lines):
    """-> list (per history) of None | dict(line=model output, nprobe, flags)"""
    if not drv:
        return None
    reqs, meta = [], []
    for (h, stream), out in zip(hists, ref_lines):
        meta.append(None)
        if stream == "raw" or not out.startswith("R "):
            continue
        res = parse_result(out)
        if res["crash"] and len(res["ops"]) < len(h.split(";")) - 2:
            continue
        ops = [o.strip().split() for o in h.split(";")]
        inst = ops[0][1]
        calls = ops[1:]
        nres = len(res["ops"])
        try:
            states = [parse_state(res["init"])] + [parse_state(o["S"]) for o in res["ops"]]
            flags = {"imprecise": False, "dest_imprecise": False, "imprecise_from": None}
            mcalls = []
            for i, toks in enumerate(calls[:nres]):
                was = flags["imprecise"]
                k, a = to_model_call(i, toks, res["ops"][i], states[i], states[i + 1], flags)
                if flags["imprecise"] and not was:
                    flags["imprecise_from"] = i
                mcalls.append(k + " " + " ".join("%s=%d" % kv for kv in sorted(a.items())))
            if nres < len(calls):
                # the probe crashed on the implementation: give the model the call with the facts of a clean run
                continue_ok = False
                toks = calls[-1]
                if toks[0] == "d" and res["crash"]:
                    pq = dict(zip(PARAM_NAMES, states[-1]["p"]))
                    i_, kind_ = jref_info(toks[2])
                    if i_ in LIB and LIB[i_]:
                        w_, h_, ss_, ll_, prec_, prog_, nc_ = LIB[i_]
                        crop = 1 if (pq["cx"] or pq["cy"] or pq["cw"] or pq["ch"]) else 0
                        merged = 1 if (pq["fastUpsample"] and ss_ in (S420, S422) and int(toks[3]) not in (6, 11)) else 0
                        mcalls.append("d.8.1%d%d callid=%d img=%d jw=%d jh=%d jprec=8 ncomp=3 pf=%s skip_tail=1 subsamp=%d colorspace=1 o_xDensity=1 o_yDensity=1"
                                      % (crop, merged, len(calls), i_, w_, h_, toks[3], ss_))
                        continue_ok = True
                if not continue_ok:
                    continue
            nprobe = 1
            if calls[-1][0] in ("gi", "tb") and len(calls) >= 2 and calls[-2][0] in ("h", "lh"):
                nprobe = 2
            ic = 1 if inst in "ct" else 0
            idd = 1 if inst in "dt" else 0
            reqs.append("T %d %d %d | " % (ic, idd, nprobe) + " | ".join(mcalls))
            meta[-1] = {"req": len(reqs) - 1, "flags": flags, "nprobe": nprobe, "ncalls": len(mcalls)}
        except Unsupported as e:
            ctx.count("model-skipped:" + str(e).split(":")[0].split()[0], 0)
            ctx.cov.setdefault("model_skipped", 0)
            ctx.cov["model_skipped"] += 1
        except (KeyError, IndexError, ValueError) as e:
            ctx.cov.setdefault("model_skipped", 0)
            ctx.cov["model_skipped"] += 1
    rc, out, err = sh2([drv], input=("\n".join(reqs) + "\n").encode(), timeout=1800)
    lines = out.decode().split("\n")
    if rc != 0 or len(lines) < len(reqs):
        ctx.broken_tie("model-driver", "extracted model failed: rc=%d %s" % (rc, err[-200:]))
        return None
    for m in meta:
        if m is not None:
            m["line"] = lines[m["req"]]
            m["reqline"] = reqs[m["req"]]
    return meta


def check_model(ctx, h, stream, res, m):
    """compare the abstract states of the model with those read from the real structs; compare the verdicts"""
    if m is None or res is None:
        return
    line = m["line"]
    if line.startswith("X "):
        ctx.broken_tie("model-driver", "model rejected a request: %s || %s" % (line[:200], m["reqline"][:300]))
        return
    parts = [p.strip() for p in line.split(" | ")]
    mstates = [parse_state(p[2:]) for p in parts if p.startswith("S=")]
    tail = dict(kv.split("=", 1) for kv in parts[-1].split())
    istates = [parse_state(res["init"])] + [parse_state(o["S"]) for o in res["ops"]]
    flags = m["flags"]
    st = ctx.cov.setdefault("model_state_comparisons", {"calls": 0, "full": 0, "mismatch": 0})
    for i in range(min(len(mstates), len(istates))):
        ms, im = mstates[i], istates[i]
        precise = not (flags["imprecise"] and flags["imprecise_from"] is not None and i > flags["imprecise_from"])
        ok_op = i == 0 or res["ops"][i - 1]["st"] in ("OK", "W") or res["ops"][i - 1]["st"].startswith("T") or \
            res["ops"][i - 1]["st"].startswith("Ed201")
        diffs = []
        for side in ("c", "d"):
            if ms[side] is None or im[side] is None:
                continue
            if ms[side][0] != im[side][0]:
                diffs.append("%s.global_state model=%d impl=%d" % (side, ms[side][0], im[side][0]))
            if not (precise and ok_op):
                continue
            if side == "c":
                names = ["gs", "scan_info", "lossless", "arith", "opt", "ri", "rir", "raw", "ptrmask"] + ([] if flags["dest_imprecise"] else ["newbuffer"])
                idxs = list(range(9)) + ([] if flags["dest_imprecise"] else [9])
            else:
                names = ["gs", "saw_SOI", "saw_SOF", "unread_marker", "lossless", "arith", "progressive", "ptrmask", "progress", "tempICC", "merged"]
                idxs = [0, 1, 2, 4, 5, 6, 7, 8, 9, 10]
                names = [names[j] for j in idxs]
            for nm, j in zip(names, idxs):
                if ms[side][j] != im[side][j]:
                    diffs.append("%s.%s model=%d impl=%d" % (side, nm, ms[side][j], im[side][j]))
            st["full"] += 1
        if ms.get("m") and im.get("m") and len(ms["m"]) == 4 and len(im["m"]) == 4:
            if ((ms["m"][0] + ms["m"][1]) != 0) != (im["m"][0] != 0):
                diffs.append("c.mem accounting: model image share %d+%d, impl drift %d" % (ms["m"][0], ms["m"][1], im["m"][0]))
            if ((ms["m"][2] + ms["m"][3]) != 0) != (im["m"][2] != 0):
                diffs.append("d.mem accounting: model image share %d+%d, impl drift %d" % (ms["m"][2], ms["m"][3], im["m"][2]))
        if ms.get("k") and im.get("k") and ((ms["k"][0] == 1) != (im["k"][0] == 1 and im["k"][1] == 1) or
                                            (len(ms["k"]) > 1 and len(im["k"]) > 2 and (ms["k"][1] == 1) != (im["k"][2] == 1))):
            diffs.append("d.marker reader methods: model original=%d impl %s" % (ms["k"][0], im["k"]))
        if ms.get("s") and im.get("s") and ms["s"] != im["s"] and im["d"] is not None:
            diffs.append("d.sticky marker saving (COM, APP2, APPn): model %s impl %s" % (ms["s"], im["s"]))
        if ms["p"] != im["p"]:
            bad = [(PARAM_NAMES[j], ms["p"][j], im["p"][j]) for j in range(min(len(ms["p"]), len(im["p"]))) if ms["p"][j] != im["p"][j]]
            diffs.append("params " + str(bad[:4]))
        st["calls"] += 1
        if diffs:
            st["mismatch"] += 1
            if st["mismatch"] <= 3:
                ctx.log("model/impl state mismatch after call %d of: %s\n   %s\n   model req: %s" % (i, h, "; ".join(diffs[:6]), m["reqline"][:600]))
            ctx.broken_tie("correspondence:state", "after call %d of [%s]: %s" % (i, h[:300], "; ".join(diffs[:4])))
            break
    # verdicts
    pred = tail.get("pred", "?")
    impl_bad = bool(res["crash"]) or res["verdict"] == "DIFF"
    vs = ctx.cov.setdefault("model_verdicts", {"same/same": 0, "differ/differ": 0, "model-differ/impl-same": 0, "model-same/impl-differ": 0})
    if impl_bad and pred == "same":
        vs["model-same/impl-differ"] += 1
        ctx.log("model predicts independence, implementation differs:", h, "\n   req:", m["reqline"][-700:], "\n   model:", parts[-1])
        ctx.broken_tie("correspondence:verdict", "the implementation's probe depends on the history but the model predicts independence: " + h[:300])
    elif impl_bad:
        vs["differ/differ"] += 1
    elif pred == "same":
        vs["same/same"] += 1
    else:
        vs["model-differ/impl-same"] += 1
    if tail.get("df") == "1":
        ctx.broken_tie("correspondence:dest", "the destination model reports a double free for: " + h[:300])
    if tail.get("okh") == "1" and tail.get("okp") == "1" and pred != "same":
        ctx.broken_tie("model-theorem", "analysis accepts the calls but the model's probe differs (contradicts the proved theorem): " + h[:200])
    ctx.cov["traces_validated_against_impl"] += 1
