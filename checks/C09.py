"""C09 -- decoded and encoded data do not depend on I/O chunking or scheduling.

0. translator   : tools/gen_Suspend.py reads statement-order facts (commit after the last suspendable read,
                  entropy state committed at MCU end, no lossless predictor reset at output-pass start)
                  from the current jdmarker.c / jdhuff.c / jchuff.c / jdmaster.c -> coq/gen/GenSuspend.v

1. proofs       : coq/props/C09.v (model/Suspend*.v, proofs/Suspend*.v): generic chunking theorem for
                  resumable unit parsers, resumability of every modelled marker routine / save_marker /
                  the Huffman MCU unit, destination-independence of the encoder model.
2. correspondence: the extracted marker-level model (ml/C09_driver) parses the real header bytes of
                  streams produced by the real encoder under several partitions and must print the same
                  canonical header line as harness/c09.c `hdr` (jpeg_read_header of the working tree).
3'. encoder through jpeg_mem_dest with NULL and application-supplied initial buffers of every size class; buffered-image
    display loop (pass on input_scan_number started at every point of the input) must show the final image when it ends
    with the input complete.
3. property-level oracle on the implementation (independent of the model): every stream is decoded
   through jpeg_mem_src, jpeg_stdio_src and a SUSPENDING source manager (1-byte chunks, every single
   split position, random partitions), in the standard API and in buffered-image mode under random legal
   schedules; pixels, header fields, saved markers and warnings must equal the whole-buffer decode.
   Encoder: suspending destination manager of many sizes and refusal schedules vs jpeg_mem_dest.
"""
import json
import os
from vlib import core
from vlib.core import sh2

PROC = {0: "baseline", 1: "ext12", 2: "prog8", 3: "prog12", 4: "lossless", 5: "baseline-fill-garbage",
        6: "seq-shared-qslot-dqt-between-scans", 7: "prog-shared-qslot-dqt-between-scans",
        8: "baseline-350-bytes-per-block"}


def early_api(c1, rows, reps):
    """harness schedule family: c1 consume_input calls, reps early passes of <= rows rows (255 = all), then final"""
    return (1 << 28) + (c1 << 12) + (rows << 4) + reps


def gen_params(rng, i, big):
    proc = [0, 2, 6, 7, 1, 3, 4, 5][i % 8] if i < 16 else rng.choice([0, 0, 1, 2, 2, 3, 4, 5, 6, 7])
    nc = rng.choice([1, 3, 3, 3, 4])
    sub = rng.below(5)
    if proc == 4:
        q = rng.choice([2, 5, 8, 8, 10, 12, 12, 16])      # precision
        sub = 0
        rst = rng.choice([0, 0, -1, -2])
        if nc == 4:
            nc = 3
    else:
        q = rng.choice([25, 50, 75, 90, 100])
        rst = rng.choice([0, 0, 1, 2, 3, 7, -1])
    if proc in (6, 7):
        nc = 3
    if big:
        w, h = rng.range(40, 110), rng.range(30, 90)
    else:
        w, h = rng.range(1, 40), rng.range(1, 34)
    jm = rng.choice([0, 0, 0, 2, 1])
    marks = []
    for _ in range(rng.below(4)):
        code = rng.choice([0xFE, 0xFE, 0xE0, 0xE1, 0xE2, 0xEC, 0xEE, 0xEF])
        ln = rng.choice([0, 1, rng.range(2, 40), rng.range(12, 16), rng.range(100, 700)] +
                        ([rng.range(3000, 9000), rng.range(60000, 65533)] if big else []))
        marks.append((code, ln))
    return dict(proc=proc, w=w, h=h, nc=nc, sub=sub, q=q, rst=rst, seed=rng.below(1 << 30), jm=jm, marks=marks)


def gen_line(sid, p):
    return "gen %d %d %d %d %d %d %d %d %d %d %d%s" % (
        sid, p["proc"], p["w"], p["h"], p["nc"], p["sub"], p["q"], p["rst"], p["seed"], p["jm"], len(p["marks"]),
        "".join(" 0x%02X %d" % m for m in p["marks"]))


def expensive_stream(rng):
    """A valid baseline stream whose blocks cost ~350 bytes each: custom Huffman tables give the frequent AC symbol a
    16-bit code, the magnitudes are all-one bits, so nearly every entropy byte is 0xFF + stuffed 0x00 (no restart markers).
    The fast Huffman path needs BUFSIZE = 512 bytes per block in the buffer for such an MCU."""
    nc = rng.choice([1, 1, 3])
    bw, bh = rng.range(1, 3), rng.range(1, 2)          # blocks
    big = rng.choice([0x0A, 0x0A, 0x09])                # (run 0, size 10 / 9) gets the 16-bit code 1111111111111110
    acsyms = [0x00, 0xF0, 0x01, 0x02, 0x03, 0x04, 0x11, 0x12, 0x21, 0x05, 0x06, 0x07, 0x08, 0x09 if big == 0x0A else 0x0A, 0x31, big]
    dcsyms = list(range(12))
    out = bytearray(b"\xff\xd8")
    for t in range(1 if nc == 1 else 2):
        out += b"\xff\xdb\x00\x43" + bytes([t]) + bytes([1] * 64)
    out += b"\xff\xc0" + bytes([0, 8 + 3 * nc, 8, 0, 8 * bh, 0, 8 * bw, nc])
    for ci in range(nc):
        out += bytes([ci + 1, 0x11, 0 if ci == 0 else 1])
    out += b"\xff\xc4" + bytes([0, 19 + 12, 0x00]) + bytes([1] * 12 + [0] * 4) + bytes(dcsyms)      # DC: lengths 1..12
    out += b"\xff\xc4" + bytes([0, 19 + 16, 0x10]) + bytes([1] * 16) + bytes(acsyms)                # AC: lengths 1..16
    out += b"\xff\xda" + bytes([0, 6 + 2 * nc, nc])
    for ci in range(nc):
        out += bytes([ci + 1, 0x00])
    out += bytes([0, 63, 0])
    accode = {sym: ((1 << (i + 1)) - 2, i + 1) for i, sym in enumerate(acsyms)}      # canonical: i ones then a zero
    dccode = {sym: ((1 << (i + 1)) - 2, i + 1) for i, sym in enumerate(dcsyms)}
    bits = []

    def put(v, n):
        for k in range(n - 1, -1, -1):
            bits.append((v >> k) & 1)
    sz = big & 15
    for blk in range(bw * bh * nc):
        c, l = dccode[0]
        put(c, l)                                        # DC difference 0
        style = rng.choice([0, 0, 0, 1, 2])
        if style == 2:                                   # cheap block: EOB at once
            c, l = accode[0x00]
            put(c, l)
            continue
        ncoef = 63 if style == 0 else rng.range(30, 62)
        for k in range(ncoef):
            c, l = accode[big]
            put(c, l)
            put((1 << sz) - 1 if rng.chance(9, 10) else 0, sz)      # +(2^sz - 1): all ones; sometimes -(2^sz - 1): all zeros
        if ncoef < 63:
            c, l = accode[0x00]
            put(c, l)
    while len(bits) % 8:
        bits.append(1)
    for i in range(0, len(bits), 8):
        v = int("".join(map(str, bits[i:i + 8])), 2)
        out.append(v)
        if v == 0xFF:
            out.append(0)
    out += b"\xff\xd9"
    return bytes(out)


def first_sos_end(b):
    """offset just after the first SOS header (marker walk, tolerant of fill/garbage)"""
    pos = 2
    n = len(b)
    while pos + 3 < n:
        if b[pos] != 0xFF:
            pos += 1
            continue
        while pos < n and b[pos] == 0xFF:
            pos += 1
        if pos >= n:
            break
        code = b[pos]
        pos += 1
        if code == 0 or 0xD0 <= code <= 0xD9 or code == 1:
            continue
        ln = (b[pos] << 8) + b[pos + 1]
        if code == 0xDA:
            return pos + ln
        pos += ln
    return n


def dfields(d):
    """'D k=v k=v' -> dict"""
    out = {}
    for t in d.split():
        if "=" in t:
            k, v = t.split("=", 1)
            out[k] = v
    return out


def diff_names(a, b):
    fa, fb = dfields(a), dfields(b)
    return ",".join(k for k in fa if fa.get(k) != fb.get(k)) or "?"


class Runner:
    """pipes command lines through one harness process per batch"""

    def __init__(self, ctx, exe, fl):
        self.ctx, self.exe, self.fl = ctx, exe, fl

    def run(self, lines, timeout=1700):
        rc, out, err = sh2([self.exe], input=("\n".join(lines) + "\n").encode(), timeout=timeout)
        res = out.decode("latin-1").split("\n")
        if res and res[-1] == "":
            res.pop()
        return rc, res, err


def run(ctx):
    rng = ctx.rng
    ctx.regen(["Suspend"])
    ctx.prove()
    drv = ctx.model_driver()
    flavours = ["simd", "plain"] if not ctx.thorough() else ["simd", "plain", "asan"]
    exes = {fl: ctx.cc("c09", ["c09.c"], fl, libs=("jpeg",)) for fl in flavours}
    if ctx.replay:
        return replay(ctx, exes, drv)

    # ------------------------------------------------------------------ streams
    streams = []          # dict(hex=..., params=..., origin=...)
    cdir = os.path.join(core.VERIF, "corpus", "C09")
    if os.path.isdir(cdir):
        for fn in sorted(os.listdir(cdir)):
            for l in open(os.path.join(cdir, fn)):
                l = l.strip()
                if l and not l.startswith("#"):
                    t = l.split()
                    streams.append(dict(hex=t[0], params=None, origin="corpus/" + fn,
                                        sched=[int(x) for x in t[2:]] if len(t) > 2 and t[1] == "sched" else []))
    nsmall = ctx.n(36, 400)
    nbig = ctx.n(6, 60)
    plist = [gen_params(rng, i, False) for i in range(nsmall)] + [gen_params(rng, 100 + i, True) for i in range(nbig)]
    r0 = Runner(ctx, exes[flavours[0]], flavours[0])
    rc, res, err = r0.run([gen_line(0, p) for p in plist])
    for p, line in zip(plist, res):
        t = line.split()
        if len(t) < 4 or t[0] != "gen" or int(t[2]) == 0:
            ctx.log("generator refused", gen_line(0, p), err[-200:])
            continue
        streams.append(dict(hex=t[3], params=p, origin=gen_line(0, p)))
    xrng = core.SplitMix64(ctx.seed * 600011 + 29)
    for i in range(ctx.n(4, 30)):
        streams.append(dict(hex=expensive_stream(xrng).hex(), params=dict(proc=8), origin="python:expensive_stream #%d" % i))
    ctx.log("streams: %d (%d bytes total)" % (len(streams), sum(len(s["hex"]) // 2 for s in streams)))

    import time
    tm = {"oracle": 0.0, "model-hdr": 0.0}
    total_sched = 0
    corr = 0
    disagree = 0
    for fl in flavours:
        r = Runner(ctx, exes[fl], fl)
        srng = core.SplitMix64(ctx.seed * 1000003 + 17)       # same schedules for every flavour
        for si, s in enumerate(streams):
            n = len(s["hex"]) // 2
            proc = s["params"]["proc"] if s["params"] else -1
            kind = PROC.get(proc, "corpus")
            cmds = ["load 0 " + s["hex"]]
            plan = []      # (index of result, what, reference key)
            savecfgs = [srng.choice([0, 1]), srng.choice([1, 2, 3])]
            if fl != flavours[0]:
                savecfgs = savecfgs[:1]
            for sv in dict.fromkeys(savecfgs):
                for api in (0, 1):
                    cmds.append("ref 0 %d %d" % (api, sv)); plan.append(("ref", api, sv))
                    cmds.append("stdio 0 %d %d" % (api, sv)); plan.append(("same", api, sv))
                    for csz in (1, srng.range(2, 9)):
                        cmds.append("one 0 %d %d %d" % (api, sv, csz)); plan.append(("same", api, sv))
                    if api == 0 or srng.chance(1, 3):
                        if n <= 4096:
                            cmds.append("every 0 %d %d 0 %d" % (api, sv, n)); plan.append(("every", api, sv))
                        else:
                            lo = srng.below(max(1, n - 700))
                            cmds.append("every 0 %d %d %d %d" % (api, sv, lo, lo + 600)); plan.append(("every", api, sv))
                            cmds.append("every 0 %d %d %d %d" % (api, sv, max(0, n - 500), n)); plan.append(("every", api, sv))
                    cmds.append("rand 0 %d %d %d %d" % (api, sv, srng.below(1 << 40), ctx.n(40, 150) if n <= 9000 else ctx.n(8, 30)))
                    plan.append(("rand", api, sv))
                # buffered-image schedules (api >= 2 = schedule seed): whole buffer and suspending source
                # reference for every buffered-image schedule: the NON-buffered whole-buffer decode
                for k in s.get("sched", []) + [2 + srng.below(1 << 20) for _ in range(ctx.n(6, 20))]:
                    cmds.append("ref 0 %d %d" % (k, sv)); plan.append(("sched", 0, sv))
                    cmds.append("one 0 %d %d %d" % (k, sv, srng.choice([1, 2, 5, 64, 1000]))); plan.append(("sched", 0, sv))
                    cmds.append("rand 0 %d %d %d %d" % (k, sv, srng.below(1 << 40), 3)); plan.append(("rand", k, sv, 0))
                # early / abandoned / repeated output passes at chosen points of the input (all points for the
                # streams whose Q-table slots are redefined between scans)
                if proc in (6, 7) and sv == savecfgs[0]:
                    pts = [(c1, rows, reps) for c1 in range(0, 44) for rows in (0, 2, 255) for reps in (1, 2)]
                else:
                    pts = [(srng.below(40), srng.choice([0, 1, 3, 255]), srng.choice([1, 1, 2, 3])) for _ in range(ctx.n(6, 20))]
                # the documented display loop: a complete pass on input_scan_number started after c1 consume_input calls,
                # for every c1 (inside every scan, in particular the last one): if it ends with the input complete its
                # pixels must be the final image (the harness turns a difference into ok=2 err=-88)
                if sv == savecfgs[0]:
                    pts = pts + [(c1, 255, 1) for c1 in range(0, 80 if proc in (2, 3, 6, 7, -1) else 14)]
                for (c1, rows, reps) in pts:
                    cmds.append("ref 0 %d %d" % (early_api(c1, rows, reps), sv)); plan.append(("sched", 0, sv))
                for (c1, rows, reps) in pts[::ctx.n(13, 5)]:
                    cmds.append("one 0 %d %d %d" % (early_api(c1, rows, reps), sv, srng.choice([1, 3, 64]))); plan.append(("sched", 0, sv))
            t0 = time.time()
            rc, res, err = r.run(cmds)
            tm["oracle"] += time.time() - t0
            res = res[1:]
            if rc != 0 or len(res) < len(plan):
                idx = min(len(res), len(plan) - 1)
                ctx.violation("decoder crashed/aborted (%s build, rc=%d) at command %s: %s" % (fl, rc, cmds[idx + 1][:60], err[-300:]),
                              {"kind": "dec", "hex": s["hex"], "origin": s["origin"], "cmd": cmds[idx + 1], "flavour": fl},
                              signature="crash:dec:" + kind)
                continue
            refs = {}
            for (what, *a), line, cmd in zip(plan, res, cmds[1:]):
                api, sv = a[0], a[1]
                if what == "ref":
                    refs[(api, sv)] = line
                    if " ok=1 " not in line:
                        ctx.log("reference decode failed", s["origin"][:80], line[:80])
                    continue
                if what in ("same", "sched"):
                    total_sched += 1
                    if line != refs[(api, sv)]:
                        report(ctx, s, fl, kind, cmd, refs[(api, sv)], line, "ref 0 %d %d" % (api, sv))
                elif what == "every":
                    cnt = int(line.split()[1])
                    total_sched += cnt
                    if " ok |" not in line[:24]:
                        k = int(line.split()[3])
                        parts = line.split(" | ")
                        report(ctx, s, fl, kind, "part 0 %d %d 0 1 %d" % (api, sv, k), parts[1], parts[2], "ref 0 %d %d" % (api, sv))
                elif what == "rand":
                    cnt = int(line.split()[1])
                    total_sched += cnt
                    refkey = (a[2], sv) if len(a) > 2 else (api, sv)
                    if " ok |" not in line[:24]:
                        t = line.split(" | ")[0].split()
                        sizes = t[5:]
                        parts = line.split(" | ")
                        report(ctx, s, fl, kind, "part 0 %d %d 0 %d %s" % (api, sv, len(sizes), " ".join(sizes)), parts[1], parts[2],
                               "ref 0 %d %d" % refkey)
                    else:
                        got = line.split(" | ")[1]
                        if got != refs[refkey]:
                            report(ctx, s, fl, kind, "ref 0 %d %d" % (api, sv), refs[refkey], got, "ref 0 %d %d" % refkey)
                ctx.count("dec-%s-%s" % (kind, what), 1, (kind, what, refs.get((api, sv), "")[:400], cmd[:12]))
            # buffered canonical (all input, then one pass) must equal the standard API
            for sv in dict.fromkeys(savecfgs):
                a, b = dfields(refs[(0, sv)]), dfields(refs[(1, sv)])
                if refs[(0, sv)] != refs[(1, sv)]:
                    report(ctx, s, fl, kind, "ref 0 1 %d" % sv, refs[(0, sv)], refs[(1, sv)], "ref 0 0 %d" % sv)
            if si % 9 == 0 and fl == flavours[0]:
                ctx.sample({"stream": s["origin"][:100], "bytes": n, "ref": refs[(0, savecfgs[0])][:200]})

            # ---------------------------------------- model correspondence (first flavour only)
            if fl == flavours[0] and drv:
                b = bytes.fromhex(s["hex"])
                end = first_sos_end(b)
                pre = s["hex"][:2 * end]
                mcmds, hcmds, metas = [], [], []
                for sv in (0, srng.choice([1, 2, 3])) if not ctx.thorough() else (0, 1, 2, 3):
                    parts = ["", " ".join(str(srng.range(0, 60)) for _ in range(end // 20 + 5)),
                             " ".join(str(srng.range(150, 900)) for _ in range(end // 300 + 3))]
                    if end <= 1000:
                        parts.append("1 " * end)
                    for pt in parts:
                        mcmds.append("m %d | %s | %s" % (sv, pre, pt)); metas.append((sv, pt))
                hcmds = ["hdr 0 %d" % sv for sv in (0, 1, 2, 3)]
                rc, hres, err = r.run(["load 0 " + s["hex"]] + hcmds)
                hres = hres[1:]
                t0 = time.time()
                rc2, mres, err2 = sh2([drv], input=("\n".join(mcmds) + "\n").encode(), timeout=600)
                tm["model-hdr"] += time.time() - t0
                mres = mres.decode().split("\n")
                if rc2 != 0 or len(mres) < len(mcmds):
                    ctx.broken_tie("model-driver", "extracted model failed: rc=%d %s" % (rc2, err2[-200:]))
                else:
                    for (sv, pt), ml in zip(metas, mres):
                        corr += 1
                        hl = hres[sv] if sv < len(hres) else "<none>"
                        if hl.startswith("H err") and ml.startswith("H err"):
                            continue
                        if ml != hl:
                            disagree += 1
                            if disagree <= 3:
                                da = [(x[:160], y[:160]) for x, y in zip(ml.split(" | "), hl.split(" | ")) if x != y][:2]
                                ctx.log("model/impl disagree", s["origin"][:80], "sv", sv, "part", pt[:40], da)
                                ctx.broken_tie("correspondence:markers",
                                               "model and jpeg_read_header differ on %s savecfg %d partition [%s]: %s" % (
                                                   s["origin"][:120], sv, pt[:60], da))
                        ctx.count("model-hdr", 1, ("hdr", ml[:300], len(pt) > 0))

    # ------------------------------------------- Huffman scan model vs jpeg_read_coefficients
    if drv:
        crng = core.SplitMix64(ctx.seed * 31337 + 3)
        sp = []
        for i in range(ctx.n(9, 120)):
            proc = crng.choice([0, 0, 0, 1])
            nc = crng.choice([1, 3, 3, 4])
            sp.append(dict(proc=proc, w=crng.range(1, 26), h=crng.range(1, 20), nc=nc, sub=crng.below(5),
                           q=crng.choice([30, 75, 95, 100]), rst=crng.choice([0, 0, 1, 2, 5, -1]),
                           seed=crng.below(1 << 30), jm=0, marks=[]))
        # larger images so that >= 512 bytes per block are buffered: the decode_mcu_fast switch (model command s2)
        nfast = ctx.n(3, 20)
        for i in range(nfast):
            sp.append(dict(proc=0, w=crng.range(48, 96), h=crng.range(40, 72), nc=crng.choice([1, 3]), sub=crng.below(5),
                           q=crng.choice([98, 100]), rst=0, seed=crng.below(1 << 30), jm=0, marks=[], fast=True))
        lines = []
        for p_ in sp:
            lines += [gen_line(0, p_), "coef 0"]
        rc, res, err = r0.run(lines)
        mcmds, metas = [], []
        for i, p_ in enumerate(sp):
            if 2 * i + 1 >= len(res) or not res[2 * i].startswith("gen"):
                continue
            hx = res[2 * i].split()[3]
            n = len(hx) // 2
            if p_.get("fast"):
                for pt in ("", "700 3000 100 2000", " ".join(str(crng.range(300, 2500)) for _ in range(12))):
                    mcmds.append("s2 | %s | %s" % (hx, pt)); metas.append((p_, res[2 * i + 1], "fast-switch " + pt))
                continue
            for pt in ("", "1 " * min(n, ctx.n(350, 1200)), " ".join(str(crng.range(0, 12)) for _ in range(60)) + " 5000"):
                mcmds.append("s | %s | %s" % (hx, pt)); metas.append((p_, res[2 * i + 1], pt))
        t0 = time.time()
        rc2, mres, err2 = sh2([drv], input=("\n".join(mcmds) + "\n").encode(), timeout=900)
        tm["model-scan"] = time.time() - t0
        mres = mres.decode().split("\n")
        if rc2 != 0 or len(mres) < len(mcmds):
            ctx.broken_tie("model-driver", "extracted scan model failed: rc=%d %s" % (rc2, err2[-200:]))
        else:
            for (p_, hl, pt), ml in zip(metas, mres):
                corr += 1
                if ml != hl:
                    disagree += 1
                    if disagree <= 3:
                        ctx.log("scan model/impl disagree", gen_line(0, p_), pt[:30], ml, hl)
                        ctx.broken_tie("correspondence:huffman-scan",
                                       "model decode_mcu units and jpeg_read_coefficients differ on %s partition [%s]: %s vs %s" % (
                                           gen_line(0, p_), pt[:40], ml, hl))
                ctx.count("model-scan", 1, ("scan", ml, len(pt) > 0))

    # ------------------------- AC refinement unit: model vs the real static decode_mcu_AC_refine (jdphuff.c)
    if drv:
        t0 = time.time()
        rexe = ctx.cc("c09_refine", ["c09_refine.c"], "plain", libs=("jpeg",))
        rr = core.SplitMix64(ctx.seed * 7331 + 9)
        rlines, rmeta = [], []
        for t in range(ctx.n(40, 400)):
            lens = [0]
            while len(lens) < 33:                      # random prefix code over the 32 legal refinement symbols, one code unused
                i = rr.below(len(lens))
                if lens[i] >= 15:
                    continue
                l = lens.pop(i)
                lens += [l + 1, l + 1]
            lens = sorted(lens)[:-1]
            vals = rr.shuffle([(r_ << 4) | s_ for r_ in range(16) for s_ in (0, 1)])
            bits = [lens.count(l) for l in range(1, 17)]
            al = rr.choice([0, 1, 2, 3]); ss = rr.choice([1, 1, 2, 6]); se = max(ss, rr.choice([63, 63, 5, 20]))
            nb = rr.range(1, 6); eob = rr.choice([0, 0, 0, 1, 3])
            coefs = []
            for b_ in range(nb):
                dens = rr.choice([0, 10, 50, 90, 100])
                for k in range(64):
                    if rr.below(100) < dens:
                        m = rr.range(1, 40) << (al + 1)
                        coefs.append(m if rr.chance(1, 2) else -m)
                    else:
                        coefs.append(0)
            data = bytearray()
            for _ in range(rr.range(3, 70)):
                x = rr.below(256)
                data.append(x)
                if x == 255:
                    data.append(0)
            data += b"\xff\xd9"
            head = "r %d %d %d %d %d | %s | %s | %s | %s" % (ss, se, al, eob, nb, " ".join(map(str, bits)), " ".join(map(str, vals)),
                                                          " ".join(map(str, coefs)), data.hex())
            for pt in ("", "1 " * len(data), " ".join(str(rr.range(0, 9)) for _ in range(40)), "%d" % rr.range(1, len(data))):
                rlines.append(head + " | " + pt); rmeta.append((t, pt))
        inp = ("\n".join(rlines) + "\n").encode()
        rc1, o1, e1 = sh2([rexe], input=inp, timeout=600)
        rc2, o2, e2 = sh2([drv], input=inp, timeout=600)
        a, b = o1.decode().split("\n"), o2.decode().split("\n")
        if rc1 != 0 or len(a) < len(rlines):
            ctx.violation("decode_mcu_AC_refine unit harness crashed (rc=%d): %s" % (rc1, e1[-200:]),
                          {"kind": "refine", "case": rlines[min(len(a), len(rlines)) - 1]}, signature="crash:refine")
        elif rc2 != 0 or len(b) < len(rlines):
            ctx.broken_tie("model-driver", "extracted refine model failed: rc=%d %s" % (rc2, e2[-200:]))
        else:
            ncorrupt = 0
            for i, (t, pt) in enumerate(rmeta):
                # property-level: the real unit under any partition = the real unit on the whole buffer
                whole = a[i - (i % 4)]
                if a[i] != whole:
                    ctx.violation("decode_mcu_AC_refine: result depends on the chunking of its input (suspension undo): " + a[i][:80],
                                  {"kind": "refine", "case": rlines[i], "whole": whole, "got": a[i]}, signature="refine-chunking")
                total_sched += 1
                if b[i] == "R corrupt":
                    ncorrupt += 1
                    continue
                corr += 1
                if a[i] != b[i]:
                    disagree += 1
                    if disagree <= 3:
                        ctx.log("refine model/impl disagree", rlines[i][:60], a[i][:90], b[i][:90])
                        ctx.broken_tie("correspondence:ac-refine", "model refine_unit and decode_mcu_AC_refine differ: %s || %s || %s" % (
                            rlines[i][:200], a[i][:150], b[i][:150]))
                ctx.count("model-refine", 1, ("refine", a[i][:120], len(pt) > 0))
            ctx.cov["refine_cases_outside_model(corrupt)"] = ncorrupt
        tm["model-refine"] = time.time() - t0

        # ------------- DC first / AC first / DC refine units: model vs the real static functions of jdphuff.c
        t0 = time.time()
        pexe = ctx.cc("c09_prog", ["c09_prog.c"], "plain", libs=("jpeg",))
        pr = core.SplitMix64(ctx.seed * 9973 + 1)

        def ptable(syms):
            lens = [0]
            while len(lens) < len(syms) + 1:
                i = pr.below(len(lens))
                if lens[i] >= 15:
                    continue
                l = lens.pop(i)
                lens += [l + 1, l + 1]
            lens = sorted(lens)[:-1]
            return [lens.count(l) for l in range(1, 17)], pr.shuffle(syms)
        plines = []
        for t in range(ctx.n(45, 450)):
            kind = 1 + t % 3
            al = pr.choice([0, 1, 2]); nm = pr.range(1, 8); bpm = pr.range(1, 4) if kind != 2 else 1
            ss, se = (0, 0) if kind != 2 else (pr.choice([1, 1, 6]), pr.choice([63, 5, 20]))
            se = max(ss, se)
            eob = pr.choice([0, 0, 1, 2]) if kind == 2 else 0
            if kind == 1:
                bits, vals = ptable(list(range(0, 12)))
            elif kind == 2:
                bits, vals = ptable([(r_ << 4) | s_ for r_ in range(16) for s_ in range(0, 8)][:60])
            else:
                bits, vals = ptable(list(range(0, 4)))
            init = [(pr.range(0, 400) - 200) << (al + 1) for _ in range(nm * bpm)] if kind == 3 else []
            data = bytearray()
            for _ in range(pr.range(2, 80)):
                x = pr.below(256)
                data.append(x)
                if x == 255:
                    data.append(0)
            data += b"\xff\xd9"
            head = "q %d %d %d %d %d %d %d | %s | %s | %s | %s" % (kind, ss, se, al, eob, nm, bpm, " ".join(map(str, bits)),
                                                                " ".join(map(str, vals)), " ".join(map(str, init)), data.hex())
            for pt in ("", "1 " * len(data), " ".join(str(pr.range(0, 9)) for _ in range(40)), "%d" % pr.range(1, len(data))):
                plines.append(head + " | " + pt)
        inp = ("\n".join(plines) + "\n").encode()
        rc1, o1, e1 = sh2([pexe], input=inp, timeout=600)
        rc2, o2, e2 = sh2([drv], input=inp, timeout=600)
        a, b = o1.decode().split("\n"), o2.decode().split("\n")
        if rc1 != 0 or len(a) < len(plines):
            ctx.violation("jdphuff.c unit harness crashed (rc=%d): %s" % (rc1, e1[-200:]),
                          {"kind": "prog", "case": plines[min(len(a), len(plines)) - 1]}, signature="crash:prog-unit")
        elif rc2 != 0 or len(b) < len(plines):
            ctx.broken_tie("model-driver", "extracted progressive-unit model failed: rc=%d %s" % (rc2, e2[-200:]))
        else:
            for i, ln in enumerate(plines):
                whole = a[i - (i % 4)]
                kindname = {"1": "DC_first", "2": "AC_first", "3": "DC_refine"}[ln.split()[1]]
                if a[i] != whole:
                    ctx.violation("decode_mcu_%s: result depends on the chunking of its input: %s" % (kindname, a[i][:80]),
                                  {"kind": "prog", "case": ln, "whole": whole, "got": a[i]}, signature="prog-chunking:" + kindname)
                total_sched += 1
                corr += 1
                if a[i] != b[i]:
                    disagree += 1
                    if disagree <= 3:
                        ctx.log("prog unit model/impl disagree", ln[:50], a[i][:90], b[i][:90])
                        ctx.broken_tie("correspondence:" + kindname, "model unit and decode_mcu_%s differ: %s || %s || %s" % (
                            kindname, ln[:200], a[i][:150], b[i][:150]))
                ctx.count("model-" + kindname, 1, (kindname, a[i][:120], i % 4))
        tm["model-prog"] = time.time() - t0

    # ---------------------------------------------------------------- encoder
    erng = core.SplitMix64(ctx.seed * 77 + 5)
    ecmds = []
    for i in range(ctx.n(260, 2500)):
        nc = erng.choice([1, 3, 3])
        w, h = erng.range(1, 70), erng.range(1, 50)
        q = erng.choice([10, 50, 75, 95, 100])
        rst = erng.choice([0, 0, 1, 2, 5, -1])
        bs = erng.range(1, 64) if i % 4 else erng.choice([4096, 1 << 20, 512, 513, 700])
        ecmds.append("enc %d %d %d %d %d %d %d %d %d" % (w, h, nc, erng.below(5), q, rst, erng.below(1 << 30), bs, erng.below(1 << 40)))
    t0 = time.time()
    for fl in flavours:
        rc, res, err = Runner(ctx, exes[fl], fl).run(ecmds)
        tm["enc"] = time.time() - t0
        if rc != 0 or len(res) < len(ecmds):
            idx = min(len(res), len(ecmds) - 1)
            ctx.violation("encoder crashed/aborted (%s build, rc=%d): %s" % (fl, rc, err[-300:]),
                          {"kind": "enc", "cmd": ecmds[idx], "flavour": fl}, signature="crash:enc")
            continue
        for cmd, line in zip(ecmds, res):
            total_sched += 1
            bs = int(cmd.split()[8])
            if not line.startswith("C ok"):
                ctx.violation("compressed bytes depend on the destination manager (buffer %d bytes, %s build): %s" % (bs, fl, line[:120]),
                              {"kind": "enc", "cmd": cmd, "flavour": fl, "result": line}, signature="enc-mismatch:" + line.split()[1])
            ctx.count("enc", 1, ("enc", line.split("refusals")[0][:80], bs < 65))
    # ------------------------------------------------ jpeg_mem_dest with application-supplied buffers
    mrng = core.SplitMix64(ctx.seed * 4099 + 11)
    mcmds = []
    for i in range(ctx.n(10, 120)):
        proc = [0, 0, 4, 2, 1, 0, 4, 3][i % 8]
        nc = mrng.choice([1, 3, 3])
        q = mrng.choice([2, 8, 8, 12, 16]) if proc == 4 else mrng.choice([50, 75, 90, 100])
        rst = (mrng.choice([0, -1]) if proc == 4 else mrng.choice([0, 1, 3, 7, -1])) if i % 2 else 0
        if proc == 4 and nc == 3 and q < 3:
            q = 8
        mcmds.append("memdst %d %d %d %d %d %d %d %d %d 0" % (proc, mrng.range(24, 72), mrng.range(20, 56), nc,
                                                            0 if proc == 4 else mrng.below(5), q, rst, mrng.below(1 << 30), mrng.below(1 << 40)))
    t0 = time.time()
    for fl in flavours:
        rc, res, err = Runner(ctx, exes[fl], fl).run(mcmds)
        if rc != 0 or len(res) < len(mcmds):
            idx = min(len(res), len(mcmds) - 1)
            ctx.violation("jpeg_mem_dest encoder crashed/aborted (%s build, rc=%d): %s" % (fl, rc, err[-300:]),
                          {"kind": "memdst", "cmd": mcmds[idx], "flavour": fl}, signature="crash:memdst")
            continue
        for cmd, line in zip(mcmds, res):
            t = line.split()
            if len(t) >= 3 and t[2] == "ok":
                total_sched += int(t[1])
            elif line.startswith("M err"):
                ctx.log("memdst generator refused", cmd)
            else:
                size = line.split("size=")[1].split()[0] if "size=" in line else "0"
                one = " ".join(cmd.split()[:-1]) + " " + size
                ctx.violation("jpeg_mem_dest output depends on the application-supplied initial buffer size (%s build): %s" % (fl, line[:120]),
                              {"kind": "memdst", "cmd": one, "flavour": fl, "result": line},
                              signature="memdst-mismatch:proc%s" % cmd.split()[1])
            ctx.count("memdst", 1, ("memdst", line[:60]))
    tm["memdst"] = time.time() - t0

    # --------- every destination buffer size (never refusing) for every entropy encoder with restart markers
    t0 = time.time()
    drng = core.SplitMix64(ctx.seed * 8191 + 3)
    dcmds = []
    for i in range(ctx.n(12, 100)):
        mode = [4, 4, 2, 10, 12, 0, 4, 3, 1, 4, 2, 12][i % 12]
        nc = drng.choice([1, 3])
        q = drng.choice([2, 8, 8, 12, 16]) if mode == 4 else drng.choice([50, 75, 95])
        if mode == 4 and nc == 3 and q < 3:
            q = 8
        rst = drng.choice([-1, -1, -2]) if mode == 4 else drng.choice([1, 1, 2, 3, -1])
        dcmds.append("dst %d %d %d %d %d %d %d %d %d 0" % (mode, drng.range(16, 48), drng.range(12, 40), nc,
                                                         0 if mode == 4 else drng.below(5), q, rst, drng.below(1 << 30), ctx.n(260, 700)))
    for fl in flavours:
        rc, res, err = Runner(ctx, exes[fl], fl).run(dcmds)
        if rc != 0 or len(res) < len(dcmds):
            idx = min(len(res), len(dcmds) - 1)
            ctx.violation("encoder with a small destination buffer crashed/aborted (%s build, rc=%d): %s" % (fl, rc, err[-300:]),
                          {"kind": "dst", "cmd": dcmds[idx], "flavour": fl}, signature="crash:dst:mode%s" % dcmds[idx].split()[1])
            continue
        for cmd, line in zip(dcmds, res):
            t = line.split()
            if len(t) >= 3 and t[2] == "ok":
                total_sched += int(t[1])
            elif line.startswith("T err"):
                ctx.log("dst generator refused", cmd)
            else:
                size = line.split("size=")[1].split()[0] if "size=" in line else "0"
                one = " ".join(cmd.split()[:-1]) + " " + size
                ctx.violation("compressed bytes depend on the destination buffer size (mode %s, %s build): %s" % (cmd.split()[1], fl, line[:130]),
                              {"kind": "dst", "cmd": one, "flavour": fl, "result": line},
                              signature="dst-size-mismatch:mode%s" % cmd.split()[1])
            ctx.count("dst", 1, ("dst", cmd.split()[1], line[:50]))
    tm["dst"] = time.time() - t0
    # --------- suspending destination, EVERY buffer size, images whose iMCU rows have several MCU rows (gray v_samp 2 / 4) and
    #           4:2:2 / 4:2:0 / 4:4:0: resume state (iMCU row, MCU_vert_offset, mcu_ctr) of jccoefct.c
    t0 = time.time()
    srng2 = core.SplitMix64(ctx.seed * 2749 + 41)
    scmds = []
    for i in range(ctx.n(14, 120)):
        nc, sub = [(1, 1), (1, 2), (3, 1), (1, 3), (3, 2), (1, 4), (3, 3)][i % 7]
        scmds.append("encs %d %d %d %d %d %d %d %d %d %d" % (srng2.range(17, 64), srng2.range(17, 70), nc, sub, srng2.choice([50, 75, 95, 100]),
                                                          srng2.choice([0, 0, 1, 3, -1]), srng2.below(1 << 30), ctx.n(200, 600), 2, srng2.below(1 << 40)))
    for fl in flavours:
        rc, res, err = Runner(ctx, exes[fl], fl).run(scmds)
        if rc != 0 or len(res) < len(scmds):
            idx = min(len(res), len(scmds) - 1)
            ctx.violation("encoder with a suspending destination crashed/aborted (%s build, rc=%d): %s" % (fl, rc, err[-300:]),
                          {"kind": "enc", "cmd": scmds[idx], "flavour": fl}, signature="crash:encs")
            continue
        for cmd, line in zip(scmds, res):
            t = line.split()
            if len(t) >= 3 and t[2] == "ok":
                total_sched += int(t[1])
            else:
                size = line.split("size=")[1].split()[0] if "size=" in line else "1"
                sd_ = line.split("seed=")[1].split()[0] if "seed=" in line else "0"
                c = cmd.split()
                one = "enc %s %s %s" % (" ".join(c[1:8]), size, sd_)
                ctx.violation("compressed bytes depend on where the destination suspends (nc=%s sampling %s, buffer %s bytes, %s build): %s" % (
                                  c[3], c[4], size, fl, line[:100]),
                              {"kind": "enc", "cmd": one, "flavour": fl, "result": line}, signature="enc-suspend-mismatch:nc%s-sub%s" % (c[3], c[4]))
            ctx.count("encs", 1, ("encs", cmd.split()[3], cmd.split()[4], line[:30]))
    tm["encs"] = time.time() - t0
    if drv:
        ctx.cov["traces_validated_against_impl"] = corr
    ctx.cov["model_impl_disagreements"] = disagree
    ctx.cov["schedules"] = total_sched
    ctx.cov["seconds"] = {k: round(v, 1) for k, v in tm.items()}
    ctx.log("seconds:", ctx.cov["seconds"])
    ctx.cov["rule"] = ("streams of every Huffman process (baseline, 12-bit extended, progressive 8/12-bit, lossless 2..16 bit, "
                       "baseline with fill bytes/garbage between markers) x restart intervals x COM/APPn markers (0..65533 bytes) x "
                       "jpeg_save_markers configurations; schedules: stdio, 1-byte chunks, every split position (all for streams <= 4 kB), "
                       "random partitions incl. empty chunks, buffered-image interleavings; encoder buffer sizes 1..64, 512/513/700/4096/1 MiB "
                       "with random refusals; a case is distinct when (process, command class, reference digest) is distinct")
    ctx.assume += ["correspondence and schedule sampling support the model/code tie and the search for a failing input; they are not the proof",
                   "suspending destination managers may refuse only when next_output_byte has moved since the buffer was installed and "
                   "never inside the header-writing call (documented protocol, libjpeg.txt 'I/O suspension')",
                   "corrupt streams are out of scope (warnings may be counted twice when a unit is re-parsed)"]
    ctx.log("schedules explored: %d, model correspondence lines: %d" % (total_sched, corr))


def report(ctx, s, fl, kind, cmd, ref, got, refcmd):
    names = diff_names(ref, got)
    mode = "std" if cmd.split()[2] == "0" else "bufimage"
    if " err=22 " in got and " ok=1 " in ref and mode == "bufimage":
        ctx.violation("buffered-image mode: an output pass started before all scans of a lossless multi-scan file have begun "
                      "fails with JERR_BAD_VIRTUAL_ACCESS (%s, %s build): %s" % (kind, fl, cmd[:70]),
                      {"kind": "dec", "hex": s["hex"], "origin": s["origin"], "cmd": cmd, "refcmd": refcmd, "flavour": fl,
                       "reference": ref, "got": got}, signature="bufimage-early-pass:BAD_VIRTUAL_ACCESS:lossless-multiscan")
        return
    if " ok=2 err=-88 " in got:
        ctx.violation("buffered-image display loop: a complete pass on input_scan_number started inside the last scan ended with the "
                      "input complete but its pixels differ from the final image (%s, %s build): %s" % (kind, fl, cmd[:70]),
                      {"kind": "dec", "hex": s["hex"], "origin": s["origin"], "cmd": cmd, "refcmd": refcmd, "flavour": fl,
                       "reference": ref, "got": got}, signature="display-pass-incomplete:%s" % kind)
        return
    ctx.violation("decode differs from the whole-buffer decode in [%s] (%s, %s API, %s build): %s" % (names, kind, mode, fl, cmd[:70]),
                  {"kind": "dec", "hex": s["hex"], "origin": s["origin"], "cmd": cmd, "refcmd": refcmd, "flavour": fl,
                   "reference": ref, "got": got},
                  signature="dec-mismatch:%s:%s:%s" % (kind, mode, names))


def replay(ctx, exes, drv):
    r = json.load(open(ctx.replay))
    fl = r.get("flavour", "simd")
    exe = exes.get(fl) or list(exes.values())[0]
    if r.get("kind") == "enc":
        rc, res, err = Runner(ctx, exe, fl).run([r["cmd"]])
        line = res[0] if res else "<crash rc=%d>" % rc
        ctx.count("replay-enc", 1, line)
        if not line.startswith("C ok"):
            ctx.violation("compressed bytes depend on the destination manager: " + line[:120], r, signature=r.get("signature"))
        return
    if r.get("kind") == "refine":
        rexe = ctx.cc("c09_refine", ["c09_refine.c"], "plain", libs=("jpeg",))
        whole = " | ".join(r["case"].split(" | ")[:5]) + " | "
        rc, out, err = sh2([rexe], input=(whole + "\n" + r["case"] + "\n").encode(), timeout=60)
        ls = out.decode().split("\n")
        ctx.count("replay-refine", 1, tuple(ls[:2]))
        if rc != 0 or len(ls) < 2 or ls[0] != ls[1]:
            ctx.violation("decode_mcu_AC_refine: result depends on the chunking of its input", r, signature=r.get("signature"))
        ctx.log("replay:", ls[0][:100], "||", ls[1][:100])
        return
    if r.get("kind") == "prog":
        pexe = ctx.cc("c09_prog", ["c09_prog.c"], "plain", libs=("jpeg",))
        whole = " | ".join(r["case"].split(" | ")[:5]) + " | "
        rc, out, err = sh2([pexe], input=(whole + "\n" + r["case"] + "\n").encode(), timeout=60)
        ls = out.decode().split("\n")
        ctx.count("replay-prog", 1, tuple(ls[:2]))
        if rc != 0 or len(ls) < 2 or ls[0] != ls[1]:
            ctx.violation("jdphuff.c MCU decoder: result depends on the chunking of its input", r, signature=r.get("signature"))
        return
    if r.get("kind") == "dst":
        rc, res, err = Runner(ctx, exe, fl).run([r["cmd"]])
        line = res[0] if res else "<crash rc=%d>" % rc
        ctx.count("replay-dst", 1, line)
        if " ok " not in line:
            ctx.violation("compressed bytes depend on the destination buffer size: " + line[:120], r, signature=r.get("signature"))
        ctx.log("replay:", line)
        return
    if r.get("kind") == "memdst":
        rc, res, err = Runner(ctx, exe, fl).run([r["cmd"]])
        line = res[0] if res else "<crash rc=%d>" % rc
        ctx.count("replay-memdst", 1, line)
        if " ok " not in line:
            ctx.violation("jpeg_mem_dest output depends on the application-supplied initial buffer size: " + line[:120], r,
                          signature=r.get("signature"))
        ctx.log("replay:", line)
        return
    if r.get("kind") == "dec":
        cmds = ["load 0 " + r["hex"], r.get("refcmd", "ref 0 0 0"), r["cmd"]]
        rc, res, err = Runner(ctx, exe, fl).run(cmds)
        ctx.count("replay-dec", 1, tuple(res[1:]))
        if rc != 0 or len(res) < 3:
            ctx.violation("decoder crashed (rc=%d) %s" % (rc, err[-200:]), r, signature=r.get("signature"))
        elif res[1] != res[2]:
            ctx.violation("decode differs from the whole-buffer decode in [%s]" % diff_names(res[1], res[2]), r, signature=r.get("signature"))
        ctx.log("replay:", res[1][:150], "||", res[2][:150])
