"""C11 -- only the documented extent of caller buffers is read or written.

1. translators : gen_Align (ALIGN_SIZE, alloc_sarray rounding, PAD, row-pointer and YUV
                 copy statements, TJ tables), gen_Tail (load/store cascades of the SIMD
                 colour converters parsed from the .asm files)
2. proofs      : coq/props/C11.v
3. run-time tie: harness/c11.c runs the REAL entry points (and the SIMD kernels directly)
                 on buffers flush against PROT_NONE pages on either side, canaries in the
                 slack, two pre-fill values -> exact set of modified bytes per buffer;
                 the extracted model (ml/C11_driver.ml) prints the same line.
4. property-level oracle on every implementation line: no fault, canaries intact, result
   independent of padding / pre-fill, every modified byte inside a documented row
   (geometry recomputed here, independently of the model and of the harness).
"""
import json
import os
import subprocess
from vlib import core
from vlib.core import sh2

PIXSZ = [3, 3, 4, 4, 4, 4, 1, 4, 4, 4, 4, 4]
MCUW = [8, 16, 16, 8, 8, 32, 8]
MCUH = [8, 8, 16, 8, 16, 8, 32]
SF = [(2, 1), (15, 8), (7, 4), (13, 8), (3, 2), (11, 8), (5, 4), (9, 8), (1, 1), (7, 8), (3, 4), (5, 8), (1, 2), (3, 8), (1, 4), (1, 8)]
HEIGHTS = [1, 2, 3, 8, 17]
PADS = [0, 1, 7, 32, -1]
LEVELS = [("default", {}), ("sse2", {"JSIMD_FORCESSE2": "1"}), ("none", {"JSIMD_FORCENONE": "1"})]
GRAY, CMYK = 6, 11
TJSAMP_GRAY = 3


def scaled(d, sf):
    return (d * sf[0] + sf[1] - 1) // sf[1]


def padto(v, p):
    return (v + p - 1) & ~(p - 1)


def kvs(line):
    return dict(t.split("=", 1) for t in line.split()[1:] if "=" in t)


# ------------------------------------------------------------------ generators
def gen_pk(rng, api, w, pf, side, bits=8, ll=0, simple=False):
    h = rng.choice(HEIGHTS)
    pad = rng.choice(PADS)
    bu = rng.below(2)
    if ll:
        ss = TJSAMP_GRAY if pf == GRAY else 0
    else:
        ss = rng.below(7)
        if pf == CMYK and ss == TJSAMP_GRAY:
            ss = 2
        if api == "cmp" and pf == GRAY:
            ss = TJSAMP_GRAY       # a grayscale source cannot be compressed to a colour JPEG
    f = dict(api=api, bits=bits, w=w, h=h, ss=ss, pf=pf, pad=pad, bu=bu, num=1, den=1, cx=0, cy=0, cw=0, ch=0,
             side=side, ll=ll, fast=rng.below(2))
    if api == "dec" and not ll and not simple:
        if rng.chance(3, 10):
            sf = rng.choice(SF)
            f["num"], f["den"] = sf
        if rng.chance(1, 4):
            sf = (f["num"], f["den"])
            sw, sh = scaled(w, sf), scaled(h, sf)
            step = scaled(MCUW[ss], sf)
            xs = [x for x in range(0, sw, step)]
            cx = rng.choice(xs)
            if rng.chance(1, 12):
                cx += 1 + rng.below(max(1, step - 1))      # usually not a multiple: rejected
            cy = rng.below(sh)
            cw = 0 if rng.chance(1, 3) else rng.range(1, max(1, sw - cx))
            if rng.chance(1, 15):
                cw = sw + 1                                  # exceeds the image: rejected
            ch = 0 if rng.chance(1, 3) else rng.range(1, sh - cy)
            f.update(cx=cx, cy=cy, cw=cw, ch=ch)
    return "pk " + " ".join("%s=%s" % kv for kv in f.items())


def gen_yuv(rng, api, w, side):
    h = rng.choice(HEIGHTS + [16, 32])
    ss = rng.below(7)
    pf = rng.choice([0, 1, 2, 3, 4, 5, 6, 7, 8, 9, 10])
    if api.startswith("enc") and pf == GRAY:
        ss = TJSAMP_GRAY           # a grayscale source cannot be encoded to colour planes
    f = dict(api=api, w=w, h=h, ss=ss, pf=pf, pad=rng.choice(PADS), bu=rng.below(2), num=1, den=1,
             s0=rng.choice([0, 1, 7, 32, -1]), s1=rng.choice([0, 1, 7, 32, -1]), s2=rng.choice([0, 1, 7, 32, -1]),
             align=rng.choice([1, 2, 4, 32]), side=side, fast=rng.below(2))
    if api.startswith("d2") and rng.chance(3, 10):
        f["num"], f["den"] = rng.choice(SF)
    return "yuv " + " ".join("%s=%s" % kv for kv in f.items())


def gen_tallcrop(rng, ss, fast, resid, side):
    """cropping region whose bottom edge y+h has a chosen residue modulo the (scaled) iMCU height, in an
    image that is not a whole number of iMCU rows high and (mostly) continues below the region"""
    bits = rng.choice([8, 8, 8, 12])
    sf = rng.choice(SF) if rng.chance(1, 4) else (1, 1)
    imcu = max(1, MCUH[ss] * sf[0] // sf[1])          # scaled iMCU height
    while True:
        h = rng.range(2 * MCUH[ss] + 1, 4 * MCUH[ss] + 7)
        if h % MCUH[ss]:
            break
    sh = scaled(h, sf)
    w = rng.range(1, 40)
    sw = scaled(w, sf)
    # bottom edge: residue resid modulo imcu, >= 1
    cands = [b for b in range(1, sh + 1) if b % imcu == resid % imcu]
    inner = [b for b in cands if b < sh]
    bottom = rng.choice(inner) if inner and not rng.chance(1, 8) else rng.choice(cands or [sh])
    ch = rng.range(1, bottom)
    cy = bottom - ch
    pf = rng.choice([0, 1, 2, 3, 4, 5, 6, 7, 8, 9, 10])
    f = dict(api="dec", bits=bits, w=w, h=h, ss=ss, pf=pf, pad=rng.choice(PADS), bu=rng.below(2), num=sf[0], den=sf[1],
             cx=0, cy=cy, cw=(0 if rng.chance(1, 2) else sw), ch=ch, side=side, ll=0, fast=fast)
    return "pk " + " ".join("%s=%s" % kv for kv in f.items())


def gen_rs(rng, ss, fast, maxl, side):
    sf = rng.choice(SF) if rng.chance(1, 4) else (1, 1)
    f = dict(w=rng.range(1, 48), h=rng.choice([17, 31, 33, 35, 50, 70]), ss=ss, pf=rng.choice([0, 2, 6, 7, 9]),
             fast=fast, max=maxl, num=sf[0], den=sf[1], side=side)
    return "rs " + " ".join("%s=%s" % kv for kv in f.items())


def stored_region(k):
    """what tj3SetCroppingRegion stores for a hist case (validated against image A at scale n1/d1)"""
    g = lambda n, d=0: int(k.get(n, d))
    x, y, w, h = g("cx"), g("cy"), g("cw"), g("ch")
    if not (x or y or w or h):
        return (0, 0, 0, 0)
    sf = (g("n1", 1), g("d1", 1))
    sw, sh = scaled(g("wA"), sf), scaled(g("hA"), sf)
    if x % scaled(MCUW[g("ssA")], sf):
        return (0, 0, 0, 0)
    w = w or sw - x
    h = h or sh - y
    if w <= 0 or h <= 0 or x + w > sw or y + h > sh:
        return (0, 0, 0, 0)
    return (x, y, w, h)


def hist_final(k):
    g = lambda n, d=0: int(k.get(n, d))
    if g("same"):
        return g("wA"), g("hA"), g("ssA")
    return g("w"), g("h"), g("ss")


def hist_valid(k):
    """is the stored region valid for the image and scaling factor actually decompressed?"""
    g = lambda n, d=0: int(k.get(n, d))
    x, y, w, h = stored_region(k)
    if not (x or y or w or h):
        return True
    fw, fh, fss = hist_final(k)
    sf = (g("num", 1), g("den", 1))
    sw, sh = scaled(fw, sf), scaled(fh, sf)
    return x % scaled(MCUW[fss], sf) == 0 and x + w <= sw and y + h <= sh


def gen_hist(rng, side, bottom_budget):
    """header(A), scale 1, region, scale 2, [header(F)], decompress(F) on one handle"""
    for _ in range(50):
        bits = rng.choice([8, 8, 8, 12])
        ssA = rng.choice([0, 0, 1, 2, 3, 4, 5, 6])
        wA, hA = rng.range(17, 96), rng.range(9, 72)
        sf1 = rng.choice(SF) if rng.chance(1, 2) else (1, 1)
        same = 1 if rng.chance(2, 5) else 0
        if same:
            w, h, ss = wA, hA, ssA
            sf2 = rng.choice(SF)
        else:
            ss = rng.choice([0, 1, 2, 3, 4, 5, 6])
            w = wA if rng.chance(1, 2) else rng.range(1, 96)
            h = hA if rng.chance(1, 2) else rng.range(1, 72)
            sf2 = sf1 if rng.chance(1, 2) else rng.choice(SF)
        swA, shA = scaled(wA, sf1), scaled(hA, sf1)
        step = scaled(MCUW[ssA], sf1)
        cx = rng.choice(list(range(0, swA, step)))
        cy = rng.below(shA)
        cw = 0 if rng.chance(1, 3) else rng.range(1, swA - cx)
        ch = 0 if rng.chance(1, 3) else rng.range(1, shA - cy)
        f = dict(bits=bits, wA=wA, hA=hA, ssA=ssA, n1=sf1[0], d1=sf1[1], cx=cx, cy=cy, cw=cw, ch=ch, num=sf2[0], den=sf2[1],
                 same=same, w=w, h=h, ss=ss, pf=rng.choice([0, 1, 2, 3, 6, 7, 9]), pad=rng.choice(PADS), bu=rng.below(2), side=side,
                 fast=rng.below(2))
        k = {a: str(b) for a, b in f.items()}
        x_, y_, w_, h_ = stored_region(k)
        fw, fh, _ = hist_final(k)
        sh = scaled(fh, sf2)
        if (y_ or h_) and y_ <= sh < y_ + h_:          # bottom edge below the final image
            if bottom_budget[0] <= 0:
                continue
            bottom_budget[0] -= 1
        return "hist " + " ".join("%s=%s" % kv for kv in f.items())
    return None


BIG = [(8, 2056, 1 << 20), (5, 1100, (1 << 21) + 24), (3, 700, (1 << 22) - 4)]     # width, rows, pitch (bytes)


def gen_big(rng):
    out = []
    for api in ("cmp", "dec", "encp", "decp"):
        for bu in (0, 1):
            w, h, pitch = rng.choice(BIG) if rng.chance(1, 2) else BIG[0]
            pf = rng.choice([0, 2, 7])
            f = dict(api=api, w=w, h=h, ss=rng.choice([0, 2, 1]), pf=pf, pad=pitch - w * PIXSZ[pf], bu=bu,
                     s0=rng.choice([pitch, 20000]), s1=rng.choice([2 * pitch, 20000]), s2=rng.choice([pitch, 30000]))
            if api.endswith("p") and rng.chance(1, 2):
                f["s0"] = pitch
            out.append("big " + " ".join("%s=%s" % kv for kv in f.items()))
    return out


def gen_cases(ctx):
    rng = ctx.rng
    cases = []
    reps = ctx.n(5, 40)
    widths = list(range(1, 131))
    for rep in range(reps):
        for w in widths:
            for side in (0, 1):
                for pf in range(12):
                    cases.append(gen_pk(rng, "dec", w, pf, side, simple=(rep == 0 and pf in (0, 2) and side == 1)))
                    cases.append(gen_pk(rng, "cmp", w, pf, side))
                # 12-bit, 16-bit lossless, 8-/12-bit lossless
                for api in ("dec", "cmp"):
                    cases.append(gen_pk(rng, api, w, rng.below(12), side, bits=12))
                    cases.append(gen_pk(rng, api, w, rng.below(12), side, bits=16, ll=1))
                    cases.append(gen_pk(rng, api, w, rng.below(12), side, bits=rng.choice([8, 12]), ll=1))
                for api in ("d2p", "d2u", "encp", "encu", "decp", "decu", "cfp", "cfu"):
                    cases.append(gen_yuv(rng, api, w, side))
    # rows: cropping regions ending at every residue of the iMCU height (v = 2: 4:2:0, 4:4:0; v = 4: 4:4:1),
    # fancy and plain upsampling; jpeg_read_scanlines with max_lines 1..5 (and a few larger) over whole images
    for rep in range(ctx.n(2, 12)):
        for ss in (2, 4, 6, 1, 0):
            for fast in (0, 1):
                for resid in range(MCUH[ss]):
                    cases.append(gen_tallcrop(rng, ss, fast, resid, rng.below(2)))
        for ss in range(7):
            for fast in (0, 1):
                for maxl in (1, 2, 3, 4, 5, rng.range(6, 20)):
                    for side in (0, 1):
                        cases.append(gen_rs(rng, ss, fast, maxl, side))
    # parameter histories on one handle; huge pitches on sparse mappings
    try:
        bottom_checked = "dec_chk_bottom : bool := true" in open(os.path.join(core.COQ, "gen", "GenAlign.v")).read()
    except OSError:
        bottom_checked = False
    budget = [10 ** 9 if bottom_checked else 3]      # a missing bottom check makes such a case cost a time-out
    for rep in range(ctx.n(300, 3000)):
        c = gen_hist(rng, rep % 2, budget)
        if c:
            cases.append(c)
    for rep in range(ctx.n(1, 4)):
        cases += gen_big(rng)
    # every post-processing configuration through the libjpeg API: quantization (none / 1-pass / 2-pass) x dither
    # x scale x subsampling x max_lines, row-pointer array and every row ending at a guard page; RGB565 x merged
    # upsampling x jpeg_crop_scanline x jpeg_skip_scanlines with spare-row deliveries (odd max_lines)
    for rep in range(ctx.n(1, 8)):
        for quant in (0, 1, 2):
            for dither in (0, 1, 2):
                for ss in (0, 1, 2, 4, 5, 6):
                    for mx in (1, 2, 3, 8, rng.range(4, 7)):
                        sf = rng.choice(SF) if rng.chance(1, 2) else (1, 1)
                        cases.append("pp w=%d h=%d ss=%d src=ycc quant=%d dither=%d cs=%d max=%d num=%d den=%d fast=%d ncol=%d" % (
                            rng.range(1, 40), rng.choice([5, 7, 9, 15, 17, 19, 33, 35]), ss, quant, dither, rng.choice([0, 0, 3] if quant else [0, 0, 2, 3]), mx,
                            sf[0], sf[1], rng.below(2), rng.choice([8, 64, 256])))
        # 2-pass quantization: every residue of the output height modulo the strip height (max_v_samp_factor) x max_lines,
        # unscaled and scaled (output_height < image_height)
        for ss in (6, 2, 4, 0):
            for hh in range(5, 13):
                for mx in (1, 2, 3, 5):
                    for sf in ((1, 1), (1, 2), (5, 8)):
                        h = hh if sf == (1, 1) else next(x for x in range(hh * sf[1] // sf[0] - 2, 400) if scaled(x, sf) == hh)
                        cases.append("pp w=%d h=%d ss=%d src=ycc quant=2 dither=%d cs=0 max=%d num=%d den=%d fast=%d ncol=%d" % (
                            rng.range(1, 24), h, ss, rng.below(3), mx, sf[0], sf[1], rng.below(2), rng.choice([16, 256])))
        # replicating upsamplers (int_upsample with h_expand / v_expand 1..4, h2v1/h2v2 plain, h1v2 fancy): luma sampling factors
        # hs x vs set through the libjpeg compression API (4x2 = 4:1:0, 3x1, 1x3, 2x4, ...), fancy and plain, widths 1..5 and larger
        for hs, vs in ((4, 2), (3, 1), (1, 3), (2, 4), (3, 2), (4, 1), (1, 4), (2, 3), (1, 2), (2, 1), (2, 2)):
            for fast in (0, 1):
                for w in (1, 2, 3, 4, 5, rng.range(6, 70)):
                    sf = rng.choice(SF) if rng.chance(1, 3) else (1, 1)
                    cases.append("pp w=%d h=%d ss=0 src=ycc quant=%d dither=0 cs=%d max=%d num=%d den=%d fast=%d hs=%d vs=%d" % (
                        w, rng.choice([5, 9, 11, 17]), 2 if rng.chance(1, 6) else 0, rng.choice([0, 0, 3]) , rng.choice([1, 2, 3, 5]), sf[0], sf[1], fast, hs, vs))
        # merged 4:2:0 upsampling (do_fancy_upsampling = 0) x jpeg_crop_scanline x jpeg_skip_scanlines x max_lines: spare-row
        # deliveries (max_lines 1, or an odd number of rows skipped) into exact-size rows, RGB565 and the other colour spaces
        for cs in (1, 0, 2):
            for mx in (1, 2, 3):
                for sk in (0, 1, 3):
                    for cx, cw in ((0, 0), (16, 9), (0, 7), (16, rng.range(1, 20)), (32, 1)):
                        cases.append("pp w=%d h=%d ss=2 src=ycc quant=0 dither=%d cs=%d max=%d num=1 den=1 fast=1 cx=%d cw=%d sk=%d" % (
                            rng.range(40, 70), rng.choice([9, 17, 19]), rng.below(2), cs, mx, cx, cw, sk))
        for cs in (1, 0, 2):
            for ss in (2, 1, 4, 0):
                for mx in (1, 2, 3, 5):
                    for fast in (1, 0):
                        w = rng.range(33, 80)
                        al = MCUW[ss]
                        cx = rng.choice([0, al, 2 * al, al + rng.below(al)])
                        cw = 0 if rng.chance(1, 4) else rng.range(1, w - cx)
                        cases.append("pp w=%d h=%d ss=%d src=%s quant=0 dither=%d cs=%d max=%d num=1 den=1 fast=%d cx=%d cw=%d sk=%d" % (
                            w, rng.choice([9, 17, 19, 33]), ss, rng.choice(["ycc", "ycc", "gray"]), rng.below(2), cs, mx, fast, cx, cw,
                            rng.choice([0, 0, 1, 2, 3, 5])))
    # RGB565 output (jdcol565.c, all six converters) through jpeg_read_scanlines with >= 2 lines per call, every
    # row in its own guarded buffer, row pointers 2 (mod 4) and 0 (mod 4), widths 1..5 and larger, v_samp 1/2/4
    for rep in range(ctx.n(1, 6)):
        for src in ("ycc", "rgb", "gray"):
            for dither in (0, 1):
                for al in (2, 0):
                    for w in [1, 2, 3, 4, 5, rng.range(6, 40), rng.range(41, 130)]:
                        for ss, mx in ((2, 2), (6, 4), (4, rng.range(2, 5)), (rng.choice([0, 1, 5]), rng.range(2, 6))):
                            cases.append("r565 w=%d h=%d ss=%d src=%s dither=%d al=%d max=%d fast=%d" % (
                                w, rng.choice([3, 8, 9, 17, 33]), ss, src, dither, al, mx, rng.below(2)))
    # value level: down/up-sampling kernels against the C loops of the model, every width, both ISAs,
    # rows exactly as long as alloc_sarray pads them and ending at a PROT_NONE page
    for rep in range(ctx.n(1, 6)):
        for kname, lo in (("ds1", 1), ("ds2", 1), ("fu1", 3), ("fu2", 3)):
            for isa in ("sse2", "avx2"):
                for n in list(range(lo, 131)) + [rng.range(131, 700) for _ in range(3)]:
                    rows = []
                    for i in range(3):
                        mode = rng.below(4)
                        b = rng.bytes(n) if mode else bytes([rng.choice([0, 255, 254, 1])] * n)
                        rows.append("r%d=%s" % (i, b.hex()))
                    cases.append("kv k=%s isa=%s n=%d %s" % (kname, isa, n, " ".join(rows)))
    # the SIMD kernels themselves, every width, both guard sides
    for isa in ("sse2", "avx2"):
        for ps in (3, 4):
            for fn, kind in (("ycc", "st"), ("h2v1", "st"), ("h2v2", "st"), ("ycc", "ld"), ("gray", "ld")):
                for n in list(range(1, 131)) + ([rng.range(131, 1200) for _ in range(ctx.n(4, 60))]):
                    for side in (0, 1):
                        cases.append("kern k=%s_%s%d fn=%s n=%d side=%d" % (isa, kind, ps, fn, n, side))
    return cases


# -------------------------------------------------------------- property oracle
def parse_bufs(part):
    """'ok [ow= oh=] b0=size:ivs ...' -> {id: (size, 'r' | [(off,len)...])}"""
    out = {}
    for tok in part.split():
        if tok[0] == "b" and "=" in tok and ":" in tok:
            bid = int(tok[1:tok.index("=")])
            size, ivs = tok[tok.index("=") + 1:].split(":", 1)
            if ivs == "r" or ivs == "full":
                out[bid] = (int(size), "r")
            elif ivs.startswith("partial"):
                out[bid] = (int(size), "partial")
            elif ivs == "-":
                out[bid] = (int(size), [])
            else:
                out[bid] = (int(size), [tuple(int(x) for x in iv.split("+")) for iv in ivs.split(",")])
    return out


def documented_rows(line):
    """{buffer id: (nrows, stride_bytes, rowbytes, size) or list of those with offsets} recomputed from
    the case parameters alone (TurboJPEG documentation: rows of width*pixelsize samples every
    pitch samples; planes of tj3YUVPlaneWidth x tj3YUVPlaneHeight every stride bytes)."""
    k = kvs(line)
    g = lambda n, d=0: int(k.get(n, d))
    kind = line.split()[0]
    api = k.get("api", "")
    out = {}
    if kind in ("rs", "big", "kv", "r565", "pp"):
        return out
    if kind == "hist":
        x_, y_, w_, h_ = stored_region(k)
        fw, fh, _ = hist_final(k)
        sf = (g("num", 1), g("den", 1))
        ow, oh = (w_, h_) if (x_ or y_ or w_ or h_) else (scaled(fw, sf), scaled(fh, sf))
        ps = PIXSZ[g("pf")]
        ssz = 2 if g("bits", 8) > 8 else 1
        pitch = ow * ps if g("pad") < 0 else ow * ps + g("pad")
        out[0] = [(0, oh, pitch * ssz, ow * ps * ssz)]
        return out
    if kind == "kern":
        ps = int(k["k"][-1])
        out[0] = [(0, 1, g("n") * ps, g("n") * ps)]
        return out
    ps = PIXSZ[g("pf")]
    if kind == "pk":
        ssz = 2 if g("bits", 8) > 8 else 1
        if api == "cmp":
            ow, oh = g("w"), g("h")
        else:
            sf = (g("num", 1), g("den", 1))
            sw, sh = scaled(g("w"), sf), scaled(g("h"), sf)
            if g("cx") or g("cy") or g("cw") or g("ch"):
                ow = g("cw") or sw - g("cx")
                oh = g("ch") or sh - g("cy")
            else:
                ow, oh = sw, sh
        pitch = ow * ps if g("pad") < 0 else ow * ps + g("pad")
        out[0] = [(0, oh, pitch * ssz, ow * ps * ssz)]
        return out
    base, unified = api[:-1], api.endswith("u")
    ss = g("ss")
    w, h = g("w"), g("h")
    if base == "d2":
        sf = (g("num", 1), g("den", 1))
        w, h = scaled(w, sf), scaled(h, sf)
    if base in ("enc", "dec"):
        pitch = w * ps if g("pad") < 0 else w * ps + g("pad")
        out[0] = [(0, h, pitch, w * ps)]
    nc = 1 if ss == TJSAMP_GRAY else 3
    off = 0
    planes = []
    for c in range(nc):
        pw = padto(w, MCUW[ss] // 8)
        ph = padto(h, MCUH[ss] // 8)
        if c > 0:
            pw = pw * 8 // MCUW[ss]
            ph = ph * 8 // MCUH[ss]
        if unified:
            st = padto(pw, g("align", 1))
            planes.append((off, ph, st, pw))
            off += st * ph
        else:
            sx = g("s%d" % c)
            out[c + 1] = [(0, ph, pw if sx < 0 else pw + sx, pw)]
    if unified:
        out[1] = planes
    return out


def outside_documented(ivs, rows):
    """first modified byte that is not inside a documented row, or None"""
    for (o, n) in ivs:
        for x in (o, o + n - 1):
            ok = False
            for (base, nrows, stride, rowbytes) in rows:
                y = x - base
                if y < 0:
                    continue
                if stride <= 0:
                    r, c = 0, y
                else:
                    r, c = divmod(y, stride)
                    if r >= nrows:            # last row may be followed by nothing
                        r, c = nrows - 1, y - (nrows - 1) * stride
                if r < nrows and c < rowbytes:
                    ok = True
                    break
            if not ok:
                return x
        # an interval spanning a padding gap: contains the first padding byte of its first row
        for (base, nrows, stride, rowbytes) in rows:
            if stride > rowbytes and base <= o < base + nrows * stride:
                r = (o - base) // stride
                gap = base + r * stride + rowbytes
                if o <= gap < o + n and r < nrows - 1:
                    return gap
    return None


def d2_overread(k):
    """tj3DecompressToYUVPlanes8: does the copy-out read pw > iw bytes from a temporary row?
    (iw = width_in_blocks*dctsize, pw = plane width of the scaled image; model/ExtentTmp.v)"""
    g = lambda n, d=0: int(k.get(n, d))
    w, ss, num, den = g("w"), g("ss"), g("num", 1), g("den", 1)
    dct = 8 * num // den
    maxh = MCUW[ss] // 8
    sw = scaled(w, (num, den))
    for c in range(1 if ss == TJSAMP_GRAY else 3):
        h = maxh if c == 0 else 1
        iw = ((w * h + maxh * 8 - 1) // (maxh * 8)) * dct
        pw = padto(sw, maxh) if c == 0 else padto(sw, maxh) // maxh
        if pw > iw:
            return True
    return False


def describe(line, level):
    k = kvs(line)
    kind = line.split()[0]
    if kind == "kern":
        return "SIMD kernel %s/%s, %s columns, guard side %s" % (k.get("k"), k.get("fn"), k.get("n"), "high" if k.get("side") == "1" else "low")
    if kind == "pp":
        return ("libjpeg API: %sx%s subsamp=%s %s source, scale %s/%s, quantize=%s (0 none, 1 one-pass, 2 two-pass) dither=%s out_color_space=%s "
                "(0 RGB, 1 RGB565, 2 RGBX, 3 GRAY) do_fancy_upsampling=%s, jpeg_crop_scanline(x=%s,w=%s) jpeg_skip_scanlines(%s), jpeg_read_scanlines(max_lines=%s) "
                "into exact-size rows and a row-pointer array that both end at guard pages, simd=%s" % (
                    k.get("w"), k.get("h"), k.get("ss"), k.get("src"), k.get("num", 1), k.get("den", 1), k.get("quant"), k.get("dither"), k.get("cs"),
                    "0" if k.get("fast") == "1" else "1", k.get("cx", 0), k.get("cw", 0), k.get("sk", 0), k.get("max"), level))
    if kind == "r565":
        return ("jpeg_read_scanlines(max_lines=%s) with out_color_space=JCS_RGB565 (%s source, dither=%s, do_fancy_upsampling=%s), %sx%s subsamp=%s, "
                "every row pointer = %s (mod 4) and ending at a guard page, simd=%s" % (
                    k.get("max"), k.get("src"), k.get("dither"), "0" if k.get("fast") == "1" else "1", k.get("w"), k.get("h"), k.get("ss"), k.get("al"), level))
    if kind == "kv":
        return "SIMD kernel %s (%s), width %s, rows as padded by alloc_sarray and ending at a guard page" % (
            {"ds1": "h2v1_downsample", "ds2": "h2v2_downsample", "fu1": "h2v1_fancy_upsample", "fu2": "h2v2_fancy_upsample"}.get(k.get("k")),
            k.get("isa"), k.get("n"))
    if kind == "hist":
        return ("one handle: tj3DecompressHeader(%sx%s subsamp=%s %s-bit), tj3SetScalingFactor(%s/%s), tj3SetCroppingRegion({%s,%s,%s,%s}), "
                "tj3SetScalingFactor(%s/%s), %stj3Decompress%s(pixelFormat=%s pitch=w*ps%s bottomUp=%s fastUpsample=%s) guard=%s simd=%s" % (
                    k.get("wA"), k.get("hA"), k.get("ssA"), k.get("bits"), k.get("n1"), k.get("d1"), k.get("cx"), k.get("cy"), k.get("cw"), k.get("ch"),
                    k.get("num"), k.get("den"),
                    "" if k.get("same") == "1" else "tj3DecompressHeader(%sx%s subsamp=%s), " % (k.get("w"), k.get("h"), k.get("ss")),
                    k.get("bits"), k.get("pf"), ("+" + k.get("pad", "0")) if int(k.get("pad", 0)) >= 0 else " (pitch=0)", k.get("bu"), k.get("fast"),
                    "high" if k.get("side") == "1" else "low", level))
    if kind == "big":
        return "%s width=%s height=%s pitch=%d bytes (sparse mapping, rows up to %d bytes from the start) pixelFormat=%s subsamp=%s bottomUp=%s plane strides=pw+(%s,%s,%s) simd=%s" % (
            {"cmp": "tj3Compress8", "dec": "tj3Decompress8", "encp": "tj3EncodeYUVPlanes8", "decp": "tj3DecodeYUVPlanes8"}.get(k.get("api")),
            k.get("w"), k.get("h"), int(k.get("w")) * PIXSZ[int(k.get("pf"))] + int(k.get("pad")),
            (int(k.get("h")) - 1) * (int(k.get("w")) * PIXSZ[int(k.get("pf"))] + int(k.get("pad"))), k.get("pf"), k.get("ss"), k.get("bu"),
            k.get("s0"), k.get("s1"), k.get("s2"), level)
    if kind == "rs":
        return "jpeg_read_scanlines(max_lines=%s) loop, %sx%s subsamp=%s pixelFormat=%s do_fancy_upsampling=%s scale=%s/%s guard=%s simd=%s" % (
            k.get("max"), k.get("w"), k.get("h"), k.get("ss"), k.get("pf"), "0" if k.get("fast") == "1" else "1",
            k.get("num", "1"), k.get("den", "1"), "high" if k.get("side") == "1" else "low", level)
    names = {"cmp": "tj3Compress%s" % k.get("bits", "8"), "dec": "tj3Decompress%s" % k.get("bits", "8"),
             "d2p": "tj3DecompressToYUVPlanes8", "d2u": "tj3DecompressToYUV8", "encp": "tj3EncodeYUVPlanes8",
             "encu": "tj3EncodeYUV8", "decp": "tj3DecodeYUVPlanes8", "decu": "tj3DecodeYUV8",
             "cfp": "tj3CompressFromYUVPlanes8", "cfu": "tj3CompressFromYUV8"}
    return "%s width=%s height=%s pixelFormat=%s subsamp=%s pitch=w*ps%s bottomUp=%s fastUpsample=%s scale=%s/%s crop=(%s,%s,%s,%s) strides+=(%s,%s,%s) align=%s guard=%s simd=%s" % (
        names.get(k.get("api"), k.get("api")), k.get("w"), k.get("h"), k.get("pf"), k.get("ss"),
        ("+" + k.get("pad", "0")) if int(k.get("pad", 0)) >= 0 else " (pitch=0)", k.get("bu", "0"), k.get("fast", "0"),
        k.get("num", "1"), k.get("den", "1"), k.get("cx", 0), k.get("cy", 0), k.get("cw", 0), k.get("ch", 0),
        k.get("s0", 0), k.get("s1", 0), k.get("s2", 0), k.get("align", 1),
        "high" if k.get("side") == "1" else "low", level)


def judge(ctx, line, level, impl):
    """property-level oracle on one implementation line; returns True when a violation was reported"""
    kind = line.split()[0]
    k = kvs(line)
    sigbase = "%s:%s" % (kind, k.get("api", k.get("k", "")) + ("/" + k["fn"] if "fn" in k else ""))
    rep = {"case": line, "level": level, "impl": impl, "config": describe(line, level)}
    if impl.startswith("hang"):
        ctx.violation("the call does not return (timer expired): %s" % describe(line, level), rep, signature="hang:%s" % kind)
        return True
    if impl.startswith("err rej-wrote"):
        ctx.violation("the call returned -1 but had already written to the destination (%s): %s" % (impl, describe(line, level)), rep,
                      signature="rejected-but-wrote:%s:%s" % (kind, level))
        return True
    if kind == "hist" and impl.startswith("ok") and not hist_valid(k):
        ctx.violation("a cropping region that is not valid for the image / scaling factor actually decompressed was accepted (returned 0): %s -> %s"
                      % (describe(line, level), impl[:160]), rep, signature="stale-region-accepted:" + level)
        return True
    if impl.startswith("over"):
        o = kvs("x " + impl[5:])
        ctx.violation("jpeg_read_scanlines(max_lines=%s) called at scanline %s returned %s and wrote through scanlines[%s], a row it was not given: %s"
                      % (o.get("max"), o.get("at"), o.get("ret"), o.get("row"), describe(line, level)), rep,
                      signature="rows-beyond-max_lines:%s:fancy=%s" % (level, "0" if k.get("fast") == "1" else "1"))
        return True
    if impl.startswith("segv buf=99"):
        ctx.violation("jpeg_read_scanlines delivered more rows than remain in the image (read past the end of the row-pointer array, which has "
                      "min(max_lines, output_height - output_scanline) entries and ends at a guard page): %s" % describe(line, level), rep,
                      signature="rows-beyond-image:%s:quant=%s:ss=%s" % (kind, k.get("quant", "0"), k.get("ss", "")))
        return True
    if impl.startswith("segv buf=-1"):
        # the fault is NOT on one of the guard pages: the library crashed on its own memory
        crop = "y" if any(int(k.get(x, 0)) for x in ("cx", "cy", "cw", "ch")) else "n"
        ctx.violation("SIGSEGV inside the library (fault address away from the guarded caller buffers) on valid arguments: %s"
                      % describe(line, level), rep,
                      signature="libcrash:%s%s:%s:crop=%s:fast=%s:ss=%s" % (k.get("api", ""), k.get("bits", ""), level, crop, k.get("fast", "0"), k.get("ss", "")))
        return True
    if impl.startswith("segv"):
        ctx.violation("access to memory adjacent to a caller buffer (fault on a guard page): %s -> %s" % (describe(line, level), impl),
                      rep, signature="segv:" + sigbase + ":" + level)
        return True
    if not impl.startswith("ok"):
        return False
    head, _, tail = impl.partition(" ; ")
    if "canary=ok" not in tail:
        ctx.violation("bytes outside a caller buffer were modified: %s -> %s" % (describe(line, level), tail), rep,
                      signature="canary:" + sigbase + ":" + level)
        return True
    bad = False
    bufs = parse_bufs(head)
    rows = documented_rows(line)
    for bid, (size, ivs) in bufs.items():
        if ivs == "r":
            continue
        if ivs == "partial":
            continue          # reported through the model comparison (a row byte never written)
        x = outside_documented(ivs, rows.get(bid, []))
        if x is not None:
            ctx.violation("byte %d of buffer %d is outside every documented row (row padding / after the last row) but was modified: %s"
                          % (x, bid, describe(line, level)), rep, signature="padding:" + sigbase + ":" + level)
            bad = True
    if "det=same" not in tail and k.get("api", "").startswith("d2") and d2_overread(k):
        ctx.violation("tj3DecompressToYUVPlanes8 copies pw > iw bytes per row out of its temporary buffer (heap over-read, "
                      "model: C11_tmpbuf_narrow_rows_refuted); the bytes read past the rows end up in the caller's planes and differ "
                      "from run to run: %s" % describe(line, level), rep, signature="tmpbuf-overread:" + k.get("api"))
        bad = True
    elif "det=same" not in tail:
        ctx.violation("the result depends on bytes outside the documented source extent / on the previous destination contents: %s"
                      % describe(line, level), rep, signature="dependence:" + sigbase + ":" + level)
        bad = True
    return bad


# ------------------------------------------------------------------ ASan stream
def asan_stream(ctx, cases):
    """the temporary-buffer paths of the raw-data entry points (C code) under AddressSanitizer:
    replays the witness of C11_tmpbuf_narrow_rows_refuted (regression of F10) and looks for siblings"""
    exe = ctx.cc("c11", ["c11.c"], "asan")
    sub = [c for c in cases if c.startswith("yuv ") and kvs(c).get("api", "")[:2] in ("d2", "cf")]
    i, restarts, nrep = 0, 0, 0
    while i < len(sub) and restarts < 8:
        inp = ("\n".join(sub[i:]) + "\n").encode()
        rc, out, err = sh2([exe], input=inp, timeout=1500, env={"ASAN_OPTIONS": "detect_leaks=0:abort_on_error=0"})
        n = out.decode().count("\n")
        ctx.count("yuv-asan", min(n, len(sub) - i), None)
        if rc == 0 and n >= len(sub) - i:
            break
        j = min(i + n, len(sub) - 1)
        line = sub[j]
        k = kvs(line)
        rep = {"case": line, "level": "asan", "stderr": err[:1500], "config": describe(line, "asan-build")}
        if "AddressSanitizer" in err:
            what = err.split("ERROR: AddressSanitizer:")[1].split("\n")[0].strip() if "ERROR: AddressSanitizer:" in err else "error"
            frame = ""
            for l in err.split("\n"):
                if " in tj3" in l or " in j" in l:
                    frame = l.split(" in ")[1].split()[0]
                    break
            if k.get("api", "").startswith("d2") and d2_overread(k):
                ctx.violation("AddressSanitizer: %s in %s: tj3DecompressToYUVPlanes8 copies pw > iw bytes per row out of its "
                              "temporary buffer (C11_tmpbuf_narrow_rows_refuted): %s" % (what[:80], frame, describe(line, "asan-build")),
                              rep, signature="tmpbuf-overread:" + k.get("api"))
            else:
                ctx.violation("AddressSanitizer: %s in %s: %s" % (what[:80], frame, describe(line, "asan-build")), rep,
                              signature="asan:%s:%s" % (k.get("api"), frame))
        else:
            ctx.violation("the ASan build crashed (rc=%d) on: %s" % (rc, describe(line, "asan-build")), rep,
                          signature="asan-crash:" + k.get("api", ""))
        nrep += 1
        i = j + 1
        restarts += 1
    ctx.cov["asan_cases"] = len(sub)
    try:
        ctx.cov["tmp_rows_cover_pw"] = "tmp_rows_cover_pw : bool := true" in open(os.path.join(core.COQ, "gen", "GenAlign.v")).read()
    except OSError:
        pass
    ctx.cov["asan_reports"] = nrep


# ------------------------------------------------------------------------- run
def run(ctx):
    for g in ("Align", "Tail"):
        if not ctx.regen([g]):
            # a failed translator leaves no .v; drop the compiled file of an earlier run too, so
            # that the obligations are not discharged against stale facts
            for ext in (".vo", ".vos", ".vok", ".glob"):
                try:
                    os.remove(os.path.join(core.COQ, "gen", "Gen%s%s" % (g, ext)))
                except OSError:
                    pass
    ctx.prove()
    drv = ctx.model_driver()
    exe = ctx.cc("c11", ["c11.c"], "simd")
    runs = [(name, exe, env) for name, env in LEVELS]
    # the build without SIMD has ALIGN_SIZE 8: different padding of the internal rows and pools
    runs.append(("plain-build", ctx.cc("c11", ["c11.c"], "plain"), {}))

    if ctx.replay:
        r = json.load(open(ctx.replay))
        cases = [r["case"]] if r.get("case") else []
        want = r.get("level")
        runs = [x for x in runs if x[0] == want] or runs
    else:
        cases = []
        cdir = os.path.join(core.VERIF, "corpus", "C11")
        if os.path.isdir(cdir):
            for fn in sorted(os.listdir(cdir)):
                cases += [l.strip() for l in open(os.path.join(cdir, fn)) if l.strip() and not l.startswith("#")]
        cases += gen_cases(ctx)
    if not cases:
        return
    ctx.log("cases:", len(cases), "levels:", [r[0] for r in runs])
    inp = ("\n".join(cases) + "\n").encode()

    # all levels and the model in parallel
    procs = {}
    import threading
    results = {}

    def worker(name, cmd, env):
        e = dict(os.environ)
        for v in ("JSIMD_FORCESSE2", "JSIMD_FORCEAVX2", "JSIMD_FORCENONE", "JSIMD_FORCESSE", "JSIMD_FORCEMMX"):
            e.pop(v, None)
        e.update(env)
        results[name] = sh2(cmd, input=inp, timeout=3000, env=e)

    ths = [threading.Thread(target=worker, args=(name, [x], env)) for name, x, env in runs]
    if drv:
        ths.append(threading.Thread(target=worker, args=("model", [drv], {})))
    for t in ths:
        t.start()
    for t in ths:
        t.join()

    mlines = None
    if drv:
        rc, out, err = results["model"]
        mlines = out.decode().split("\n")
        if rc != 0 or len(mlines) < len(cases):
            ctx.broken_tie("model-driver", "extracted model failed: rc=%d %s" % (rc, err[-200:]))
            mlines = None

    disagree = 0
    nviol = 0
    for name, x, env in runs:
        rc, out, err = results[name]
        lines = out.decode().split("\n")
        if rc != 0 or len(lines) < len(cases):
            idx = min(max(0, len(lines) - 1), len(cases) - 1)
            ctx.violation("implementation crashed outside the guarded buffers (%s, rc=%d) on: %s | %s" % (name, rc, describe(cases[idx], name), err[-200:]),
                          {"case": cases[idx], "level": name, "stderr": err[-1000:]}, signature="crash:" + cases[idx].split()[0] + ":" + name)
            lines += ["<no output>"] * (len(cases) - len(lines))
        for i, line in enumerate(cases):
            impl = lines[i]
            kind = line.split()[0]
            if kind in ("kern", "kv") and name != "default":
                continue        # kernels are called directly: independent of the dispatch level
            k = kvs(line)
            bad = judge(ctx, line, name, impl)
            nviol += bad
            if mlines is not None and not bad:
                head = impl.partition(" ; ")[0]
                if head != mlines[i]:
                    disagree += 1
                    if disagree <= 3:
                        ctx.log("model/impl disagree (%s):\n  case : %s\n  model: %s\n  impl : %s" % (name, line, mlines[i][:300], impl[:300]))
                        ctx.broken_tie("correspondence:" + kind + ":" + k.get("api", k.get("k", "")),
                                       "model and implementation (%s) differ on: %s || model=%s || impl=%s" % (name, line, mlines[i][:200], impl[:200]))
            stream = "%s-%s-%s" % (kind, k.get("api", k.get("k", "") + "/" + k.get("fn", "")), name)
            width = int(k.get("w", k.get("n", 0)))
            ctx.count(stream, 1, (stream, width % 32, k.get("pf"), k.get("side"), impl.partition(" ; ")[0][:120]))
            if i % 1499 == 0 and name == "default":
                ctx.sample({"case": line, "impl": impl[:300]})
    if not ctx.replay or "asan" in str(json.load(open(ctx.replay)).get("level")):
        asan_stream(ctx, cases)
    # what the calls produced (FNV of all written bytes / the JPEG) must not depend on the SIMD dispatch level
    hs = {}
    for name, x, env in runs:
        if name == "plain-build":
            continue
        lines = results[name][1].decode().split("\n")
        for i, line in enumerate(cases):
            if i < len(lines) and " h=" in lines[i]:
                hs.setdefault(i, {})[name] = lines[i].rsplit(" h=", 1)[1]
    ndiff = 0
    for i, d in hs.items():
        if len(set(d.values())) > 1:
            ndiff += 1
            if ndiff <= 3:
                ctx.broken_tie("simd-vs-c-values", "the bytes produced differ between SIMD dispatch levels %s on: %s" % (d, cases[i]))
    ctx.cov["value_hash_compared"] = len(hs)
    ctx.cov["value_hash_level_differences"] = ndiff
    if mlines is not None:
        ctx.cov["traces_validated_against_impl"] = len(cases) * len(runs)
    ctx.cov["model_impl_disagreements"] = disagree
    cpu = open("/proc/cpuinfo").read()
    ctx.cov["simd_levels"] = [r[0] for r in runs]
    ctx.cov["cpu_has_avx2"] = " avx2" in cpu
    if " avx2" not in cpu:
        ctx.assume.append("this CPU has no AVX2: the 'default' level exercised SSE2 only and the AVX2 kernel stream is meaningless")
    ctx.cov["rule"] = ("every width 1..130 x 12 pixel formats x both guard sides for tj3Compress8/tj3Decompress8 (heights {1,2,3,8,17}, pitches "
                       "w*ps+{0,1,7,32} and pitch=0, bottom-up on/off, 7 subsamplings, 16 scaling factors, valid and rejected cropping regions, "
                       "fast/fancy upsampling), 12-bit, 16-bit lossless, 8 YUV entry points (plane strides pw+{0,1,7,32} and 0, unified buffers "
                       "with align {1,2,4,32}), each SIMD colour-conversion kernel called directly for every width; each case at dispatch "
                       "levels AVX2 (default) / SSE2 / none; a case is distinct when (stream, width mod 32, format, side, result) is distinct")
    ctx.assume += ["the run-time half observes writes exactly (two pre-fill values) but reads only through faults on the guard pages and through "
                   "dependence of the result on padding contents; a read of row padding whose value is discarded is invisible",
                   "model-vs-implementation comparison is differential testing: it supports the tie between Extent.v and the C code, not the theorems"]
    ctx.trusted += ["tools/gen_Tail.py (asm -> cascade programs: sizes from mnemonic+register, SIZEOF_* from jsimdext.inc) and tools/gen_Align.py",
                    "Linux mmap/mprotect/sigaction semantics; the C harness"]
