"""C08 -- partial decompression equals the same region of a full decode.

1. translator  : gen_Scaling (sf[] / NUMSF / TJSCALED shape / tjMCUWidth / DCTSIZE / the if-chain of
                 jpeg_core_output_dimensions / the alignment expression of jpeg_crop_scanline)
2. proofs      : coq/props/C08.v (model/Partial.v, proofs/PartialGeomProofs.v, proofs/PartialSchedProofs.v)
3. correspondence: extracted model (ml/C08_driver) vs harness/c08.c, which drives the REAL
                 jpeg_crop_scanline / jpeg_skip_scanlines / jpeg_read_scanlines and
                 tj3SetScalingFactor / tj3SetCroppingRegion / tj3Decompress8|12 of the working tree on JPEGs
                 made by the real encoder: output dims, M, v, need_context_rows, merged flag, aligned
                 xoffset/width, IDCT windows, every return value, output_scanline after every op and the
                 provenance (which full-decode row) of every delivered row.
4. property-level oracle, independent of the model, on every case: delivered pixels == the same rows/columns
   of a full decode by a FRESH decompressor (first/last column exempt under fancy upsampling), dims == ceil,
   skip return values, final output_scanline, TurboJPEG region acceptance == documented rule.
The faithful model REFUTES the full property (props: C08_skip_read_equals_full_refuted): histories in one of
five hazard classes really fail on the implementation; they are reported with stable signatures.
"""
import json
import os
import re
from vlib import core
from vlib.core import sh2

HAZ = {1: "skip-hazard1:skip-after-skip-pending-imcu-row",
       2: "skip-hazard2:skip-mid-rowgroup-separate-upsampler",
       3: "skip-hazard3:merged-upsampler-spare-row",
       4: "skip-hazard4:stale-rows-to-go-overshoot",
       5: "crop-hazard5:merged-upsampler-reinit",
       6: "skip-hazard6:context-v4-next-imcu-row-already-decoded",
       7: "crop-hazard7:block-smoothing-left-edge",
       8: "bufimage-hazard8:skip-to-bottom-sets-eoi-reached"}

SAMPS_STD = ["11", "111111", "211111", "221111", "121111", "411111", "141111"]      # gray 444 422 420 440 411 441
SAMPS_ODD = ["221212", "222111", "212111", "311111", "131111", "421111", "241111", "11111111", "22111122", "21111121", "22",
             "141212", "241111", "141212"]
SF = [(2, 1), (15, 8), (7, 4), (13, 8), (3, 2), (11, 8), (5, 4), (9, 8), (1, 1), (7, 8), (3, 4), (5, 8), (1, 2), (3, 8), (1, 4), (1, 8)]
MCUW = {"11": 8, "111111": 8, "211111": 16, "221111": 16, "121111": 8, "411111": 32, "141111": 8}


def ceil_div(a, b):
    return -(-a // b)


def gen_ops(rng, oh, L, v, safe):
    """op list aimed at the case splits of jpeg_skip_scanlines"""
    ops, y = [], 0
    nops = rng.range(1, 7)
    for k in range(nops):
        if y >= oh and rng.chance(3, 4):
            break
        want_skip = rng.chance(1, 2)
        if safe and ops and ops[-1][0] == "S":
            want_skip = False                     # a read between two skips
        if not want_skip:
            d = rng.choice([0, 1, 2])
            tgt = ((y // L) + rng.range(1, 2)) * L - d      # stop 0/1/2 rows before an iMCU boundary
            n = rng.choice([1, 1, 2, 3, v, L - 1, L, L + 1, max(tgt - y, 1), rng.range(1, 3 * L)])
            if safe and v > 1 and rng.chance(2, 3):
                n += (-(y + n)) % v                # end on a row-group boundary
            n = max(n, 1)
            if safe and y + n > oh:
                n = max(oh - y, 1)
            ops.append(("R", n))
        else:
            ll = (L - y % L) % L
            kk = rng.range(1, 3)
            n = rng.choice([1, 2, 3, L - 1, L, L + 1, kk * L - 1, kk * L, kk * L + 1, ll, ll + 1, max(ll - 1, 0),
                            ll + kk * L, ll + kk * L + 1, ll + kk * L - 1, 2 * rng.range(0, L) + 1, rng.range(0, 4 * L),
                            max(oh - y - 1, 0), oh - y, oh - y + 5])
            n = max(n, 0)
            ops.append(("S", n))
        y = min(oh, y + ops[-1][1])
    tail = rng.choice([oh + 3, oh + 3, 1, 2])
    if safe:
        tail = max(oh - y, 1)
    ops.append(("R", tail))
    return " ".join("%s%d" % o for o in ops)


def gen_cases(ctx, rng, nimg, per_img, ntj):
    cases = []
    for i in range(nimg):
        std = rng.chance(3, 4)
        samp = rng.choice(SAMPS_STD if std else SAMPS_ODD)
        W = rng.choice([rng.range(1, 24), rng.range(17, 96), rng.range(33, 140)])
        H = rng.choice([rng.range(1, 20), rng.range(16, 80), rng.range(40, 130)])
        smooth_family = rng.chance(1, 5)          # progressive data of incomplete precision: interblock smoothing is active
        mode = rng.choice([3, 4, 5, 6, 7, 1]) if smooth_family else rng.choice([0, 0, 1, 1, 2])
        arith = 1 if rng.chance(1, 3) else 0
        prec = 12 if rng.chance(1, 3) else 8
        rst = rng.choice([0, 0, 0, 2, 5])
        pseed = rng.range(1, 1 << 20)
        head = "%d %d %s %d %d %d %d %d" % (W, H, samp, mode, arith, prec, rst, pseed)
        vmax = max(int(c) for c in samp[1::2])
        hmax = max(int(c) for c in samp[0::2])
        for j in range(per_img):
            M = rng.range(1, 16) if rng.chance(2, 3) else rng.choice([8, 8, 16, 4, 2, 1, 9, 15])
            fancy = 1 if rng.chance(1, 2) else 0
            dct = rng.choice([0, 0, 1, 2])
            quant = 1 if rng.chance(1, 6) else 0
            ocs = rng.choice([0, 0, 0, 1, 2, 3])
            ow, oh = ceil_div(W * M, 8), ceil_div(H * M, 8)
            L = M * vmax
            align = M if len(samp) == 2 else M * hmax
            r = rng.below(10)
            if r < 4:
                cx, cw = -1, 0
            elif r < 9:
                a = rng.below(max(ceil_div(ow, align), 1)) * align
                cx = min(ow - 1, a + rng.choice([0, 0, 1, align - 1, rng.below(align)]))
                cw = rng.choice([1, 2, 3, align, align + 1, ow - cx, rng.range(1, ow - cx)])
                cw = max(1, min(cw, ow - cx))
            else:                                   # invalid: must be rejected
                cx = rng.range(0, ow + 3)
                cw = rng.choice([0, ow - cx + 1, ow + 5]) if cx <= ow else 1
                cw = max(cw, 0)
            safe = rng.chance(3, 5) or smooth_family
            ops = gen_ops(rng, oh, L, vmax, safe)
            bscan = ""
            if smooth_family:
                if mode == 1 or rng.chance(1, 3):
                    bscan = " %d" % rng.range(1, 3)         # buffered-image mode, early output pass
                if cx >= 0 and cw > 0 and cx + cw <= ow and rng.chance(1, 2):
                    # right edge inside the image, left edge at 0 / inside
                    cx = rng.choice([0, 0, cx])
                    cw = max(1, min(cw, ow - cx - rng.range(1, max(1, min(ow - cx - 1, 3 * align)))))
            cases.append(("L %s | %d %d %d %d %d%s | %d %d | %s" % (head, M, fancy, dct, quant, ocs, bscan, cx, cw, ops), "lib"))
        # buffered-image mode through the libjpeg API: one crop (before / after the first jpeg_start_output), several
        # output passes with Read/Skip ops, on multi-scan and single-scan sources
        for j in range(2 if rng.chance(1, 2) else 0):
            M = rng.range(1, 16) if rng.chance(1, 2) else 8
            fancy = 1 if rng.chance(1, 2) else 0
            dct, quant, ocs = rng.choice([0, 0, 1, 2]), 0, rng.choice([0, 0, 1, 3])
            ow, oh = ceil_div(W * M, 8), ceil_div(H * M, 8)
            L = M * vmax
            align = M if len(samp) == 2 else M * hmax
            if rng.chance(1, 5):
                cx, cw = -1, 0
            else:
                cx = min(ow - 1, rng.below(max(ceil_div(ow, align), 1)) * align + rng.choice([0, 0, 1, align - 1]))
                cw = max(1, min(rng.choice([1, 3, align, align + 1, ow - cx, rng.range(1, ow - cx)]), ow - cx))
                if smooth_family and rng.chance(1, 2):
                    cx = 0
            when = rng.below(2)
            ks = [1, 2, 3, 20] if mode == 1 else ([1, 2, 3, 20] if mode >= 3 else [1, 1, 2])
            npass = rng.range(1, 3)
            k, passes = 0, []
            for q in range(npass):
                k = max(k, rng.choice(ks))
                ops = gen_ops(rng, oh, L, vmax, rng.chance(3, 4))
                passes.append("%d %s" % (k, ops))
            cases.append(("%s %s | %d %d %d %d %d | %d %d %d | %s" % ("C" if rng.chance(1, 4) else "B", head, M, fancy, dct, quant, ocs, cx, cw, when, " ; ".join(passes)), "buf"))
        if samp in MCUW:
            for j in range(ntj):
                sfi = rng.below(16)
                num, den = SF[sfi]
                sw, sh = ceil_div(W * num, den), ceil_div(H * num, den)
                al = ceil_div(MCUW[samp] * num, den)
                fu, fd, pf = rng.below(2), rng.below(2), rng.below(5)
                r = rng.below(10)
                x = rng.below(max(ceil_div(sw, al), 1)) * al
                y = rng.below(max(sh, 1))
                if r < 6:
                    x = min(x, max(sw - 1, 0)) // al * al
                    w = rng.choice([0, 1, 2, al, rng.range(1, max(sw - x, 1)), sw - x])
                    h = rng.choice([0, 1, rng.range(1, max(sh - y, 1)), sh - y])
                elif r < 8:
                    x += rng.range(1, max(al - 1, 1))   # misaligned unless al == 1
                    w = rng.range(0, max(sw - x, 1)) if x < sw else 1
                    h = rng.range(0, max(sh - y, 1))
                else:
                    w = rng.choice([sw - x + 1, sw + 1, -1, 0])
                    h = rng.choice([sh - y + 1, 0, -1, 1])
                    if rng.chance(1, 4):
                        x, y, w, h = 0, 0, 0, 0
                bu = 1 if rng.chance(1, 2) else 0
                pad = rng.choice([0, 0, 1, 3, 8, 17])
                cases.append(("T %s | %d %d %d %d %d %d | %d %d %d %d" % (head, sfi, fu, fd, pf, bu, pad, x, y, w, h), "tj"))
    return cases


def canon_impl(l):
    """-> (comparable head, prov list or None, px verdict or None, dup map)"""
    l = re.sub(r" err \d+$", " err", l)
    if re.match(r"(enc-err|full-err)", l):
        return "err", None, None, {}
    m = re.match(r"(.*?) \| prov(.*?) \| px (.*?) \| dup(.*)$", l)
    if m:
        dup = {}
        for t in m.group(4).split():
            a, b = t.split(":")
            dup[int(a)] = int(b)
        return m.group(1), [int(x) for x in m.group(2).split()], m.group(3), dup
    m = re.match(r"(tj .*?) \| px (.*)$", l)
    if m:
        return m.group(1), None, m.group(2), {}
    return l, None, None, {}


def canon_model(l):
    """-> (head, prov, hazard class, model predicts a read past the last iMCU row)"""
    m = re.match(r"(.*?) \| prov(.*?) \| haz (\d+) over=(\d) band=(\d+) gok=(\d)$", l)
    if m:
        return (m.group(1), [int(x) for x in m.group(2).split()], int(m.group(3)), m.group(4) == "1",
                int(m.group(5)) if m.group(6) == "1" else -1)
    m = re.match(r"(tj .*?) \| haz (\d+) over=(\d) band=(\d+) gok=(\d)$", l)
    if m:
        return m.group(1), None, int(m.group(2)), False, int(m.group(4))
    return l, None, 0, False, 0


def cols_within(px, band):
    m = re.search(r"cols=(-?\d+)-(-?\d+)", px or "")
    return bool(m) and 0 <= int(m.group(1)) and int(m.group(2)) < band


def earlier_skip_to_bottom(rline, seg):
    """buffered-image case: did a pass before pass `seg` skip to (or past) the bottom of the image?"""
    if rline[:2] not in ("B ", "C ") or not seg:
        return False
    f = [x.strip() for x in rline[2:].split("|")]
    H, M = int(f[0].split()[1]), int(f[1].split()[0])
    oh = ceil_div(H * M, 8)
    for p in f[3].split(";")[:seg]:
        y = 0
        for t in p.split()[1:]:
            n = int(t[1:])
            if t[0] == "S" and n > 0 and y + n >= oh and y < oh:
                return True
            y = min(oh, y + n)
    return False


def run_harness(exe, lines, timeout=1700):
    """runs the harness over the lines; a crash is recorded for the line it died on and the run resumes after it"""
    out = [None] * len(lines)
    crashes = []
    start = 0
    while start < len(lines):
        inp = ("\n".join(lines[start:]) + "\n").encode()
        rc, o, err = sh2([exe], input=inp, timeout=timeout)
        got = o.decode("utf-8", "replace").split("\n")
        got.pop()                      # text after the last newline: empty, or a partial line of a dying process
        complete = rc == 0 and len(got) >= len(lines) - start
        n = min(len(got), len(lines) - start)
        for k in range(n):
            out[start + k] = got[k]
        if complete:
            break
        idx = start + n
        if idx >= len(lines):
            break
        out[idx] = "<crash rc=%d>" % rc
        crashes.append((idx, rc, err[-1500:]))
        start = idx + 1
        if len(crashes) > 40:
            break
    return out, crashes


def py_oracle_lib(line, impl_head, px):
    """property-level checks that need neither the model nor pixels: dims, skip returns, final scanline.
    returns list of (kind, message)"""
    bad = []
    f = [x.strip() for x in line[2:].split("|")]
    hd = f[0].split()
    W, H = int(hd[0]), int(hd[1])
    M = int(f[1].split()[0])
    cx, cw = [int(x) for x in f[2].split()]
    m = re.match(r"ok dims (\d+) (\d+) M=(\d+) ", impl_head)
    rejected = impl_head.endswith(" err")
    if m and rejected and " | ops" in impl_head:
        bad.append(("error-during-ops", "library error in the middle of the history: " + impl_head[-80:]))
        return bad
    if m and rejected:
        ow = int(m.group(1))
        if cx < 0:
            bad.append(("decode-error", "decompression failed: " + impl_head[-60:]))
        elif not (cw == 0 or cx + cw > ow):
            bad.append(("crop-rejected", "a valid crop region (%d,%d) of width %d was rejected" % (cx, cw, ow)))
        return bad
    if not m:
        if impl_head.endswith(" err") or impl_head == "err":
            ow = ceil_div(W * M, 8)
            if cx >= 0 and not (cw == 0 or cx + cw > ow):
                bad.append(("crop-rejected", "a valid crop region (%d,%d) of width %d was rejected" % (cx, cw, ow)))
            if cx < 0:
                bad.append(("decode-error", "decompression failed: " + impl_head[-60:]))
        return bad
    ow, oh = int(m.group(1)), int(m.group(2))
    if ow != ceil_div(W * M, 8) or oh != ceil_div(H * M, 8) or int(m.group(3)) != M:
        bad.append(("dims", "output dims %dx%d != ceil(%dx%d * %d/8)" % (ow, oh, W, H, M)))
    if cx >= 0 and (cw == 0 or cx + cw > ow):
        bad.append(("crop-accepted", "invalid crop region (%d,%d) for width %d was accepted" % (cx, cw, ow)))
    mc = re.search(r"\| crop (\d+) (\d+) ow=(\d+)", impl_head)
    if mc and cx >= 0:
        x2, w2 = int(mc.group(1)), int(mc.group(2))
        if not (x2 <= cx and x2 + w2 == cx + cw and w2 <= ow - x2):
            bad.append(("crop-geometry", "crop (%d,%d) -> (%d,%d): right edge not preserved / not within the image" % (cx, cw, x2, w2)))
    mo = re.search(r"\| ops(.*)$", impl_head)
    if mo:
        y = 0
        toks = mo.group(1).split()
        ops = f[3].split()
        for o, t in zip(ops, toks):
            n = int(o[1:])
            ret, after = t[1:].split("@")
            after = int(after)
            exp_after = min(oh, y + n)
            if o[0] == "S":
                if int(ret) != exp_after - y:
                    bad.append(("skip-return", "skip(%d) at scanline %d returned %s, expected %d" % (n, y, ret, exp_after - y)))
            if after != exp_after:
                bad.append(("scanline", "after %s at scanline %d: output_scanline=%d, expected %d (height %d)" % (o, y, after, exp_after, oh)))
                break
            y = after
    return bad


def py_oracle_tj(line, impl_head, px):
    bad = []
    f = [x.strip() for x in line[2:].split("|")]
    hd = f[0].split()
    W, H, samp = int(hd[0]), int(hd[1]), hd[2]
    sfi = int(f[1].split()[0])
    x, y, w, h = [int(t) for t in f[2].split()]
    num, den = SF[sfi % 16]
    sw, sh = ceil_div(W * num, den), ceil_div(H * num, den)
    al = ceil_div(MCUW[samp] * num, den)
    m = re.match(r"tj sub=(-?\d+) sf=(\d+)/(\d+) dims (\d+) (\d+) full=(-?\d+) set=(-?\d+)(?: dec=(-?\d+))?", impl_head)
    if not m:
        return [("tj-output", "unexpected harness output: " + impl_head[:80])]
    if (int(m.group(4)), int(m.group(5))) != (sw, sh):
        bad.append(("dims", "TJSCALED dims %s x %s != ceil formula %d x %d" % (m.group(4), m.group(5), sw, sh)))
    if int(m.group(6)) != 0:
        bad.append(("tj-full-decode", "full tj3Decompress failed"))
    if x == 0 and y == 0 and w == 0 and h == 0:
        ok = True
    elif min(x, y, w, h) < 0 or x % al != 0:
        ok = False
    else:
        w1 = sw - x if w == 0 else w
        h1 = sh - y if h == 0 else h
        ok = w1 > 0 and h1 > 0 and x + w1 <= sw and y + h1 <= sh
    got = int(m.group(7)) == 0
    if ok != got:
        bad.append(("tj-region-acceptance", "tj3SetCroppingRegion(%d,%d,%d,%d) at %d/%d on %dx%d: %s, rule says %s" % (
            x, y, w, h, num, den, W, H, "accepted" if got else "rejected", "valid" if ok else "invalid")))
    if got and m.group(8) is not None and int(m.group(8)) != 0:
        bad.append(("tj-decode-error", "accepted region fails to decompress: " + (px or "")))
    return bad


def run(ctx):
    rng = ctx.rng
    ctx.regen(["Scaling"])
    ctx.prove()
    drv = ctx.model_driver()
    flavours = ["simd", "plain", "asan"]
    exes = {fl: ctx.cc("c08", ["c08.c"], fl, libs=("turbojpeg",)) for fl in flavours}

    cases = []   # (line, kind)
    if ctx.replay:
        r = json.load(open(ctx.replay))
        l = r.get("case", "")
        if l:
            cases.append((l, "replay"))
    else:
        cdir = os.path.join(core.VERIF, "corpus", "C08")
        if os.path.isdir(cdir):
            for fn in sorted(os.listdir(cdir)):
                for l in open(os.path.join(cdir, fn)):
                    l = l.strip()
                    if l and not l.startswith("#"):
                        cases.append((l, "corpus"))
        cases += gen_cases(ctx, rng, ctx.n(700, 20000), 9, 3)
        cases += gen_kcases(rng, ctx.n(60, 3000))
        cases += gen_565cases(rng, ctx.n(60, 3000))
    kl = [c[0] for c in cases if c[0].startswith("K ")]
    if kl:
        run_kcases(ctx, kl, exes, drv, flavours)
    cases = [c for c in cases if not c[0].startswith("K ")]
    if not cases:
        return None
    return run_cases(ctx, cases, exes, drv, flavours)


def gen_565cases(rng, n):
    """JCS_RGB565 (ocs 2: JDITHER_NONE, ocs 4: ordered dither) x merged h2v2 / h2v1 upsampling x jpeg_crop_scanline x
    schedules that hand out odd rows from the merged upsampler's spare row (one-row reads), skips issued at even
    scanlines (no hazard 3).  Dithered output depends on the number of rows per call, so those histories read one
    row at a time, as the reference full decode does.  Exact-size output rows (ASan / guard bytes)."""
    out = []
    for _ in range(n):
        samp = rng.choice(["221111", "221111", "211111"])
        vmax = int(samp[1])
        W, H = rng.range(40, 200), rng.range(12, 70)
        head = "%d %d %s %d %d 8 %d %d" % (W, H, samp, rng.choice([0, 0, 1, 2]), rng.choice([0, 0, 1]), rng.choice([0, 0, 4]), rng.range(1, 1 << 20))
        M = rng.choice([8, 8, 8, 4, 16, 12])
        ocs = rng.choice([2, 4])
        ow, oh = ceil_div(W * M, 8), ceil_div(H * M, 8)
        L, align = M * vmax, M * 2
        r = rng.below(6)
        if r == 0:
            cx, cw = -1, 0
        else:
            cx = rng.range(0, ow - 1)
            cw = rng.choice([ow - cx, rng.range(1, ow - cx), max(1, min(ow - cx, rng.range(2 * ow // 3, ow))), rng.range(1, min(ow - cx, 2 * align))])
            cw = max(1, min(cw, ow - cx))
        ops, y = [], 0
        for _k in range(rng.range(1, 4)):
            for _j in range(rng.range(1, 5)):
                ops.append("R1"); y += 1
            if ocs == 2 and rng.chance(1, 3):
                n = rng.range(2, 5); ops.append("R%d" % n); y += n
            if y % 2:
                ops.append("R1"); y += 1
            if y >= oh:
                break
            n = rng.choice([1, 2, 3, L - 1, L, L + 1, (L - y % L) % L, (L - y % L) % L + 1, rng.range(0, 3 * L)])
            ops.append("S%d" % n); y += n
            if y >= oh:
                break
        tail = rng.range(1, 7)
        ops += ["R1"] * tail
        if ocs == 2:
            ops.append("R%d" % (oh + 3))
        out.append(("L %s | %d 0 %d 0 %d | %d %d | %s" % (head, M, rng.choice([0, 0, 1]), ocs, cx, cw, " ".join(ops)), "rgb565"))
    return out


def gen_kcases(rng, n):
    """jpeg_crop_scanline called twice (K lines): plain mode (both calls before the first read) and buffered-image mode
    (one call before each of two output passes); second requests aimed at the first region's width / edges"""
    out = []
    for _ in range(n):
        samp = rng.choice(["111111", "211111", "221111", "11", "121111", "411111"])
        nc = len(samp) // 2
        hmax = max(int(c) for c in samp[0::2])
        W = rng.range(70, 220)
        H = rng.range(8, 40)
        mode = rng.choice([0, 1, 2])
        prec = 12 if rng.chance(1, 4) else 8
        head = "%d %d %s %d %d %d %d %d" % (W, H, samp, mode, 0, prec, rng.choice([0, 0, 3]), rng.range(1, 1 << 20))
        M = rng.choice([8, 8, 8, 4, 12, 16, 6])
        ow = ceil_div(W * M, 8)
        align = M * (1 if nc == 1 else hmax)
        if ow < 4 * align + 8:
            continue
        w1 = rng.range(2 * align + 3, ow - align)          # never a <= 2 column region (upsampler re-selection)
        x1 = rng.range(0, ow - w1)
        xa = x1 // align * align
        wa = w1 + x1 - xa
        kind = rng.range(0, 6)
        if kind == 0:      # same width as the first region, another offset
            w2 = wa; x2 = rng.range(0, ow - w2)
        elif kind == 1:    # inside the first region's width
            w2 = rng.range(1, wa - 1); x2 = rng.range(0, wa - w2)
        elif kind == 2:    # right of the first region
            x2 = rng.range(min(xa + 1, ow - 1), ow - 1); w2 = rng.range(1, ow - x2)
        elif kind == 3:    # back to the full width
            x2, w2 = 0, ow
        elif kind == 4:    # invalid for the image
            x2 = rng.range(0, ow); w2 = ow - x2 + rng.range(1, 9)
        else:
            w2 = rng.range(1, ow); x2 = rng.range(0, ow - w2)
        out.append(("K %s | %d 0 %d 0 %d | %d %d %d %d %d" % (head, M, rng.choice([0, 0, 1]), rng.choice([0, 1, 3]),
                                                             rng.range(0, 1), x1, w1, x2, w2), "recrop"))
    return out


def run_kcases(ctx, klines, exes, drv, flavours):
    mlines = None
    if drv:
        rc, out, err = sh2([drv], input=("\n".join(klines) + "\n").encode(), timeout=600)
        mlines = out.decode().split("\n")
        if rc != 0 or len(mlines) < len(klines):
            ctx.broken_tie("model-driver", "extracted model failed on K lines: rc=%d %s" % (rc, err[-200:]))
            mlines = None
    outs = {}
    for fl in flavours:
        o, crashes = run_harness(exes[fl], klines)
        outs[fl] = o
        for k, rc, err in crashes:
            ctx.violation("implementation crashed/hung on a repeated jpeg_crop_scanline (%s build, rc=%d)" % (fl, rc),
                          {"case": klines[k], "flavour": fl, "stderr": err[-1500:]}, signature="crash:recrop")
    for i, line in enumerate(klines):
        impl = outs[flavours[0]][i]
        if impl is None or impl.startswith("<crash"):
            continue
        if impl.startswith("enc-err") or impl.startswith("full-err"):
            ctx.count("encoder-rejected", 1, None)
            continue
        for fl in flavours[1:]:
            if outs[fl][i] is not None and not outs[fl][i].startswith("<crash") and outs[fl][i] != impl:
                ctx.violation("builds disagree (%s vs %s)" % (flavours[0], fl), {"case": line, flavours[0]: impl[:800], fl: outs[fl][i][:800]},
                              signature="builds-disagree:recrop")
        f = [x.strip() for x in line[2:].split("|")]
        hd = f[0].split()
        Wimg, samp = int(hd[0]), hd[2]
        M = int(f[1].split()[0])
        buf, x1, w1, x2, w2 = [int(x) for x in f[2].split()]
        nc = len(samp) // 2
        align = M * (1 if nc == 1 else max(int(c) for c in samp[0::2]))
        ow = ceil_div(Wimg * M, 8)

        def region(x, w):      # documented rule, relative to the image row
            if w == 0 or x + w > ow:
                return None
            if w == ow:
                return (0, ow)
            xa = x // align * align
            return (xa, w + x - xa)
        seg = [t.strip() for t in impl.split("|")]
        mo = re.match(r"k ow=(\d+) oh=(\d+)", seg[0])
        rep = {"case": line, "impl": impl, "model": (mlines[i] if mlines else "")}
        if not mo or int(mo.group(1)) != ow or len(seg) < 2:
            ctx.violation("unexpected harness output on a K line", rep, signature="recrop:output")
            continue

        def parse(t):
            m = re.match(r"c\d (\d+) (\d+) (\d+)(?: at=(-?\d+) rep=(\d))?(?: first=(\d))?", t)
            return None if not m else [None if g is None else int(g) for g in m.groups()]
        e1 = region(x1, w1)
        c1 = parse(seg[1])
        if e1 is None:
            if c1 is not None:
                ctx.violation("invalid crop region (%d,%d) for width %d was accepted" % (x1, w1, ow), rep, signature="crop-accepted")
            ctx.count("recrop-first-invalid", 1, None)
            continue
        rx1 = (0, ow) if w1 == ow else e1
        if c1 is None or (c1[0], c1[1]) != ((x1, w1) if w1 == ow else e1) or c1[2] != rx1[1] or (buf and (c1[3] != rx1[0] or c1[4] != 1)):
            ctx.violation("first jpeg_crop_scanline(%d,%d): %s, expected region %s" % (x1, w1, seg[1], e1), rep, signature="recrop:first-call")
            continue
        e2 = region(x2, w2)
        c2 = parse(seg[2]) if len(seg) > 2 else None
        err2 = len(seg) > 2 and " err " in " " + seg[2] + " "
        if e2 is None:
            conform = err2
        else:
            rep2 = (x2, w2) if w2 == ow else e2
            conform = (c2 is not None and (c2[0], c2[1]) == rep2 and c2[2] == e2[1] and c2[3] == e2[0] and
                       (c2[4] == 1 or w2 == ow))
        # the faithful model (second request tested against the cropped width) and the documented rule, from Coq
        mm = re.match(r"k ow=(\d+) oh=(\d+) doc=(\S+) model=(\S+)", mlines[i]) if mlines else None
        if mlines and (not mm or int(mm.group(1)) != ow):
            ctx.broken_tie("model-recrop", "model line for a K case: " + (mlines[i] or "")[:200])
        mdoc = mm.group(3) if mm else None
        mfm = mm.group(4) if mm else None
        if mdoc is not None and mdoc != ("err" if e2 is None else "%d,%d" % e2):
            ctx.broken_tie("model-recrop-doc", "recrop_documented = %s, the documented rule gives %s on %s" % (mdoc, e2, line))
        if conform:
            if mfm is not None and (mfm == "err") != (e2 is None) or (mfm or "").startswith("ignored") and e2 != rx1:
                ctx.broken_tie("model-stale:recrop", "the faithful model predicts %s, the library follows the documented rule on %s" % (mfm, line))
            ctx.count("recrop-" + ("buf" if buf else "recall") + ("-invalid" if e2 is None else "-ok"), 1, ("recrop", buf, e2 is None))
            continue
        stale = False
        if mfm == "err" and err2:
            stale = True
            what = "a valid region (%d,%d) of the %d-column row is rejected (JERR_WIDTH_OVERFLOW) after a first crop to %s" % (x2, w2, ow, e1)
        elif mfm and mfm.startswith("ignored") and c2 is not None:
            _, xa, wa = mfm.split(",")
            if (c2[0], c2[1]) == (x2, w2) and c2[2] == int(wa) and c2[3] == int(xa) and c2[5] == 1:
                stale = True
                what = ("a second jpeg_crop_scanline(%d,%d) after a first crop to %s is ignored silently: the caller's values come back "
                        "unchanged, columns %d..%d are delivered instead of %d..%d" % (x2, w2, e1, int(xa), int(xa) + int(wa) - 1, e2[0], e2[0] + e2[1] - 1))
        if stale:
            ctx.violation("repeated jpeg_crop_scanline (%s) tests the request against the already cropped output_width: %s" % (
                "buffered-image mode, next output pass" if buf else "second call before the first read, as libjpeg.txt allows", what),
                rep, signature="recrop-stale-width:" + ("bufimage" if buf else "recall"))
            ctx.count("recrop-stale", 1, ("recrop-stale", buf, mfm.split(",")[0]))
        else:
            ctx.violation("repeated jpeg_crop_scanline(%d,%d) after (%d,%d): %s -- neither the documented region %s nor the faithful model's prediction %s"
                          % (x2, w2, x1, w1, " | ".join(seg[1:]), e2, mfm), rep, signature="recrop:lib")


def expand_passes(line):
    """a buffered-image case (B/C line) -> one L-format line per output pass (what the model is asked)"""
    f = [x.strip() for x in line[2:].split("|")]
    dec = f[1].split()[:5]
    cxw = f[2].split()
    out = []
    for seg in f[3].split(";"):
        t = seg.split()
        if not t:
            continue
        k = max(int(t[0]), 1)
        out.append("L %s | %s %d | %s %s | %s" % (f[0], " ".join(dec), k, cxw[0], cxw[1], " ".join(t[1:])))
    return out


def run_cases(ctx, cases, exes, drv, flavours):
    rlines = [c[0] for c in cases]
    # virtual cases: one per line, one per output pass for buffered-image histories
    vreal, vseg, lines = [], [], []
    for ri, l in enumerate(rlines):
        if l[:2] in ("B ", "C "):
            for si, ml in enumerate(expand_passes(l)):
                vreal.append(ri); vseg.append(si); lines.append(ml)
        else:
            vreal.append(ri); vseg.append(None); lines.append(l)
    # ---- model first: it tells which cases are expected to corrupt memory (hazard 5) and must run isolated ----
    mlines = None
    if drv:
        rc, out, err = sh2([drv], input=("\n".join(lines) + "\n").encode(), timeout=1700)
        mlines = out.decode().split("\n")
        if rc != 0 or len(mlines) < len(lines):
            ctx.broken_tie("model-driver", "extracted model failed: rc=%d %s" % (rc, err[-200:]))
            mlines = None
    model = [canon_model(mlines[i]) if mlines else (None, None, 0, False, 0) for i in range(len(lines))]
    isoset = set(vreal[i] for i in range(len(lines)) if model[i][2] == 5)
    iso = sorted(isoset)
    main_idx = [i for i in range(len(rlines)) if i not in isoset]

    outs = {}
    for fl in flavours:
        rres = [None] * len(rlines)
        o, crashes = run_harness(exes[fl], [rlines[i] for i in main_idx])
        for k, i in enumerate(main_idx):
            rres[i] = o[k]
        rcrash = {main_idx[k]: (rc, err) for k, rc, err in crashes}
        # isolated cases: one process each (they may corrupt the heap of the decompressor)
        for i in iso[:ctx.n(12, 200)]:
            o1, c1 = run_harness(exes[fl], [rlines[i]], timeout=120)
            rres[i] = o1[0]
            if c1:
                rcrash[i] = (c1[0][1], c1[0][2])
        res, crash_at = [None] * len(lines), {}
        for i in range(len(lines)):
            r = rres[vreal[i]]
            if r is not None and vseg[i] is not None and not r.startswith("<crash"):
                segs = r.split(" ## ")
                r = segs[vseg[i]] if vseg[i] < len(segs) else "<pass-not-reached>"
            res[i] = r
            if vreal[i] in rcrash:
                crash_at[i] = rcrash[vreal[i]]
        outs[fl] = (res, crash_at)
    cases = [(lines[i], rlines[vreal[i]], vseg[i]) for i in range(len(lines))]
    # a crash / hang of a multi-pass history is attributed to the history: known hazard if the model predicts, for one of
    # its passes, a read past the last iMCU row
    real_over = {}
    for i in range(len(lines)):
        if model[i][2] in HAZ and model[i][3] and vreal[i] not in real_over:
            real_over[vreal[i]] = model[i][2]
    crash_reported = set()
    vreal_of = vreal

    ref, _ = outs[flavours[0]]
    disagree = 0
    for i, (line, rline, seg) in enumerate(cases):
        mhead, mprov, hz, over, band = model[i]
        haz8 = False     # bufimage-hazard8 is fixed in /repo (generated fact gen_skip_clamp_guards_buffered)
        if band < 0:       # the frame's geometry does not satisfy the hypothesis of the context-controller theorem
            ctx.broken_tie("ctx-v2-geometry", "derive_config's geometry violates ctx_v2_ok on: " + line[:200])
            band = 0
        is_tj = line.startswith("T ")
        stream = ("tj" if is_tj else "lib") + ("-haz%d" % hz if hz else "")
        # ---- crashes (any flavour) ----
        crashed = False
        for fl in flavours:
            res, crash_at = outs[fl]
            if i in crash_at:
                crashed = True
                rc, err = crash_at[i]
                if (fl, rline) in crash_reported:
                    continue
                crash_reported.add((fl, rline))
                if rline[:2] in ("B ", "C ") and hz not in HAZ and real_over.get(vreal_of[i]) in HAZ:
                    hz_c, over_c = real_over[vreal_of[i]], True
                else:
                    hz_c, over_c = hz, over
                # a crash/hang belongs to a known hazard only if the faithful model predicts the memory-unsafe
                # step itself: a read past the last iMCU row (hazards 1..4) or the upsampler re-initialisation (5)
                sig = HAZ[hz_c] if (hz_c == 5 or (hz_c in HAZ and over_c)) else "crash:" + ("tj" if is_tj else "lib")
                ctx.violation("implementation %s (%s build, rc=%d)%s: %s" % (
                    "hung (killed by the harness watchdog)" if rc == -14 else "crashed",
                    fl, rc, " -- jpeg_crop_scanline re-initialises the separate upsampler while the merged one is installed" if hz == 5 else "",
                    (err.strip().split("\n") or [""])[0][:200]),
                    {"case": rline, "flavour": fl, "stderr": err[-1500:]}, signature=sig)
        impl = ref[i]
        if impl is None or impl.startswith("<crash"):
            impl = next((outs[fl][0][i] for fl in flavours if outs[fl][0][i] and not outs[fl][0][i].startswith("<crash")), None)
        if impl == "<pass-not-reached>":
            continue
        if impl is None:
            ctx.count(stream + ("-crash" if crashed else "-notrun"), 1, ("crash", hz) if crashed else None)
            continue
        if impl.startswith("enc-err"):          # the real encoder refuses this frame (e.g. > 10 blocks per MCU): not a case
            ctx.count("encoder-rejected", 1, None)
            continue
        ihead, iprov, px, dup = canon_impl(impl)
        # ---- does the implementation do exactly what the faithful model predicts? ----
        same = None
        if mhead is not None:
            same = (ihead == mhead)
            if same and iprov is not None and mprov is not None:
                mp = [dup.get(v, v) for v in mprov]
                same = len(mp) == len(iprov) and all(a == b or b == -1 for a, b in zip(iprov, mp))
        # ---- bytes written past the end of an exact-size output row (guard bytes of the non-ASan builds): never exempt ----
        for fl in flavours:
            o = outs[fl][0][i]
            if o and "OVERRUN=" in o:
                ctx.violation("the library writes past the end of the caller's output row (%s build): %s" % (fl, o[o.index("OVERRUN="):][:120]),
                              {"case": rline, "pass_as_L_line": line, "flavour": fl, "impl": o[:1500]}, signature="overrun:" + ("tj" if is_tj else "lib"))
                break
        # ---- property-level oracle (independent of the model) ----
        pbad = (py_oracle_tj if is_tj else py_oracle_lib)(line, ihead, px)
        mixed = bool(hz and band)      # a skip hazard AND the block-smoothing left-edge band: pixel differences cannot be attributed
        if px is not None and px.startswith("bad") and not mixed:
            pbad.append(("px", "delivered pixels differ from the full decode: " + px[:120]))
        if mixed:
            ctx.count("mixed-hazards-px-not-judged", 1, None)
        for knd, msg in pbad:
            # a failure is a KNOWN hazard only when the model predicts this very history to go wrong through one of
            # its hazard mechanisms AND the implementation's observable behaviour equals the model's prediction
            nosm = lambda h: re.sub(r" sm=\d", "", h or "")
            if knd == "error-during-ops" and hz in HAZ and over and (mhead or "").startswith(ihead[:-4]):
                # the model predicts a read past the last iMCU row in this hazardous history; the multi-scan coefficient
                # controller then fails with a virtual-array access error
                ctx.violation(msg, {"case": rline, "pass_as_L_line": line, "impl": impl[:1500], "model_hazard": hz}, signature=HAZ[hz])
                continue
            if hz and knd in ("scanline", "skip-return") and ihead == mhead:
                sig = HAZ[hz]
            elif hz and knd == "px" and (same or (over and ihead == mhead)):
                # (when the model predicts a read past the last iMCU row the pixels of the rows after it are whatever the
                # entropy decoder / coefficient arrays yield: only the scheduling observations are compared)
                sig = HAZ[hz]
            elif haz8 and knd == "px" and nosm(ihead) == nosm(mhead):
                # an earlier output pass skipped to the bottom: jpeg_skip_scanlines set eoi_reached, this pass shows an older scan
                sig = HAZ[8]
            elif band and not hz and knd == "px" and ihead == mhead and cols_within(px, band):
                # block smoothing + crop with its left edge inside the image: the model (smooth_cols, hazard 7) predicts
                # that exactly the first two block columns of the region are smoothed with replicated neighbours
                sig = HAZ[7]
            else:
                sig = knd + ":" + ("tj" if is_tj else "lib")
            ctx.violation(msg, {"case": rline, "pass_as_L_line": line, "impl": impl[:1500], "model": (mlines[i] if mlines else "")[:1500], "model_hazard": hz},
                          signature=sig)
        # ---- all builds agree ----
        for fl in flavours[1:]:
            o = outs[fl][0][i]
            if o is not None and not o.startswith("<crash") and o != ref[i] and ref[i] is not None and not ref[i].startswith("<crash"):
                # the floating-point IDCT is not bit-exact between the SIMD and the C build: only the scheduling
                # observations and the pixel verdict are compared across builds for JDCT_FLOAT
                if not is_tj and line.split("|")[1].split()[2] == "2":
                    ca, cb = canon_impl(o), canon_impl(ref[i])
                    if ca[0] == cb[0] and (ca[2] or "")[:2] == (cb[2] or "")[:2]:
                        continue
                ctx.violation("builds disagree (%s vs %s)" % (flavours[0], fl), {"case": rline, flavours[0]: ref[i][:800], fl: o[:800]},
                              signature=(HAZ[5] if hz == 5 else "build-disagree:" + ("tj" if is_tj else "lib")))
        # ---- model correspondence ----
        if same is False and hz != 5 and not (band and mhead == ihead) and not haz8:
            disagree += 1
            if hz and not pbad:
                ctx.broken_tie("model-stale:hazard%d" % hz,
                               "the model (faithful to the code the theorems were proved about) predicts a failure of class %s "
                               "but the implementation now behaves like a full decode on: %s" % (HAZ[hz], line[:300]))
            elif not pbad:
                if disagree <= 3:
                    ctx.log("model/impl disagree\n  case :", line[:300], "\n  model:", (mlines[i] if mlines else "")[:400], "\n  impl :", impl[:400])
                ctx.broken_tie("correspondence:" + ("tj" if is_tj else "lib"),
                               "model and implementation differ on: %s || model=%s || impl=%s" % (line[:300], (mlines[i] if mlines else "")[:300], impl[:300]))
        key = re.sub(r" \| prov.*", "", ihead)[:400]
        ctx.count(stream, 1, key)
        if i % 499 == 0:
            ctx.sample({"case": line[:300], "impl": impl[:300], "hazard": hz})
    if mlines is not None:
        ctx.cov["traces_validated_against_impl"] = len(cases)
    ctx.cov["model_impl_disagreements"] = disagree
    ctx.cov["rule"] = ("JPEGs made by the real encoder (gray/444/422/420/440/411/441 + unusual factors + 4-component, baseline / progressive / "
                       "non-interleaved multi-scan, Huffman/arithmetic, 8/12-bit, restart intervals) x scale 1..16 eighths x fancy/fast upsampling x "
                       "islow/ifast/float x 1-pass quantisation x output colour spaces x valid and invalid crop regions x op lists aimed at the case "
                       "splits of jpeg_skip_scanlines (0/1/2 rows before an iMCU boundary, k*L-1/k*L/k*L+1, odd counts, several skips, past the "
                       "bottom, reads beyond the bottom); TurboJPEG regions (valid/misaligned/oversize/negative) at all 16 factors; three builds "
                       "(simd, plain, asan+ubsan); a case is distinct when its canonical observation line is distinct")
    ctx.assume += [
        "correspondence is differential testing of the hand model against the real functions; it supports the tie, not the theorem",
        "a delivered row is abstracted to its provenance; that the IDCT/upsampling/colour kernels are functions of exactly those input "
        "rows is read off the C and checked by the pixel comparison against a fresh full decode",
        "colour quantisation only with dither_mode = JDITHER_NONE (Floyd-Steinberg / ordered dithering carry state across rows by design)",
        "context (fancy h2v2/h1v2) main controller: executable model + correspondence only, no theorem",
    ]
