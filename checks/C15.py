"""C15 -- independent instances may be used concurrently from different threads.

1. translator  : tools/gen_Globals.py dumps the clang AST of EVERY library translation unit of
                 the current tree (list taken from the ninja build) and classifies every object
                 with static storage duration, every write/escape site, every use of process-global
                 libc state; .asm files: data outside SEG_TEXT/SEG_CONST   -> coq/gen/GenGlobals.v
2. proofs      : coq/props/C15.v -- generic noninterference over all interleavings (induction),
                 globals_are_benign / env_sites over the regenerated inventory (vm_compute)
3. cross-check : every writable / TLS data symbol of the built libjpeg.a / libturbojpeg.a (readelf)
                 must be an inventory entry of the matching class (validates the translator against
                 the compiler's view, incl. the NASM objects)
4. runtime     : harness/c15.c, tsan flavour: 8 threads x random operation mixes on their own
                 instances, concurrent run first (first-use initialisation races), then each list
                 solo; oracles: ThreadSanitizer silent, concurrent log == solo log, error strings
                 carry the instance's own failure marker.  Also run un-instrumented (simd flavour).
"""
import json
import os
import re

from vlib import core
from vlib.core import sh2

PF = list(range(12))          # TJPF_RGB .. TJPF_CMYK
PF_RGBLIKE = [0, 1, 2, 3, 4, 5, 7, 8, 9, 10]
SS = [0, 1, 2, 3, 4, 5]       # 444 422 420 GRAY 440 411
TJXOP = list(range(8))


def gen_thread(rng, tid, nops, big, avoid=()):
    """one thread's operation list (strings); only its own handles/slots"""
    ops = []
    lim = 160 if big else 48

    def dim():
        return rng.choice([1, 7, 8, 15, 16, 17, 31, 33, rng.range(1, lim), rng.range(1, lim)])
    # handles: 0 compress, 1 decompress, 2 transform; created first so that creation races
    first = rng.shuffle([0, 1, 2])
    use_pre = rng.chance(1, 3)
    for h in first:
        if use_pre and h == first[0]:
            ops.append("usepre %d %d" % (h, h))
        else:
            ops.append("init %d %d" % (h, h))
    marker = 0
    have = set()
    # Steering around reported-but-undecided findings (names of corpus/C15/*.pending that still fail, see
    # pending_findings).  "merged12_odd_height" (F-C15-1, fixed): slots holding a 12-bit lossy 4:2:0 JPEG were not
    # decoded with FASTUPSAMPLE; "errstr_two_instances" (F-C15-2, fixed): no cross-instance query.  Both are
    # regression cases in corpus/C15 now, so nothing is steered around at present.
    risky = set()
    def limits():
        """(scan limit, memory limit in MB) for decode/transform calls: mostly none"""
        sl = rng.choice([1, 2, 3, 5, 9, 10, 11, 500]) if rng.chance(1, 4) else 0
        mm = rng.choice([1, 1, 2, 4, 16]) if rng.chance(1, 5) else 0
        return sl, mm
    for k in range(nops):
        r = rng.below(100)
        if r < 18:
            prec = rng.choice([8, 8, 8, 8, 12, 16])
            fl = rng.below(64) | (rng.below(7) << 8) | (rng.below(3) << 12)
            if prec == 16:
                fl |= 8
            if prec != 8:
                fl &= ~4 if rng.chance(1, 2) else fl
            pf = rng.choice(PF_RGBLIKE + [6] if not (fl & 8) else PF_RGBLIKE + [6])
            ss = rng.choice(SS) if pf != 6 else 3
            slot = rng.below(4)
            mm = rng.choice([1, 2, 8]) if rng.chance(1, 7) else 0
            ops.append("comp 0 %d %d %d %d %d %d %d %d %d %d" % (slot, prec, dim(), dim(), pf, ss, rng.range(1, 100), fl, rng.below(1 << 30), mm))
            have.add(slot)
            if prec == 12 and not (fl & 8) and ss == 2:
                risky.add(slot)
            else:
                risky.discard(slot)
        elif r < 34:
            slot, dfl = rng.below(4), rng.below(8)
            if "merged12_odd_height" in avoid and slot in risky:
                dfl &= ~1
            ops.append("decomp %d %d %d %d %d %d %d" % ((rng.choice([1, 1, 2]), slot, rng.choice(PF), rng.below(16), dfl) + limits()))
        elif r < 37:
            # nested use: tj3Transform whose custom filter calls TurboJPEG on another instance of this thread
            ops.append("nested 2 %d %d %d %d %d" % (rng.below(4), rng.below(2), rng.below(9), rng.below(3), rng.choice(TJXOP)))
        elif r < 41:
            xs, xd = rng.below(4), rng.below(4)
            ops.append("xform 2 %d %d %d %d %d %d" % ((xs, xd, rng.choice(TJXOP), rng.choice([0, 0, 1, 2, 8, 16, 32, 64, 1 | 16])) + limits()))
            if xs != xd and xs in risky:
                risky.add(xd)        # never cleared here: the harness leaves xd alone when the source is empty
        elif r < 45:
            yseed = rng.below(1 << 30)
            ops.append("yuvenc 0 %d %d %d %d %d" % (dim(), dim(), rng.choice(PF_RGBLIKE), rng.choice(SS), yseed))
        elif r < 48:
            ops.append("yuvdec 1 %d %d" % (rng.below(4), rng.choice(PF_RGBLIKE)))
        elif r < 51:
            ops.append("planes %d %d %d %d %d %d" % (dim(), dim(), rng.choice(PF_RGBLIKE), rng.choice(SS), rng.below(1 << 30), rng.below(4)))
        elif r < 55:
            ops.append("crop %d %d %d %d %d %d %d %d" % (rng.choice([1, 2]), rng.below(4), rng.choice(PF_RGBLIKE), rng.below(64), rng.below(256),
                                                        rng.below(256), rng.below(256), rng.below(16)))
        elif r < 57:
            ops.append("icc %d %d %d %d" % (rng.choice([1, 100, 3000, 65519, 65520, 69000]), rng.below(1 << 30), dim(), dim()))
        elif r < 60:
            prec = rng.choice([8, 8, 12, 16])
            ops.append("file %d %d %d %d %d %d %d" % (rng.below(3), prec, dim(), dim(), rng.choice([0, 1, 6, 7, 8, 9, 10]), rng.below(1 << 30), rng.below(2)))  # no X-padded formats: the pad byte is unspecified
        elif r < 65:
            ops.append("ljdec %d %d %d %d" % (rng.below(4), rng.below(4), rng.choice([0, 6, 14, 62, 254, rng.below(255)]), rng.below(3)))
        elif r < 68:
            ops.append("ljcomp %d %d %d %d %d %d" % (rng.below(4), dim(), dim(), rng.range(1, 100), rng.below(64), rng.below(1 << 30)))
        elif r < 75:
            marker += 1
            b0 = (tid * 8 + 1 + (marker >> 8)) & 0xFF
            if b0 == 0xFF:
                b0 = 0x7E
            ops.append("badhdr %d %d %d" % (rng.choice([1, 2]), b0, marker & 0xFF))
        elif r < 79:
            ops.append("trunc 1 %d %d %d" % (rng.below(4), rng.below(100), rng.choice(PF_RGBLIKE)))
        elif r < 83:
            ops.append("badarg %d %d" % (rng.below(3), rng.below(4)))
        elif r < 85:
            ops.append("geterr %d" % rng.below(3))
        elif r < 87:
            # cross-instance ownership query (not generated while the pending finding errstr_two_instances still fails)
            ops.append(("geterr %d" if "errstr_two_instances" in avoid else "ownerr %d") % rng.below(3))
        elif r < 88:
            ops.append("gerr")
        elif r < 93:
            ops.append("helper %d %d %d %d" % (rng.below(7), rng.range(1, 4000), rng.range(1, 4000), rng.below(64)))
        elif r < 95:
            ops.append("legacy %d %d %d %d %d %d" % (dim(), dim(), rng.choice(PF_RGBLIKE), rng.choice(SS), rng.range(1, 100), rng.below(1 << 30)))
        elif r < 97:
            h = rng.below(3)
            ops.append("destroy %d" % h)
            ops.append("init %d %d" % (h, h))
        elif r < 99:
            ops.append("set %d %d %d" % (rng.below(3), rng.choice([1, 2, 3, 4, 9, 10, 11, 13, 14, 23, 24]), rng.range(-2, 120)))
        else:
            ops.append("yield %d" % rng.below(300))
    return ["%d %s" % (tid, o) for o in ops]


def gen_program(rng, nthreads, nops, big, avoid=()):
    lines = []
    for t in range(nthreads):
        lines += gen_thread(rng.fork(), t, nops, big, avoid)
    return lines


def pending_findings(ctx):
    """corpus/C15/*.pending: deterministic single-thread repros of defects reported to the lead (design/C15.md,
    Findings) and not decided yet.  Each is replayed under ASan on every run.  Still failing + listed in
    KNOWN_FINDINGS.txt (or VERIF_C15_REPORT_PENDING=1) -> reported as a violation (a listed one shows as
    KNOWN-FINDING); still failing + not listed -> recorded in the evidence notes only (hard rule: never alarm on the
    unchanged tree before the lead has decided); passing -> fixed: the random stream stops steering around it.
    Returns the set of names that still fail."""
    cdir = os.path.join(core.VERIF, "corpus", "C15")
    still = set()
    if not os.path.isdir(cdir):
        return still
    for fn in sorted(os.listdir(cdir)):
        if not fn.endswith(".pending"):
            continue
        name = fn[:-len(".pending")]
        lines = [l.strip() for l in open(os.path.join(cdir, fn)) if l.strip()]
        try:
            exe = ctx.cc("c15", ["c15.c"], "asan")
        except core.BuildError:
            still.add(name)
            continue
        rc, out, err = sh2([exe], input=("\n".join(lines) + "\n").encode(), timeout=300,
                           env={"ASAN_OPTIONS": "detect_leaks=0 abort_on_error=0"})
        sig, what = parse_asan(err)
        if not sig:
            for l in out.decode("utf-8", "replace").split("\n"):
                if re.match(r"T\d+ (OWN|OWNSOLO)", l):
                    sig, what = ("errstr-cross-instance" if "cross-instance" in l else "errstr-ownership:asan"), l[:300]
                    break
                if re.match(r"T\d+ DIFF", l):
                    sig, what = "solo-diff:asan", l[:300]
                    break
        ctx.count("pending-repro", 1, fn)
        if not sig:
            ctx.notes.append("pending finding %s no longer reproduces on this tree (fixed): make it a corpus .txt" % fn)
            continue
        still.add(name)
        listed = any(k["kind"] == "known" and k["sig"] and k["sig"] in sig for k in ctx.known)
        if listed or os.environ.get("VERIF_C15_REPORT_PENDING"):
            ctx.violation("deterministic single-thread repro %s: %s" % (fn, what),
                          {"program": lines, "env": {}, "flavour": "asan", "asan_report": err[-2500:]}, signature=sig)
        else:
            ctx.log("pending finding reproduced (%s: %s); not listed in KNOWN_FINDINGS.txt yet, recorded in the evidence only" % (fn, sig))
            ctx.notes.append("PENDING FINDING reproduced on this tree: %s -> %s (%s); see design/C15.md Findings" % (fn, sig, what))
    return still


ENVS = [{}, {"JSIMD_FORCESSE2": "1"}, {"JSIMD_FORCENONE": "1"}, {"JSIMD_NOHUFFENC": "1"}, {"JSIMD_FORCEAVX2": "1"}]


def parse_tsan(err):
    """first ThreadSanitizer report -> short signature + text"""
    m = re.search(r"WARNING: ThreadSanitizer: ([^\n(]+)", err)
    if not m:
        return None, None
    kind = m.group(1).strip()
    blk = err[m.start():m.start() + 3500]
    loc = re.search(r"Location is (global|thread-local variable|TLS|heap block|stack)[^\n]*?'([^']+)'", blk)
    where = "%s %s" % (loc.group(1), loc.group(2)) if loc else ""
    fn = re.search(r"#0 (\S+)", blk)
    return "tsan:%s:%s:%s" % (kind.replace(" ", "-"), where.replace(" ", "-"), fn.group(1) if fn else "?"), blk


def parse_asan(err):
    if "ERROR: AddressSanitizer" not in err and "runtime error:" not in err:
        return None, None
    m = re.search(r"SUMMARY: AddressSanitizer: (\S+) \S*?([\w.-]+):(\d+) in (\w+)", err)
    if m:
        fn = re.sub(r"^ext[a-z0-9]+_", "", m.group(4))
        fn = re.sub(r"_internal$", "", fn)
        return "seq-memory:%s" % fn, "%s at %s:%s in %s" % (m.group(1), m.group(2), m.group(3), m.group(4))
    m = re.search(r"([\w.-]+):(\d+):\d+: runtime error: ([^\n]*)", err)
    if m:
        return "seq-ub:%s" % m.group(1), m.group(0)
    return "seq-memory:unknown", err[-300:]


# wall-clock limits (s) of one harness process; a normal program needs < 2 s (tsan < 10 s) even on a loaded machine
LIMIT = {"tsan": 150, "simd": 90, "asan": 120}
HANGS = {}


def run_limited(cmd, inp, env, limit):
    """like core.sh2 but keeps what the process wrote before it was killed at the limit"""
    import subprocess
    e = dict(os.environ)
    e.update(env or {})
    p = subprocess.Popen(cmd, stdin=subprocess.PIPE, stdout=subprocess.PIPE, stderr=subprocess.PIPE, env=e)
    try:
        out, err = p.communicate(inp, timeout=limit)
        return p.returncode, out, err.decode("utf-8", "replace")
    except subprocess.TimeoutExpired:
        p.kill()
        out, err = p.communicate()
        return -9, out or b"", (err or b"").decode("utf-8", "replace")


def confirm_sequential(ctx, lines, env):
    """A ThreadSanitizer report whose other side is malloc/free (heap block reuse), or a crash, may be an ordinary
    single-thread memory-safety defect that merely lands in another thread's memory.  Run every thread's list ALONE
    under ASan+UBSan: an error there is schedule-independent."""
    try:
        exe = ctx.cc("c15", ["c15.c"], "asan")
    except core.BuildError:
        return None
    tids = sorted(set(int(l.split()[0]) for l in lines))
    import time
    t_end = time.time() + 240          # total budget of the per-thread re-runs
    for t in tids:
        if time.time() > t_end:
            break
        own = ["0 " + l.split(" ", 1)[1] for l in lines if int(l.split()[0]) == t]
        e = dict(env)
        e["ASAN_OPTIONS"] = "detect_leaks=0 abort_on_error=0"
        rc, out, err = run_limited([exe], ("\n".join(own) + "\n").encode(), e, 60)
        if rc == -9:
            return "seq-hang:solo", "a single thread's own operation list does not terminate (60 s) when run alone under ASan", own, err[-500:]
        sig, what = parse_asan(err)
        if sig:
            return sig, what, own, err[-2500:]
    return None


OPDIST = {}


def run_program(ctx, exe, flavour, lines, env, tag):
    for l in lines:
        f = l.split()
        key = f[1]
        if f[1] in ("decomp", "xform") and len(f) >= 8:
            key += "+scanlimit" if f[-2] != "0" else ""
            key += "+maxmem" if f[-1] != "0" else ""
        if f[1] == "comp" and len(f) >= 13 and f[-1] != "0":
            key += "+maxmem"
        OPDIST[key] = OPDIST.get(key, 0) + 1
    inp = ("\n".join(lines) + "\n").encode()
    e = dict(env)
    if flavour == "tsan":
        e["TSAN_OPTIONS"] = "halt_on_error=1 exitcode=66 second_deadlock_stack=1 report_signal_unsafe=0"
    if flavour == "asan":
        e["ASAN_OPTIONS"] = "detect_leaks=0 abort_on_error=0"
    tmpd = os.path.join(core.BUILD, "c15tmp")
    os.makedirs(tmpd, exist_ok=True)
    e["C15_TMP"] = tmpd
    e["C15_EVENTS"] = "1"
    if flavour == "simd":
        e["C15_ISOLATE"] = "1"
    if flavour == "simd" and WATCH.get("file"):
        e["C15_WATCH"] = WATCH["file"]
        e["C15_WATCH_POLL"] = "1"
    if HANGS.get(flavour, 0) >= 2:
        ctx.count("skipped-after-hangs-" + flavour, 1, None)      # every further program would cost the full limit
        return {"rc": None, "ok": False}
    rc, out, err = run_limited([exe], inp, e, LIMIT.get(flavour, 120))
    text = out.decode("utf-8", "replace")
    res = {"rc": rc, "ok": True}
    replay = {"program": lines, "env": env, "flavour": flavour}
    if rc == -9:
        HANGS[flavour] = HANGS.get(flavour, 0) + 1
        sig0, blk0 = parse_tsan(err)
        phase = "concurrent" if "EV " not in text else ("isolation" if " ISO " in text else "solo")
        ctx.violation("the harness did not terminate within %d s (%s build, %s phase, %d threads on their own instances): a library call "
                      "hangs%s" % (LIMIT.get(flavour, 120), flavour, phase, len(set(x.split()[0] for x in lines)),
                                   " after " + sig0 if sig0 else ""),
                      dict(replay, stdout_tail=text[-1500:], stderr_tail=err[-1500:]), signature="hang:%s:%s" % (phase, flavour))
        res["ok"] = False
        return res
    sig, blk = parse_tsan(err)
    asig, awhat = parse_asan(err) if flavour == "asan" else (None, None)
    crashed = (rc != 0 or "DONE" not in text)
    mi = re.search(r"ISOLATION tid=(\d+) op=(\d+) name=(\S+) (.*)", text)
    if mi:
        own = [x for x in lines if x.split()[0] == mi.group(1)]
        ctx.violation("an API call touched heap memory of ANOTHER instance (heap isolation: every instance's allocations live in its own "
                      "arena, the other arenas are PROT_NONE during the call): thread %s operation #%s `%s` %s; operation line: %s"
                      % (mi.group(1), mi.group(2), mi.group(3), mi.group(4), own[int(mi.group(2))] if int(mi.group(2)) < len(own) else "?"),
                      dict(replay, line=mi.group(0)), signature="seq-memory:isolation")
        res["ok"] = False
        return res
    if asig:
        ctx.violation("memory-safety defect in a single thread's own operation list (schedule-independent): " + awhat,
                      dict(replay, asan_report=err[-2500:]), signature=asig)
        res["ok"] = False
        return res
    if sig or crashed:
        seq = confirm_sequential(ctx, lines, env)
        if seq:
            ssig, what, own, rep = seq
            ctx.violation("memory-safety defect in a single thread's own operation list (schedule-independent; in the threaded run the "
                          "stray access landed in another thread's memory: %s): %s" % (sig or "crash rc=%d" % rc, what),
                          {"program": own, "env": env, "flavour": "asan", "asan_report": rep, "threaded_program": lines,
                           "threaded_report": (blk or err[-1500:])}, signature=ssig)
            res["ok"] = False
            return res
    if sig:
        ctx.violation("ThreadSanitizer: conflicting access between threads using only their own instances (%s, %s build, env %s)"
                      % (sig, flavour, env), dict(replay, tsan_report=blk), signature=sig)
        res["ok"] = False
        return res
    if crashed:
        ctx.violation("harness crashed/aborted during a threaded run (%s build, rc=%d): %s" % (flavour, rc, err[-300:]),
                      dict(replay, stderr=err[-2000:]), signature="crash:%s:rc%d" % (flavour, rc))
        res["ok"] = False
        return res
    correspond(ctx, text, replay, flavour)
    for l in text.split("\n"):
        mi2 = re.match(r"T(\d+) ISO (OK|DIFF)", l)
        if mi2:
            if mi2.group(2) == "OK":
                ctx.count("isolated-" + tag, 1, None)
            else:
                ctx.violation("a thread's operation list gives a different log when every instance's heap is isolated from the others: " + l,
                              dict(replay, line=l), signature="seq-memory:isolation-diff")
                res["ok"] = False
            continue
        mw = re.match(r"WATCH (\S+) (.*)", l)
        if mw:
            ctx.violation("process-wide static-storage object `%s` of the library (inventory: never written) changed its value while %d threads "
                          "ran operations on their own instances: shared mutable state (%s)" % (mw.group(1), len(set(x.split()[0] for x in lines)), mw.group(2)),
                          dict(replay, line=l), signature="static-written:" + mw.group(1))
            res["ok"] = False
            continue
        m = re.match(r"T(\d+) (OK|DIFF|OWN|OWNSOLO)(.*)", l)
        if not m:
            continue
        if m.group(2) == "OK":
            ctx.count(tag, 1, l.split("h=")[-1])
        elif m.group(2) == "DIFF":
            what = re.search(r"solo=\[\d+ (\S+)", l)
            ctx.violation("an operation run concurrently with other threads' operations on other instances gives a different result than run alone: " + l[:400],
                          dict(replay, line=l), signature="solo-diff:%s:%s" % (flavour, what.group(1) if what else "?"))
            res["ok"] = False
        else:
            cross = "cross-instance" in l
            ctx.violation("error string/code retrieved for an instance does not belong to that instance's own last failure: " + l[:400],
                          dict(replay, line=l), signature="errstr-cross-instance" if cross else "errstr-ownership:" + flavour)
            res["ok"] = False
    return res


WATCH = {}
DRIVER = {}
CORR = {"traces": 0, "queries": 0, "events": 0, "nontrivial_queries": 0}


def correspond(ctx, text, replay, flavour):
    """model-vs-implementation: the harness logs, for the concurrent phase, every error-state event with a global
    sequence number (N new instance, C call completed, F call failed with message, T thread-local string set,
    G/Q queries with the string returned).  The extracted thread-model replay (ErrState.lreplay) runs the merged
    sequence and must predict the string every query returned."""
    evs = []
    for l in text.split("\n"):
        if l.startswith("EV "):
            f = l.split(" ", 6)
            if len(f) >= 6:
                evs.append((int(f[1]), int(f[2]), f[3], int(f[4]), f[6] if len(f) > 6 else "", int(f[5])))
    if not evs or not DRIVER.get("exe"):
        return
    evs.sort()
    ids = {"No error": 0}
    items, observed, trivial = [], [], []
    last_fail = {}
    citems, cobs = [], []
    for seq, tid, kind, H, msg, code in evs:
        # error-code trace (ErrCode.lcreplay): TJERR_WARNING = 0, TJERR_FATAL = 1
        if kind in "NCFK":
            citems.append("%d %s %d %d" % (tid, kind, tid * 4 + max(H, 0), 1 if (kind == "F" and code == 0) else 0))
            if kind == "K":
                cobs.append((code, tid, H, seq))
        if kind == "K":
            continue
        m = ids.setdefault(msg, len(ids)) if kind in "FTGQ" else 0
        inst = tid * 4 + max(H, 0)
        items.append("%d %s %d %d" % (tid, kind, inst, m))
        if kind in "GQ":
            observed.append((m, tid, kind, H, msg, seq))
            trivial.append(last_fail.get(tid) == (inst if kind == "G" else -1))
        last_fail[tid] = inst if kind == "F" else (-1 if kind == "T" else None)
    rc, out, err = sh2([DRIVER["exe"]], input=("|".join(items) + "\nK|" + "|".join(citems) + "\n").encode(), timeout=600)
    olines = out.decode().split("\n")
    pred = olines[0].split() if olines else []
    cpred = olines[1].split() if len(olines) > 1 else []
    if rc == 0 and len(cpred) == len(cobs):
        for p_, o_ in zip(cpred, cobs):
            CORR["code_queries"] = CORR.get("code_queries", 0) + 1
            if int(p_) != o_[0]:
                ctx.violation("error-code model and implementation disagree: thread %d tj3GetErrorCode on instance slot %d (event %d) returned %d, "
                              "the model (code of the instance's own most recent failing call: 0 = TJERR_WARNING, 1 = TJERR_FATAL) predicts %s"
                              % (o_[1], o_[2], o_[3], o_[0], p_), dict(replay, code_events=citems[:4000]), signature="errcode-model:" + flavour)
                return
    elif rc == 0:
        ctx.broken_tie("model-driver", "extracted code replay: %d predictions for %d queries" % (len(cpred), len(cobs)))
    CORR["traces"] += 1
    CORR["events"] += len(items)
    if rc != 0 or len(pred) != len(observed):
        ctx.broken_tie("model-driver", "extracted replay failed: rc=%d, %d predictions for %d queries %s" % (rc, len(pred), len(observed), err[-200:]))
        return
    rev = {v: k for k, v in ids.items()}
    for p, o, tr in zip(pred, observed, trivial):
        CORR["queries"] += 1
        CORR["nontrivial_queries"] += 0 if tr else 1
        if int(p) != o[0]:
            what = ("error-state model and implementation disagree: thread %d %s on instance slot %d (event %d) returned \"%s\", the model "
                    "(message of the instance's own last failure, else the thread's last message) predicts \"%s\"" %
                    (o[1], "tj3GetErrorStr(handle)" if o[2] == "G" else "tj3GetErrorStr(NULL)", o[3], o[5], o[4], rev.get(int(p), "?")))
            # a query that does not return the instance's / thread's own last message IS the property clause: concrete violation
            ctx.violation(what, dict(replay, events=items[:4000]), signature="errstr-model:" + flavour)
            return


def make_watch_list(ctx, exe):
    """addresses (in the non-PIE un-instrumented harness) of every writable non-TLS data symbol the archives define
    (names from the regenerated gen/GenGlobalsBin.v): the harness snapshots them before the first library call and
    reports any change while / after the threads run"""
    try:
        txt = open(os.path.join(core.COQ, "gen", "GenGlobalsBin.v")).read()
    except OSError:
        return
    names = set(m.group(1) for m in re.finditer(r'mk_bsym "([^"]+)" "[^"]*" (Data|Bss|OtherW) ', txt))
    rc, out, err = sh2(["nm", "-S", "--defined-only", exe], timeout=120)
    rows = []
    for l in out.decode("utf-8", "replace").split("\n"):
        f = l.split()
        if len(f) == 4 and f[2] in "bBdD" and f[3].split(".")[0] in names:
            rows.append("%s %s %d" % (f[3], f[0], int(f[1], 16)))
    path = exe + ".watch"
    open(path, "w").write("\n".join(rows) + "\n")
    WATCH["file"] = path if rows else None
    WATCH["n"] = len(rows)
    ctx.cov["watched_static_objects"] = [r.split()[0] for r in rows]


def parse_inventory(path):
    """entries of coq/gen/GenGlobals.v -> list of dicts (for diagnostics and the binary cross-check)"""
    ents = []
    try:
        txt = open(path).read()
    except OSError:
        return ents
    for m in re.finditer(r'mk_gvar "((?:[^"]|"")*)" "([^"]*)" "([^"]*)" "([^"]*)" "((?:[^"]|"")*)" (\d+) \[[^\]]*\] (\(?\w+)', txt):
        ents.append({"name": m.group(1), "file": m.group(2), "fn": m.group(3), "link": m.group(4), "type": m.group(5),
                     "cls": m.group(7).lstrip("("), "text": txt[m.start():txt.find("\n", m.start())][:600]})
    return ents


ALLOW = {("src/turbojpeg.c", "_tjInitCompress", "buffer")}


EXPECTED_ENV = [
    ("GETENV_S", "simd/x86_64/jsimd.c", "init_simd", "JSIMD_FORCEAVX2", ""),
    ("GETENV_S", "simd/x86_64/jsimd.c", "init_simd", "JSIMD_FORCENONE", ""),
    ("GETENV_S", "simd/x86_64/jsimd.c", "init_simd", "JSIMD_FORCESSE2", ""),
    ("GETENV_S", "simd/x86_64/jsimd.c", "init_simd", "JSIMD_NOHUFFENC", ""),
    ("GETENV_S", "src/jmemmgr.c", "jinit_memory_mgr", "JPEGMEM", ""),
    ("PUTENV_S", "src/turbojpeg.c", "processFlags", "JSIMD_FORCEMMX", "flags & TJFLAG_FORCEMMX"),
    ("PUTENV_S", "src/turbojpeg.c", "processFlags", "JSIMD_FORCESSE", "flags & TJFLAG_FORCESSE"),
    ("PUTENV_S", "src/turbojpeg.c", "processFlags", "JSIMD_FORCESSE2", "flags & TJFLAG_FORCESSE2"),
    ("getenv", "src/jinclude.h", "GETENV_S", "", ""),
    ("setenv", "src/jinclude.h", "PUTENV_S", "", ""),
]
ENV_FUNCS = {"setenv", "putenv", "unsetenv", "clearenv", "_putenv_s", "PUTENV_S", "getenv", "secure_getenv", "getenv_s", "GETENV_S"}
OTHER_LIBC = {("exit", "error_exit"), ("stderr", "output_message")} | {("strerror", "tj3%sImage%d" % (a, b))
                                                                      for a in ("Load", "Save") for b in (8, 12, 16)}


def diagnose(ctx, ents, gen_path):
    """name the generated facts that make the theorems fail (for the log and the replay file);
    mirrors the boolean judgements of model/Globals.v + proofs/GlobalsProofs.v"""
    bad = []
    txt = open(gen_path).read()
    for e in ents:
        k = (e["file"], e["fn"], e["name"])
        if e["cls"] in ("MutableWritten", "AddressEscapes") and k not in ALLOW:
            bad.append("%s %s%s in %s : %s" % (e["cls"], e["name"], ("@" + e["fn"]) if e["fn"] else "", e["file"], e["text"][-300:]))
        elif e["cls"] == "MutableWritten":
            bad.append("allow-listed object is now written: " + e["text"][-300:])
    for m in re.finditer(r'mk_esc "([^"]*)" "([^"]*)" "([^"]*)" \[([^\]]*)\] \[([^\]]*)\] \((-?\d+)\) \[([^\]]*)\]', txt):
        name, f, fn, direct, alias, fnb, callees = m.groups()
        if (f, fn, name) not in ALLOW:
            continue
        why = []
        d = re.findall(r'"([^"]*)"', direct)
        if len(d) != 1 or not d[0].startswith("init-local:"):
            why.append("direct uses %s (expected exactly one init-local)" % d)
        if int(fnb) != 0:
            why.append("%s itself has %s byte lvalues" % (fn, fnb))
        au = re.findall(r'\("([^"]*)", "([^"]*)"\)', alias)
        cs = {c: (int(a), int(b)) for c, a, b in re.findall(r'\("([^"]*)", \((-?\d+)\), \((-?\d+)\)\)', callees)}
        if not au:
            why.append("no alias use recorded")
        for l, how in au:
            mm = re.match(r"addr-arg\d:(.+)$", how)
            if not mm or cs.get(mm.group(1)) != (0, 0):
                why.append("alias %s used as %s; callee summary (byte lvalues, byte-pointer args) = %s" % (l, how, cs.get(mm.group(1)) if mm else None))
        if why:
            bad.append("dummy buffer %s@%s no longer provably untouched: %s" % (name, fn, "; ".join(why)))
    tls = sorted((e["file"], e["name"]) for e in ents if e["cls"] == "Tls")
    exp = [("simd/x86_64/jsimd.c", "simd_huffman"), ("simd/x86_64/jsimd.c", "simd_support"), ("src/turbojpeg.c", "errStr")]
    if tls != exp:
        bad.append("thread-local objects are %s, expected %s" % (tls, exp))
    sites = [tuple(x.replace('""', '"') for x in m.groups()) for m in
             re.finditer(r'mk_libc "((?:[^"]|"")*)" "((?:[^"]|"")*)" "((?:[^"]|"")*)" "((?:[^"]|"")*)" "((?:[^"]|"")*)"', txt)]
    envs = [s for s in sites if s[0] in ENV_FUNCS]
    for s in envs:
        if s not in EXPECTED_ENV:
            bad.append("unexpected environment access: %s(%s) in %s (%s) guard [%s]" % (s[0], s[3], s[2], s[1], s[4]))
    for s in EXPECTED_ENV:
        if s not in envs:
            bad.append("expected environment access is gone: %s(%s) in %s" % (s[0], s[3], s[2]))
    for s in sites:
        if s[0] not in ENV_FUNCS and (s[0], s[2]) not in OTHER_LIBC:
            bad.append("new use of process-global libc state: %s in %s (%s)" % (s[0], s[2], s[1]))
    m = re.search(r"Definition env_writer_callers[^\[]*\[([^\]]*)\]", txt)
    if m:
        for c, f in re.findall(r'\("([^"]*)", "([^"]*)"\)', m.group(1)):
            if c.startswith("tj3") or f != "processFlags":
                bad.append("environment writer %s is now called from %s" % (f, c))
    m = re.search(r"Definition errstate_writes[^\[]*\[([^\]]*)\]", txt)
    mc = re.search(r"Definition errstate_calls[^\[]*\[([^\]]*)\]", txt)
    if m and mc:
        ws = re.findall(r'\("([^"]*)", "([^"]*)", "([^"]*)"\)', m.group(1))
        cs = re.findall(r'\("([^"]*)", "([^"]*)"\)', mc.group(1))
        for fn, fld, how in ws:
            if fn in ("tj3GetErrorStr", "tjGetErrorStr2", "tjGetErrorStr", "tj3GetErrorCode", "tjGetErrorCode", "tj3Get"):
                bad.append("error-state: query function %s writes this->%s (%s)" % (fn, fld, how))
            if fld == "isInstanceError" and how not in ("0", "1"):
                bad.append("error-state: %s assigns a non-literal to isInstanceError" % fn)
            if fld == "isInstanceError" and how == "1" and not any(f == fn and g == "errStr" for f, g, _ in ws):
                bad.append("error-state: %s raises isInstanceError without storing a message in the instance" % fn)
        if ("my_error_exit", "warning", "0") not in ws:
            bad.append("error-code: my_error_exit no longer clears jerr.warning (a fatal error must supersede an earlier warning)")
        if ("my_emit_message", "warning", "1") not in ws:
            bad.append("error-code: my_emit_message no longer sets jerr.warning for a libjpeg warning")
        for fn, fld, how in ws:
            if fld == "warning" and how == "1" and fn not in ("my_emit_message", "tj3GetICCProfile"):
                bad.append("error-code: %s sets jerr.warning" % fn)
            if fld == "isInstanceError" and how == "1" and fn != "set_instance_error" and not any(f == fn and g == "warning" for f, g, _ in ws):
                bad.append("error-code: %s records a failure without assigning jerr.warning" % fn)
        if ("my_output_message", "set_instance_error") not in cs:
            bad.append("error-state: my_output_message no longer records the libjpeg message in the instance (set_instance_error not called)")
        for c, f in cs:
            if f == "set_instance_error" and c != "my_output_message":
                bad.append("error-state: set_instance_error called from " + c)
    m = re.search(r"Definition asm_writable_data[^\[]*\[([^\]]*)\]", txt)
    if m and m.group(1).strip():
        bad.append("asm data outside SEG_TEXT/SEG_CONST: " + " ".join(m.group(1).split())[:300])
    return bad


def binary_crosscheck(ctx, lib, ents):
    """writable/TLS data symbols of the built archives vs the inventory"""
    by_name = {}
    for e in ents:
        by_name.setdefault(e["name"], []).append(e)
    n = 0
    for a in ("libjpeg.a", "libturbojpeg.a"):
        rc, out, err = sh2(["readelf", "-S", "-s", "-W", os.path.join(lib, a)], timeout=120)
        if rc != 0:
            ctx.broken_tie("binary-crosscheck", "readelf failed on %s: %s" % (a, err[-200:]))
            return
        member, secs = "", {}
        for l in out.decode("utf-8", "replace").split("\n"):
            m = re.match(r"File: .*\((.*)\)", l)
            if m:
                member, secs = m.group(1), {}
                continue
            m = re.match(r"\s*\[\s*(\d+)\]\s+(\S+)\s+(\S+)\s+\S+\s+\S+\s+([0-9a-f]+)\s+\S+\s+(\S*)\s", l)
            if m:
                fl = m.group(5) if not m.group(5).isdigit() else ""
                secs[m.group(1)] = (m.group(2), fl)
                if member.endswith(".asm.o") and "W" in fl and "A" in fl and int(m.group(4), 16) > 0:
                    ctx.broken_tie("binary-crosscheck", "NASM object %s(%s) has a writable data section %s of %d bytes"
                                   % (a, member, m.group(2), int(m.group(4), 16)))
                continue
            m = re.match(r"\s*\d+:\s+\S+\s+(\d+)\s+(OBJECT|TLS|NOTYPE)\s+(\S+)\s+\S+\s+(\d+)\s+(\S+)", l)
            if not m:
                continue
            size, typ, bind, shndx, sym = int(m.group(1)), m.group(2), m.group(3), m.group(4), m.group(5)
            sname, sflags = secs.get(shndx, ("?", ""))
            writable = "W" in sflags and "A" in sflags
            if typ == "NOTYPE" and not (writable and not sname.startswith(".note")):
                continue
            base = sym.split(".")[0]
            n += 1
            if typ == "TLS" or "T" in sflags:
                if not any(e["cls"] == "Tls" for e in by_name.get(base, [])):
                    ctx.broken_tie("binary-crosscheck", "TLS symbol %s of %s(%s) is not a Tls entry of the inventory" % (sym, a, member))
            elif writable and size > 0 and sname.startswith((".data.rel.ro",)):
                continue        # relocated read-only data (const pointer tables)
            elif writable and (size > 0 or typ == "NOTYPE"):
                cands = by_name.get(base, [])
                if not any(e["cls"] in ("MutableNeverWritten", "MutableWritten", "AddressEscapes") for e in cands):
                    ctx.broken_tie("binary-crosscheck", "writable data symbol %s (section %s) of %s(%s) is missing from the inventory or classed %s"
                                   % (sym, sname, a, member, [e["cls"] for e in cands]))
    ctx.cov["binary_symbols_checked"] = n


def run(ctx):
    import signal

    def _term(signum, frame):
        raise RuntimeError("check terminated by signal %d: reporting what was found so far" % signum)
    try:
        signal.signal(signal.SIGTERM, _term)      # `timeout` sends SIGTERM: let ./check reach ctx.finish()
    except ValueError:
        pass
    rng = ctx.rng
    lib = ctx.build_lib("simd")
    ctx.regen(["Globals", "GlobalsBin"])
    gen_path = os.path.join(core.COQ, "gen", "GenGlobals.v")
    ents = parse_inventory(gen_path)
    ok = ctx.prove()
    if not ok and ents:
        bad = diagnose(ctx, ents, gen_path)
        for b in bad[:6]:
            ctx.log("inventory:", b)
        if bad:
            ctx.broken_tie("inventory", "generated facts that break globals_are_benign / env_sites / source_errstate / source_errcode: " + " || ".join(bad[:6]))
    ctx.cov["inventory_entries"] = len(ents)
    ctx.cov["inventory_classes"] = {c: sum(1 for e in ents if e["cls"] == c) for c in sorted(set(e["cls"] for e in ents))}
    if ents:
        binary_crosscheck(ctx, lib, ents)

    exe_t = ctx.cc("c15", ["c15.c"], "tsan")
    exe_s = ctx.cc("c15np", ["c15.c"], "simd",
                   extra="-no-pie -DC15_WRAP -Wl,--wrap=malloc,--wrap=free,--wrap=calloc,--wrap=realloc")
    DRIVER["exe"] = ctx.model_driver()
    make_watch_list(ctx, exe_s)

    if ctx.replay:
        r = json.load(open(ctx.replay))
        if "program" in r:
            fl = r.get("flavour", "tsan")
            exe = exe_t if fl == "tsan" else (ctx.cc("c15", ["c15.c"], "asan") if fl == "asan" else exe_s)
            run_program(ctx, exe, fl, r["program"], r.get("env", {}), "replay")
        return
    # corpus first
    cdir = os.path.join(core.VERIF, "corpus", "C15")
    if os.path.isdir(cdir):
        for fn in sorted(os.listdir(cdir)):
            if not fn.endswith(".txt"):
                continue
            lines = [l.strip() for l in open(os.path.join(cdir, fn)) if l.strip()]
            run_program(ctx, exe_t, "tsan", lines, {}, "corpus")
            run_program(ctx, ctx.cc("c15", ["c15.c"], "asan"), "asan", lines, {}, "corpus-asan")
    avoid = pending_findings(ctx)
    nt = 8
    n_tsan = ctx.n(20, 150)
    for i in range(n_tsan):
        env = ENVS[i % len(ENVS)]
        lines = gen_program(rng.fork(), nt, ctx.n(30, 60), i % 2 == 1, avoid)
        run_program(ctx, exe_t, "tsan", lines, env, "tsan-threads")
        if i == 0:
            ctx.sample({"env": env, "program_head": lines[:12]})
    n_plain = ctx.n(20, 200)
    for i in range(n_plain):
        env = ENVS[i % len(ENVS)]
        lines = gen_program(rng.fork(), ctx.n(8, 16), ctx.n(80, 160), True, avoid)
        run_program(ctx, exe_s, "simd", lines, env, "simd-threads")
    ctx.cov["rule"] = ("programs of 8 (thorough: up to 16) threads x random operation lists (compress 8/12/16-bit lossy/lossless/progressive/"
                       "arithmetic/optimised/restart, decompress with scaling/pixel formats, transform, YUV encode/decode, failing header parses "
                       "with per-operation marker bytes, truncated streams, invalid arguments, error queries, instance-less helpers, legacy 2.x "
                       "calls with flags=0, destroy/re-create) on their own instances, under 5 SIMD environments; one evaluation = one thread's "
                       "list whose concurrent log equalled its solo log; distinct = distinct log hashes")
    ctx.cov["traces_validated_against_impl"] = CORR["traces"]
    ctx.cov["correspondence"] = dict(CORR)
    ctx.cov["op_distribution"] = dict(sorted(OPDIST.items()))
    ctx.assume += [
        "the noninterference theorem is about the footprint model; that the C text's dynamic footprint is what the generated inventory says "
        "(C15_partial hypothesis within_inventory) is trusted to the translator's syntactic write/escape analysis, cross-checked against the "
        "symbol tables of the built archives and supported by the ThreadSanitizer runs",
        "environment: read by init_simd/jinit_memory_mgr (getenv), written only by processFlags under the legacy TJFLAG_FORCE{MMX,SSE,SSE2} "
        "flags of the pre-3.0 API: concurrent use of those legacy flags is outside the property (boundary fact C15_env_sites)",
        "strerror() is reached only from tj3LoadImage*/tj3SaveImage* on fopen/getc failure; stderr only from the default output_message",
        "ThreadSanitizer does not see inside the NASM routines (they only touch caller-provided buffers and SEG_CONST tables)",
    ]
    ctx.trusted += ["clang 14 JSON AST dump + tools/gen_Globals.py (translator)", "ThreadSanitizer (gcc) for the runtime evidence",
                    "binutils readelf for the symbol-table cross-check"]
