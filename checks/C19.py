"""C19 -- generated Huffman tables are valid complete prefix codes; derived
tables are mutual inverses; JPEG_NBITS = floor(log2)+1.

1. translator  : gen_Nbits (jpeg_nbits.c literal + jchuff-sse2.asm rows), gen_StdHuff
2. proofs      : coq/props/C19.v  (model/Huff.v, proofs/HuffProofs*.v, proofs/NbitsProofs.v)
3. correspondence: extracted model (ml/C19_driver) vs harness/c19.c which calls the
   REAL jpeg_gen_optimal_table / jpeg_make_{c,d}_derived_tbl / HUFF_DECODE /
   JPEG_NBITS of the working tree, on the same case lines.
4. property-level oracle on the implementation's own output (validity of the
   generated table, decode(encode)=id, nbits = bit_length) -- this is the search
   for a concrete failing input when 2 or 3 break, and it runs on every case.
5. symbol statistics (model/HuffSym.v): harness/c19sym*.c runs the REAL
   htest_one_block (jchuff.c), the progressive gather pass (jcphuff.c) and
   encode_mcus_gather (jclhuff.c) of the working tree; same lines through the
   extracted model; oracle: every counted symbol is in the class set proved in
   HuffSymProofs.v; the counts are then fed to the real jpeg_gen_optimal_table
   (family gen-e2e) and judged by the table oracle.
"""
import os
from vlib import core
from vlib.core import sh2


def fib_like(rng, nsym, scale):
    # 1,2,3,5,8,...: with the pseudo-symbol (count 1) every Huffman merge joins the running
    # subtree with the next symbol, so the untruncated depth equals the number of symbols
    a, b, out = 1, 2, []
    for _ in range(nsym):
        out.append(a * scale)
        a, b = b, a + b
    return out


def gen_hist(rng, kind):
    """returns 256 counts"""
    f = [0] * 256
    if kind == "sparse":
        n = rng.range(1, 40)
        for _ in range(n):
            f[rng.below(256)] = rng.range(1, 1 << rng.range(1, 20))
    elif kind == "dense":
        n = rng.range(100, 254)
        for s in rng.shuffle(range(256))[:n]:
            f[s] = rng.range(1, 1 << rng.range(1, 16))
    elif kind == "equal":
        n = rng.range(1, 254)
        c = rng.range(1, 1000)
        for s in rng.shuffle(range(256))[:n]:
            f[s] = c
    elif kind == "single":
        f[rng.below(256)] = rng.range(1, 10 ** 8)
    elif kind == "fib":
        n = rng.range(2, 32)   # untruncated depth up to 32 (= MAX_CLEN): the K.2 limiting loop does real work
        vals = fib_like(rng, n, 1)
        for s, v in zip(rng.shuffle(range(256))[:n], vals):
            f[s] = v
    elif kind == "fibmix":
        n = rng.range(10, 28)
        vals = fib_like(rng, n, 1)
        syms = rng.shuffle(range(256))
        for s, v in zip(syms[:n], vals):
            f[s] = v
        for s in syms[n:n + rng.range(0, 150)]:
            f[s] = rng.range(1, 5)
    elif kind == "near1e9":
        n = rng.range(2, 200)
        syms = rng.shuffle(range(256))[:n]
        rest = 999999998 - n
        for s in syms:
            f[s] = 1
        f[syms[0]] += rest if rng.chance(1, 2) else rest // 2
        if f[syms[0]] - 1 < rest:
            f[syms[1]] += rest - (f[syms[0]] - 1)
    elif kind == "ties":
        n = rng.range(2, 254)
        for s in rng.shuffle(range(256))[:n]:
            f[s] = rng.range(1, 4)
    elif kind == "image":   # symbols an 8/12-bit AC/DC gather pass can produce
        for r in range(16):
            for sz in range(1, rng.choice([11, 15])):
                if rng.chance(2, 3):
                    f[(r << 4) + sz] = rng.range(1, 1 << rng.range(1, 22))
        f[0] = rng.range(0, 100000)
        f[0xF0] = rng.range(0, 1000)
    elif kind == "full":    # 253/254 symbols: just below the UINT8 bits[] boundary (255/256 real
        # symbols make bits[k] wrap to 0 and the C index below bits[0]: model-only, see DESIGN 7)
        n = rng.choice([253, 254])
        syms = rng.shuffle(range(256))[:n]
        for s in syms:
            f[s] = 1
        if rng.chance(1, 2):
            f[syms[0]] = 1 << 20
    elif kind == "deep":    # untruncated depth 33..41 (the deepest the 10^9 limit admits): F15 regression
        n = rng.range(33, 41)
        vals = fib_like(rng, n, 1)
        for s, v in zip(rng.shuffle(range(256))[:n], vals):
            f[s] = v
    return f



# ------------------------------------------------------------------ symbol statistics (HuffSym)
RUNS = [15, 16, 31, 32, 47, 48, 0, 1, 14, 17, 30, 33]


def clampc(v):
    return max(-32768, min(32767, v))


def zz_block(rng, kind, prec, shift=0):
    """64 coefficients in zig-zag order (JCOEF range) aimed at one case split; shift = Al"""
    mcb = prec + 2

    def sgn(v):
        return clampc(-v if rng.chance(1, 2) else v)

    def small():
        return sgn(rng.range(1, (1 << rng.range(1, mcb)) - 1) << shift)

    ac = [0] * 63
    if kind == "zero":
        pass
    elif kind == "dense":
        ac = [small() for _ in range(63)]
    elif kind in ("sparse", "guard", "lastnz", "lastz"):
        for _ in range(rng.range(1, 8)):
            ac[rng.below(63)] = small()
        if kind == "guard":      # magnitude 2^k - 1 / 2^k for k around max_coef_bits
            k = mcb + shift + rng.choice([-1, 0, 0, 1])
            ac[rng.below(63)] = sgn(rng.choice([(1 << k) - 1, 1 << k]))
        elif kind == "lastnz":
            ac[62] = small()
        elif kind == "lastz":
            ac[62] = 0
            ac[61] = small()
    elif kind == "runs":         # zero runs of exactly 15/16/31/32/47/48 before a non-zero coefficient
        pos = 0
        while True:
            pos += rng.choice(RUNS)
            if pos > 62:
                break
            ac[pos] = small()
            pos += 1
    dc = sgn(rng.range(0, 1 << rng.range(1, 11)))
    return [dc] + ac


def dc_pair(rng, prec, boundary):
    """(last_dc, block[0]) ; boundary: |diff| = 2^k - 1 / 2^k around max_coef_bits + 1"""
    mcb = prec + 2
    if boundary:
        k = mcb + 1 + rng.choice([-1, 0, 0, 1])
        d = rng.choice([(1 << k) - 1, 1 << k])
        if rng.chance(1, 2):
            d = -d
        c0 = clampc(d // 2)
        return c0 - d, c0
    c0 = rng.range(-1000, 1000)
    return c0 - rng.range(-500, 500), c0


def fmt(vals):
    return " ".join(map(str, vals))


def gen_sym_cases(ctx, rng):
    """[(line, kind, meta)]; meta = dict(cls=..., prec=..., blocks=..., e2e=bool)"""
    out = []
    n = ctx.n(260, 5000)
    hs_kinds = ["zero", "dense", "sparse", "runs", "lastnz", "lastz", "guard", "dcguard", "mixed", "big"]
    for i in range(n):
        prec = rng.choice([8, 12])
        k = hs_kinds[i % len(hs_kinds)] if i < 3 * len(hs_kinds) else rng.choice(hs_kinds)
        groups, nblocks = [], 0
        if k in ("guard", "dcguard"):
            nb = rng.range(1, 3)
            for j in range(nb):
                last = j == nb - 1
                blk = zz_block(rng, "guard" if (k == "guard" and last) else "sparse", prec)
                ld, c0 = dc_pair(rng, prec, k == "dcguard" and last)
                blk[0] = c0
                groups.append("%d %s" % (ld, fmt(blk)))
                nblocks += 1
        else:
            nb = rng.range(60, 300) if k == "big" else rng.range(1, 12)
            for j in range(nb):
                bk = rng.choice(["zero", "dense", "sparse", "runs", "lastnz", "lastz"]) if k in ("mixed", "big") else k
                blk = zz_block(rng, bk, prec)
                ld, c0 = dc_pair(rng, prec, False)
                blk[0] = c0
                rep = rng.range(2, 40) if rng.chance(1, 6) else 1
                groups.append(("*%d " % rep if rep > 1 else "") + "%d %s" % (ld, fmt(blk)))
                nblocks += rep
        out.append(("hs %d ; %s" % (prec, " ; ".join(groups)), "hs-" + k, {"cmd": "hs", "prec": prec, "blocks": nblocks}))
    # progressive
    hp_kinds = ["dcfirst", "dcrefine", "acfirst", "acfirst-guard", "eobrun", "refine", "refine-zrl", "corrbits", "restart"]
    zero64 = fmt([0] * 64)
    for i in range(ctx.n(220, 4000)):
        prec = rng.choice([8, 12])
        k = hp_kinds[i % len(hp_kinds)] if i < 3 * len(hp_kinds) else rng.choice(hp_kinds)
        al = rng.range(0, 3)
        ri = 0
        groups = []
        if k in ("dcfirst", "dcrefine"):
            ss = se = 0
            ah = 0 if k == "dcfirst" else al + 1
            for _ in range(rng.range(1, 30)):
                blk = zz_block(rng, "sparse", prec)
                blk[0] = clampc(rng.choice([rng.range(-2000, 2000), rng.range(-32768, 32767),
                                            (1 << (prec + 2 + al)) - 1, -(1 << (prec + 2 + al))]))
                groups.append(fmt(blk))
            ri = rng.choice([0, 0, 3])
        elif k in ("acfirst", "acfirst-guard", "restart"):
            ah = 0
            ss = rng.choice([1, 1, 1, 6, rng.range(1, 63)])
            se = rng.choice([63, 63, 5 if ss <= 5 else 63, rng.range(ss, 63)])
            ri = rng.range(1, 5) if k == "restart" else 0
            for _ in range(rng.range(1, 40)):
                bk = rng.choice(["zero", "zero", "dense", "sparse", "runs", "lastnz", "lastz"])
                blk = zz_block(rng, bk, prec, al)
                rep = rng.range(2, 300) if (bk == "zero" and rng.chance(1, 2)) else 1
                groups.append(("*%d " % rep if rep > 1 else "") + fmt(blk))
            if k == "acfirst-guard":
                groups.append(fmt(zz_block(rng, "guard", prec, al)))
        elif k == "eobrun":      # EOBRUN 0x7FFE / 0x7FFF boundary
            refine = rng.chance(1, 3)
            ah = al + 1 if refine else 0
            ss, se = 1, 63
            nrep = rng.choice([32765, 32766, 32767, 32768, 65533, 65534, 65535])
            pre = rng.range(0, 2)
            for _ in range(pre):
                groups.append(zero64)
            groups.append("*%d %s" % (nrep - pre, zero64))
            if rng.chance(2, 3):
                groups.append(fmt(zz_block(rng, "sparse", prec, al)))
                if rng.chance(1, 2):
                    groups.append(zero64)
        else:                    # refinement scans
            ah = al + 1
            ss = rng.choice([1, 1, rng.range(1, 40)])
            se = 63
            if k == "corrbits":  # BE at the MAX_CORR_BITS - DCTSIZE2 + 1 = 937 boundary
                ss = 1
                full = [0] + [(rng.range(2, 7) << al) * rng.choice([1, -1]) for _ in range(63)]
                groups.append("*14 " + fmt(full))          # BE = 14 * 63 = 882
                nb = rng.choice([54, 55, 56, 57])           # 936 / 937 / 938 (flush) / 939 (flush)
                part = [0] + [(rng.range(2, 7) << al) for _ in range(nb)] + [0] * (63 - nb)
                groups.append(fmt(part))
                for _ in range(rng.range(0, 3)):
                    groups.append(fmt(full if rng.chance(1, 2) else part))
            else:
                for _ in range(rng.range(1, 25)):
                    blk = [0] * 64
                    if k == "refine-zrl":
                        # long zero runs before newly-nonzero coefficients (ZRL path, k <= EOB), previously
                        # non-zero coefficients in between, and runs > 15 AFTER the last newly-nonzero one
                        pos = ss
                        last_one = -1
                        while pos <= 63:
                            pos += rng.choice([16, 17, 20, 31, 32, 33, 5, 0])
                            if pos > 63:
                                break
                            t = rng.choice([1, 1, 2, 3])
                            blk[pos] = ((t << al) | (rng.below(1 << al) if al else 0)) * rng.choice([1, -1])
                            pos += 1
                    else:
                        for _ in range(rng.range(0, 12)):
                            t = rng.choice([1, 1, 2, 3, 5])
                            blk[rng.range(ss, 63)] = ((t << al) | (rng.below(1 << al) if al else 0)) * rng.choice([1, -1])
                    rep = rng.range(2, 20) if rng.chance(1, 8) else 1
                    groups.append(("*%d " % rep if rep > 1 else "") + fmt(blk))
        out.append(("hp %d %d %d %d %d %d ; %s" % (prec, ss, se, ah, al, ri, " ; ".join(groups)), "hp-" + k,
                    {"cmd": "hp", "prec": prec, "dc": ss == 0}))
    # lossless
    edge = [0, 1, -1, 2, -2, 255, -255, 256, 32767, -32767, 32768, -32768, 32769, -32769, 65535, -65535, 65536, -65536,
            16383, 16384, -16384, 49152, -49152, 70000, -70000]
    for i in range(ctx.n(80, 1500)):
        nd = rng.range(1, 200)
        ds = [rng.choice(edge) if rng.chance(1, 3) else
              (rng.range(-32768, 32767) if rng.chance(1, 2) else rng.choice([1, -1]) * ((1 << rng.range(0, 16)) - rng.below(2)))
              for _ in range(nd)]
        out.append(("hl " + fmt(ds), "hl", {"cmd": "hl", "n": nd}))
    return out


def class_set(cmd, prec, dc):
    """independent statement of the proved symbol classes (HuffSymProofs.class_set)"""
    mcb = prec + 2
    if cmd == "hl":
        return set(range(17))
    if dc:
        return set(range(mcb + 2))
    s = {0, 0xF0} | {(r << 4) + z for r in range(16) for z in range(1, mcb + 1)}
    if cmd == "hp":
        s |= {n << 4 for n in range(15)}
    return s


def parse_pairs(txt):
    return {int(a): int(b) for a, b in (w.split(":") for w in txt.split())}


def run_sym_cases(ctx, cases, exes, drv, flavours):
    """returns the derived end-to-end 'gen' cases"""
    e2e = []
    if not cases:
        return e2e
    inp = ("\n".join(c[0] for c in cases) + "\n").encode()
    outs = {}
    for fl, exe in exes.items():
        rc, out, err = sh2([exe], input=inp, timeout=1800)
        lines = out.decode().split("\n")
        if rc != 0 or len(lines) < len(cases):
            idx = max(0, len(lines) - 1)
            ctx.violation("statistics code crashed/aborted (%s build, rc=%d) on case %d: %s" % (fl, rc, idx, err[-300:]),
                          {"case": cases[min(idx, len(cases) - 1)][0], "flavour": fl, "stderr": err[-2000:]},
                          signature="crash:" + cases[min(idx, len(cases) - 1)][1])
            lines += ["<no output>"] * (len(cases) - len(lines))
        outs[fl] = lines
    mlines = None
    if drv:
        rc, out, err = sh2([drv], input=inp, timeout=1800)
        mlines = out.decode().split("\n")
        if rc != 0 or len(mlines) < len(cases):
            ctx.broken_tie("model-driver", "extracted model failed on symbol cases: rc=%d %s" % (rc, err[-200:]))
            mlines = None
    ref = outs[flavours[0]]
    dist = ctx.cov.setdefault("sym_distribution", {})

    def tally(k, n=1):
        dist[k] = dist.get(k, 0) + n

    disagree = 0
    for i, (line, kind, meta) in enumerate(cases):
        impl = ref[i]
        if impl == "<no output>":
            continue
        cmd = meta["cmd"]
        tally("cases:" + kind)
        hists = []      # (class set, {sym: count})
        if " err code=" in impl:
            # only the JERR_BAD_DCT_COEF guards are live; emit_eobrun's JERR_HUFF_MISSING_CODE and the lossless
            # MAX_DIFF_BITS guard are proved unreachable (C19_prog_ac_symbols, C19_lossless_symbols)
            ctx.violation("statistics pass raised an error that is proved unreachable for these inputs: " + impl,
                          {"case": line[:4000], "impl": impl}, signature="sym-dead-guard:" + kind)
        elif impl.endswith(" err"):
            tally("guard_fired:" + cmd + ("-%d" % meta["prec"] if "prec" in meta else ""))
        elif cmd == "hs":
            dcs, acs = impl[len("hs dc"):].split("| ac")
            d, a = parse_pairs(dcs), parse_pairs(acs)
            hists = [(class_set("hs", meta["prec"], True), d), (class_set("hs", meta["prec"], False), a)]
            if sum(d.values()) != meta["blocks"]:
                ctx.violation("htest_one_block counted %d DC symbols for %d blocks" % (sum(d.values()), meta["blocks"]),
                              {"case": line[:4000], "impl": impl}, signature="sym-dc-count")
            if sum(a.values()) > 63 * meta["blocks"]:
                ctx.violation("htest_one_block counted more than 63 AC symbols per block",
                              {"case": line[:4000], "impl": impl}, signature="sym-ac-count")
            tally("hs_blocks", meta["blocks"])
            tally("hs_ac_symbols", sum(a.values()))
            if a.get(0xF0):
                tally("hs_cases_with_ZRL")
            if a.get(0):
                tally("hs_cases_with_EOB")
            else:
                tally("hs_cases_without_EOB")
            if sum(a.values()) == 63 * meta["blocks"]:
                tally("hs_cases_63_symbols_per_block")
        elif cmd == "hp":
            head, pairs = impl.split("|")
            eob, be = int(head.split()[2]), int(head.split()[4])
            c = parse_pairs(pairs)
            hists = [(class_set("hp", meta["prec"], meta["dc"]), c)]
            tally("hp_final_eobrun_0" if eob == 0 else "hp_final_eobrun_pos")
            dist["hp_max_final_eobrun"] = max(dist.get("hp_max_final_eobrun", 0), eob)
            dist["hp_max_final_be"] = max(dist.get("hp_max_final_be", 0), be)
            if eob >= 0x7FFF:
                ctx.violation("EOBRUN reached 0x7FFF without being flushed", {"case": line[:4000], "impl": impl}, signature="sym-eobrun")
            if be > 937:
                ctx.violation("BE above MAX_CORR_BITS - DCTSIZE2 + 1 after an MCU", {"case": line[:4000], "impl": impl}, signature="sym-be")
            if c.get(224):
                tally("hp_cases_with_eobrun_symbol_14")
            if c.get(0xF0):
                tally("hp_cases_with_ZRL")
            if be in (936, 937):
                tally("hp_cases_be_at_boundary_unflushed")
            if kind == "hp-corrbits" and be < 100:
                tally("hp_cases_be_flushed_at_boundary")
        else:
            c = parse_pairs(impl[2:])
            hists = [(class_set("hl", 0, True), c)]
            if sum(c.values()) != meta["n"]:
                ctx.violation("encode_mcus_gather counted %d symbols for %d differences" % (sum(c.values()), meta["n"]),
                              {"case": line[:4000], "impl": impl}, signature="sym-hl-count")
            if c.get(16):
                tally("hl_cases_with_category_16")
        # ---- property-level oracle: every counted symbol lies in the proved class, then the real generator ----
        for cls, h in hists:
            extra = sorted(set(h) - cls)
            if extra:
                ctx.violation("statistics pass counted symbols outside the admissible class: %s" % extra[:8],
                              {"case": line[:4000], "impl": impl[:1000]}, signature="sym-outside-class:" + kind)
            elif h and sum(h.values()) < 10 ** 9:
                f = [h.get(s, 0) for s in range(256)]
                e2e.append(("gen " + fmt(f), "gen-e2e", f))
        for fl in flavours[1:]:
            if outs[fl][i] != impl:
                ctx.violation("builds disagree (%s vs %s)" % (flavours[0], fl),
                              {"case": line[:4000], flavours[0]: impl[:1000], fl: outs[fl][i][:1000]},
                              signature="build-disagree:" + kind)
        if mlines is not None and mlines[i] != impl:
            disagree += 1
            if disagree <= 3:
                ctx.log("model/impl disagree on", kind, "\n  case :", line[:300], "\n  model:", mlines[i][:200], "\n  impl :", impl[:200])
                ctx.broken_tie("correspondence:" + cmd,
                               "HuffSym model and statistics code differ on: %s || model=%s || impl=%s" % (line[:600], mlines[i][:200], impl[:200]))
        ctx.count(kind, 1, (cmd, impl[:300]))
        if i % 211 == 0:
            ctx.sample({"case": line[:300], "impl": impl[:200]})
    ctx.cov["sym_model_impl_disagreements"] = disagree
    if mlines is not None:
        ctx.cov["sym_traces_validated_against_impl"] = len(cases)
    return e2e


BOUNDARY_1E9 = [   # outside the property's quantifier (total count below 10^9): informational only
    ("lossless constant 32768x32768 image: category 0 counted 2^30 times", {0: 32768 * 32768}),
    ("28571429 blocks with 63 non-zero AC coefficients: symbols 1,2,3 counted 600000009 times each",
     {1: 600000009, 2: 600000009, 3: 600000009}),
]


# ------------------------------------------------------------------ stream-level oracle (tw family)
def stream_oracle(jpg, wb, hb, want):
    """Independent of the model and of the library's decoder: parse the markers, keep for every scan the
    DHT in force for each slot it names (the last DHT for that slot before the SOS), decode the scan with it
    (sequential, or progressive without successive approximation; 1x1 sampling) and compare with the
    coefficients that were written.  want: {(comp, block, zigzag): value}.  Returns None or a message."""
    pos, n = 2, len(jpg)
    tables, comps, prog, got, scan_no = {}, [], False, {}, 0
    nb = wb * hb
    while pos + 4 <= n:
        if jpg[pos] != 0xFF:
            return "marker expected at offset %d" % pos
        m = jpg[pos + 1]
        if m == 0xD9:
            break
        L = (jpg[pos + 2] << 8) | jpg[pos + 3]
        seg = jpg[pos + 4:pos + 2 + L]
        pos += 2 + L
        if m in (0xC0, 0xC1, 0xC2):
            prog = m == 0xC2
            comps = [seg[6 + 3 * i] for i in range(seg[5])]
        elif m == 0xC4:
            q = 0
            while q < len(seg):
                tc, th = seg[q] >> 4, seg[q] & 15
                bits = list(seg[q + 1:q + 17])
                nv = sum(bits)
                vals = list(seg[q + 17:q + 17 + nv])
                q += 17 + nv
                code, k, tab = 0, 0, {}
                for l in range(1, 17):
                    for _ in range(bits[l - 1]):
                        tab[(l, code)] = vals[k]
                        code += 1
                        k += 1
                    code <<= 1
                tables[(tc, th)] = tab
        elif m == 0xDA:
            ns = seg[0]
            sc = [(comps.index(seg[1 + 2 * i]), seg[2 + 2 * i] >> 4, seg[2 + 2 * i] & 15) for i in range(ns)]
            ss, se, ah, al = seg[1 + 2 * ns], seg[2 + 2 * ns], seg[3 + 2 * ns] >> 4, seg[3 + 2 * ns] & 15
            if ah or al:
                return None        # successive approximation is not generated by this family
            end = pos
            while not (jpg[end] == 0xFF and jpg[end + 1] != 0):
                end += 1
            data = bytes(jpg[pos:end]).replace(b"\xff\x00", b"\xff")
            pos = end
            bitpos = [0]

            def getbit():
                i = bitpos[0]
                if i >= 8 * len(data):
                    raise ValueError("scan %d: ran out of data" % scan_no)
                bitpos[0] = i + 1
                return (data[i >> 3] >> (7 - (i & 7))) & 1

            def getbits(k):
                v = 0
                for _ in range(k):
                    v = (v << 1) | getbit()
                return v

            def huff(tc, th):
                tab = tables.get((tc, th))
                if tab is None:
                    raise ValueError("scan %d uses %s slot %d for which no DHT is in force" % (scan_no, "AC" if tc else "DC", th))
                code = 0
                for l in range(1, 17):
                    code = (code << 1) | getbit()
                    if (l, code) in tab:
                        return tab[(l, code)]
                raise ValueError("scan %d: bit string is not a code of the DHT in force for %s slot %d" % (scan_no, "AC" if tc else "DC", th))

            def extend(v, t):
                return v if t == 0 or v >= (1 << (t - 1)) else v - (1 << t) + 1

            try:
                pred = {c: 0 for c, _, _ in sc}
                eobrun = 0
                for b in range(nb):
                    for c, td, ta in sc:
                        k = ss
                        if ss == 0:
                            t = huff(0, td)
                            pred[c] += extend(getbits(t), t)
                            got[(c, b, 0)] = pred[c]
                            k = 1
                        if se == 0:
                            continue
                        if eobrun > 0:
                            eobrun -= 1
                            continue
                        while k <= se:
                            rs = huff(1, ta)
                            r, z = rs >> 4, rs & 15
                            if z == 0:
                                if r == 15:
                                    k += 16
                                    continue
                                if not prog and r != 0:
                                    raise ValueError("scan %d: symbol 0x%02x in a sequential scan" % (scan_no, rs))
                                eobrun = (1 << r) - 1 + (getbits(r) if r else 0)
                                break
                            k += r
                            if k > se:
                                raise ValueError("scan %d: run past the end of the band" % scan_no)
                            got[(c, b, k)] = extend(getbits(z), z)
                            k += 1
            except ValueError as e:
                return str(e)
            scan_no += 1
    got = {k: v for k, v in got.items() if v}
    if got != want:
        diff = sorted(set(got.items()) ^ set(want.items()))[:4]
        return "decoding every scan with the DHT in force for it does not reproduce the written coefficients: " + str(diff)
    return None


def table_valid_for(freq, line):
    """property-level oracle on the implementation's output line"""
    if not line.startswith("ok "):
        return "generator did not return a table: " + line[:40]
    bits_s, vals_s = line[3:].split("|")
    bits = [int(x) for x in bits_s.split()]
    vals = [int(x) for x in vals_s.split()]
    nz = [i for i in range(256) if freq[i] != 0]
    if len(bits) != 17:
        return "bits length"
    if bits[0] != 0 and nz:
        return "bits[0] != 0"
    if sum(bits[1:]) != len(nz):
        return "sum(bits)=%d but %d symbols have non-zero frequency" % (sum(bits[1:]), len(nz))
    if sorted(vals) != nz:
        return "huffval is not exactly the set of non-zero symbols"
    if not nz:
        return None
    lmax = max(l for l in range(1, 17) if bits[l])
    kraft = sum(bits[l] << (16 - l) for l in range(1, 17))
    if kraft + (1 << (16 - lmax)) > (1 << 16):
        return "Kraft sum leaves no unused code point of the longest length (all-ones code)"
    # canonical lengths are non-decreasing along huffval by construction; check that
    # more frequent symbols never get longer codes only when no length limiting happened
    return None


def random_valid_bits(rng, nsym):
    """bits[1..16] with Kraft slack for nsym symbols (<=256)"""
    while True:
        lens = []
        budget = (1 << 16) - 1  # leave one code point
        for _ in range(nsym):
            l = rng.range(1, 16)
            c = 1 << (16 - l)
            tries = 0
            while c > budget and l < 16:
                l += 1
                c = 1 << (16 - l)
            if c > budget:
                break
            budget -= c
            lens.append(l)
        if lens:
            bits = [0] * 17
            for l in lens:
                bits[l] += 1
            # unused code point of the *longest* length must exist
            lmax = max(lens)
            if sum(bits[l] << (16 - l) for l in range(1, 17)) + (1 << (16 - lmax)) <= (1 << 16):
                return bits, len(lens)


def run(ctx):
    rng = ctx.rng
    ctx.regen(["Nbits", "StdHuff", "HuffGen", "HuffSym", "HuffSel"])
    ctx.prove()
    drv = ctx.model_driver()
    flavours = ["simd", "plain"] if not ctx.thorough() else ["simd", "plain", "asan"]
    exes = {fl: ctx.cc("c19", ["c19.c"], fl, libs=("jpeg",)) for fl in flavours}
    symexes = {fl: ctx.cc("c19sym", ["c19sym.c", "c19sym_p.c", "c19sym_l.c"], fl, libs=("jpeg",)) for fl in flavours}

    def sym_meta(l):
        w = l.split()
        if w[0] == "hl":
            return {"cmd": "hl", "n": len(w) - 1}
        groups = [g.split() for g in l[2:].split(";")]
        if w[0] == "hp":
            return {"cmd": "hp", "prec": int(w[1]), "dc": int(w[2]) == 0}
        nb = sum(int(g[0][1:]) if g[0].startswith("*") else 1 for g in groups[1:] if g)
        return {"cmd": "hs", "prec": int(w[1]), "blocks": nb}

    cases = []   # (line, kind, meta)
    symcases = []
    if ctx.replay:          # re-execute exactly the recorded case
        import json
        r = json.load(open(ctx.replay))
        l = r.get("case", "")
        if l and l.split()[0] in ("hs", "hp", "hl"):
            symcases.append((l, "corpus-" + l.split()[0], sym_meta(l)))
            cases += run_sym_cases(ctx, symcases, symexes, drv, flavours)
        elif l:
            kind = "corpus-" + l.split()[0]
            meta = [int(x) for x in l.split()[1:257]] if l.startswith("gen ") else None
            if l.startswith("nbits "):
                kind, meta = "nbits", tuple(int(x) for x in l.split()[1:3])
            if l.split()[0] in ("ms", "tn", "tw"):
                kind = l.split()[0]
            cases.append((l, kind, meta))
        return run_cases(ctx, cases, exes, drv, flavours)
    # corpus first
    cdir = os.path.join(core.VERIF, "corpus", "C19")
    if os.path.isdir(cdir):
        for fn in sorted(os.listdir(cdir)):
            for l in open(os.path.join(cdir, fn)):
                l = l.strip()
                if l and l.split()[0] in ("hs", "hp", "hl"):
                    symcases.append((l, "corpus-" + l.split()[0], sym_meta(l)))
                elif l and not l.startswith("#"):
                    kind = "corpus-" + l.split()[0]
                    meta = [int(x) for x in l.split()[1:257]] if l.startswith("gen ") else None
                    cases.append((l, kind, meta))
    # symbol statistics: real htest_one_block / progressive gather / lossless gather vs the HuffSym model;
    # their counts then go through the real generator (gen-e2e)
    symcases += gen_sym_cases(ctx, rng.fork())
    cases += run_sym_cases(ctx, symcases, symexes, drv, flavours)
    # counts >= 10^9: outside the property (informational, see design/C19.md O-C19-1)
    for what, h in BOUNDARY_1E9:
        f = [h.get(i, 0) for i in range(256)]
        cases.append(("gen " + " ".join(map(str, f)), "gen-boundary1e9", f))
    nh = ctx.n(3000, 60000)
    kinds = ["sparse", "dense", "equal", "single", "fib", "fibmix", "near1e9", "ties", "image", "full", "deep"]
    for i in range(nh):
        k = kinds[i % len(kinds)] if i < 4 * len(kinds) else rng.choice(kinds)
        f = gen_hist(rng, k)
        cases.append(("gen " + " ".join(map(str, f)), "gen-" + k, f))
    # tables: valid (random Kraft-feasible), std-like, and malformed
    nt = ctx.n(1500, 30000)
    for i in range(nt):
        isdc = rng.chance(1, 3)
        lossless = rng.chance(1, 4)
        mode = rng.choice(["valid", "valid", "valid", "overfull", "dup", "dcrange", "kraft", "allones", "overlong"])
        nsym = rng.range(1, 17 if isdc else 256)
        bits, n = random_valid_bits(rng, nsym)
        pool = list(range(17 if (isdc and lossless) else 16)) if isdc else list(range(256))
        vals = rng.shuffle(pool)[:n]
        if len(vals) < n:
            bits, n = random_valid_bits(rng, len(vals))
            vals = vals[:n]
        if mode == "overfull":
            bits[rng.range(1, 16)] = rng.range(200, 255)
            vals = (vals + rng.shuffle(range(256)))[:256]
        elif mode == "dup" and n >= 2:
            vals[rng.below(n)] = vals[rng.below(n)]
        elif mode == "dcrange":
            isdc = True
            vals[rng.below(n)] = rng.range(15, 40)
        elif mode == "kraft":
            l = rng.range(1, 8)
            bits[l] = min(255, bits[l] + (1 << l))
            vals = (vals + [v for v in rng.shuffle(range(256)) if v not in vals])[:sum(bits[1:])]
        elif mode == "allones":
            # complete code: fill the remaining Kraft budget at the longest length
            lmax = max(l for l in range(1, 17) if bits[l])
            rem = (1 << 16) - sum(bits[l] << (16 - l) for l in range(1, 17))
            add = rem >> (16 - lmax)
            if sum(bits[1:]) + add <= 256 and bits[lmax] + add <= 255:
                bits[lmax] += add
                vals = (vals + [v for v in rng.shuffle(pool) if v not in vals])[:sum(bits[1:])]
        elif mode == "overlong":
            # over-subscribed ONLY at the longest length: complete the code there, then 1..3 codes more
            lmax = max(l for l in range(1, 17) if bits[l])
            rem = (1 << 16) - sum(bits[l] << (16 - l) for l in range(1, 17))
            add = (rem >> (16 - lmax)) + rng.range(1, 3)
            if sum(bits[1:]) + add <= 256 and bits[lmax] + add <= 255:
                bits[lmax] += add
                vals = (vals + [v for v in rng.shuffle(pool) if v not in vals])[:sum(bits[1:])]
        head = "%d %d %s | %s" % (1 if isdc else 0, 1 if lossless else 0, " ".join(map(str, bits[1:])), " ".join(map(str, vals)))
        if rng.chance(1, 2):
            cases.append(("tbl " + head, "tbl-" + mode, None))
        else:
            ns = rng.range(1, 300)
            src = vals if (vals and rng.chance(9, 10)) else list(range(256))
            syms = [rng.choice(src) for _ in range(ns)]
            cases.append(("rt " + head + " | " + " ".join(map(str, syms)), "rt-" + mode, syms))
    # decoder tables across a DHT that redefines a slot between scans (real codec, oracle only)
    for i in range(ctx.n(40, 600)):
        cases.append(("ms %d %d %d" % (rng.range(1, 1 << 30), rng.range(8, 40), rng.range(8, 40)), "ms", None))
    # table-number selection and twin scans through the real codec (oracle only)
    for i in range(ctx.n(120, 3000)):
        cases.append(("tn %d %d %d" % (rng.range(1, 1 << 30), i % 3, (i // 3) % 2), "tn", None))
    for i in range(ctx.n(40, 800)):
        cases.append(("tw %d %d" % (rng.range(1, 1 << 30), i % 2), "tw", None))
    # nbits: exhaustive, in 64 slices
    for k in range(64):
        cases.append(("nbits %d %d" % (k * 1024, k * 1024 + 1023), "nbits", (k * 1024, k * 1024 + 1023)))

    return run_cases(ctx, cases, exes, drv, flavours)


def run_cases(ctx, cases, exes, drv, flavours):
    inp = ("\n".join(c[0] for c in cases) + "\n").encode()
    outs = {}
    for fl, exe in exes.items():
        rc, out, err = sh2([exe], input=inp, timeout=1800)
        lines = out.decode().split("\n")
        if rc != 0 or len(lines) < len(cases):
            idx = max(0, len(lines) - 1)
            ctx.violation("implementation crashed/aborted (%s build, rc=%d) on case %d: %s" % (fl, rc, idx, err[-300:]),
                          {"case": cases[min(idx, len(cases) - 1)][0], "flavour": fl, "stderr": err[-2000:]},
                          signature="crash:" + cases[min(idx, len(cases) - 1)][1])
            lines += ["<no output>"] * (len(cases) - len(lines))
        outs[fl] = lines
    mlines = None
    if drv:
        rc, out, err = sh2([drv], input=inp, timeout=1800)
        mlines = out.decode().split("\n")
        if rc != 0 or len(mlines) < len(cases):
            ctx.broken_tie("model-driver", "extracted model failed: rc=%d %s" % (rc, err[-200:]))
            mlines = None

    ref = outs[flavours[0]]
    disagree = 0
    for i, (line, kind, meta) in enumerate(cases):
        impl = ref[i]
        nontriv = None
        if impl == "<no output>":      # the harness died earlier in the stream (already reported as a crash)
            continue
        # ---- property-level oracle on the implementation ----
        if kind.startswith("gen-") or kind == "corpus-gen":
            nzc = sum(1 for x in meta if x)
            if nzc <= 254 and sum(meta) < 10 ** 9:
                bad = table_valid_for(meta, impl)
                if bad:
                    ctx.violation("generated table invalid: " + bad, {"case": line, "impl": impl}, signature="gen-invalid:" + kind)
            nontriv = ("gen", impl)
            if kind == "gen-boundary1e9":
                what = [w for w, h in BOUNDARY_1E9 if [h.get(j, 0) for j in range(256)] == meta][0]
                ctx.cov.setdefault("boundary_counts_ge_1e9", []).append(
                    {"histogram": what, "real_generator_returned": impl,
                     "table_oracle": table_valid_for(meta, impl) or "valid",
                     "model_agrees": (mlines[i].rstrip() == impl.rstrip()) if mlines is not None else None})
        elif kind.startswith("rt-") or kind == "corpus-rt":
            if " ; dec " in impl:
                dec = [int(x) for x in impl.split(" ; dec ")[1].split()]
                syms = meta if meta is not None else [int(x) for x in line.split("|")[2].split()]
                if dec != syms:
                    ctx.violation("derived tables are not inverse: decode(encode(s)) != s",
                                  {"case": line, "impl": impl}, signature="rt-mismatch:" + kind)
            nontriv = ("rt", impl[:200])
        elif kind == "ms":
            if not impl.startswith("ms same"):
                ctx.violation("decoder tables do not follow a DHT that redefines a slot between scans: multi-scan and single-scan encodings of one image read back different coefficients (%s)" % impl,
                              {"case": line, "impl": impl}, signature="ms-slot-redefinition")
            nontriv = ("ms", line)
        elif kind in ("tn", "tw"):
            if " same warn=0" not in impl:
                what = ("a component's DC and AC table numbers select the tables (dc_tbl_no / ac_tbl_no drawn independently from 0..3)"
                        if kind == "tn" else "two scans on one table slot whose histograms differ in one rare symbol")
                ctx.violation("real codec round trip through Huffman tables is not exact -- %s: %s" % (what, impl[:200]),
                              {"case": line, "impl": impl[:400]}, signature=kind + "-roundtrip")
            if kind == "tw" and " ; jpg " in impl:
                parts = impl.split(" ; ")
                wbhb = parts[1].split()
                want = {}
                for w in parts[3].split()[1:]:
                    c, b, k, v = (int(x) for x in w.split(":"))
                    want[(c, b, k)] = v
                bad = stream_oracle(bytes.fromhex(parts[2].split()[1]), int(wbhb[1]), int(wbhb[3]), want)
                if bad:
                    ctx.violation("emitted stream: " + bad, {"case": line, "impl": impl[:300]}, signature="tw-stream-dht")
            nontriv = (kind, impl.split(" ; ")[0][:120])
        elif kind == "nbits":
            lo, hi = meta
            exp = "nb " + " ".join(str(x.bit_length()) for x in range(lo, hi + 1))
            if impl != exp:
                got = impl.split()[1:]
                bad = [lo + j for j in range(len(got)) if int(got[j]) != (lo + j).bit_length()][:3]
                ctx.violation("JPEG_NBITS wrong at %s" % bad, {"case": line, "first_bad": bad}, signature="nbits")
            nontriv = ("nbits", lo)
        else:
            nontriv = ("tbl", impl[:300])
        # ---- all builds agree ----
        for fl in flavours[1:]:
            if outs[fl][i] != impl:
                ctx.violation("builds disagree (%s vs %s)" % (flavours[0], fl), {"case": line, flavours[0]: impl, fl: outs[fl][i]},
                              signature="build-disagree:" + kind)
        # ---- model correspondence ----
        if mlines is not None and kind not in ("ms", "tn", "tw") and mlines[i].rstrip() != impl.rstrip():
            disagree += 1
            if disagree <= 3:
                ctx.log("model/impl disagree on", kind, "\n  case :", line[:160], "\n  model:", mlines[i][:160], "\n  impl :", impl[:160])
                ctx.broken_tie("correspondence:" + kind.split("-")[0],
                               "model and implementation differ on: %s || model=%s || impl=%s" % (line[:300], mlines[i][:200], impl[:200]))
        ctx.count(kind, 1, nontriv)
        if i % 997 == 0:
            ctx.sample({"case": line[:400], "impl": impl[:300]})
    if mlines is not None:
        ctx.cov["traces_validated_against_impl"] = len(cases)
    ctx.cov["model_impl_disagreements"] = disagree
    ctx.cov["rule"] = ("symbol statistics: real htest_one_block / jcphuff.c gather pass / jclhuff.c encode_mcus_gather on blocks aimed at the "
                       "proof case splits (guard boundary 2^k-1/2^k for both precisions, zero runs 15/16/31/32/47/48, all-zero, EOB/no EOB, "
                       "EOBRUN 0x7FFE/0x7FFF, refinement ZRL before/after EOB, BE at 937/938), their counts fed to the real generator (gen-e2e); "
                       "histograms (11 families incl. Fibonacci-like, ties, near 10^9, 255/256-symbol and depth>32 boundary families), "
                       "valid and malformed (bits,huffval) tables, encode/decode round trips through the real HUFF_DECODE, exhaustive nbits 0..65535; "
                       "a case is distinct/non-trivial when its implementation output line is distinct")
    ctx.assume += ["counts >= 10^9 (family gen-boundary1e9) are outside the property's quantifier and only recorded (O-C19-1)",
                   "correspondence is differential testing of the hand model against the real functions; it supports the tie, not the theorem",
                   "property-level oracle for generated tables applied to histograms with <= 254 non-zero symbols and untruncated depth <= 32 "
                   "(255/256 symbols: UINT8 bits[] boundary; depth>32: JERR_HUFF_CLEN_OVERFLOW boundary -- model-vs-code only)"]
