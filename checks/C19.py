"""C19 -- generated Huffman tables are valid complete prefix codes; derived
tables are mutual inverses; JPEG_NBITS = floor(log2)+1.

1. translator  : gen_Nbits (jpeg_nbits.c literal + jchuff-sse2.asm rows), gen_StdHuff
2. proofs      : coq/props/C19.v  (model/Huff.v, proofs/HuffProofs*.v, proofs/NbitsProofs.v)
3. correspondence: extracted model (ml/C19_driver) vs harness/c19.c which calls the
   REAL jpeg_gen_optimal_table / jpeg_make_{c,d}_derived_tbl / HUFF_DECODE /
   JPEG_NBITS of the working tree, on the same case lines.
4. property-level oracle on the implementation's own output (validity of the
   generated table, decode(encode)=id, nbits = bit_length) -- this is the search
   for a concrete failing input when 2 or 3 break, and it runs on every case.
"""
import os
from vlib import core
from vlib.core import sh2


def fib_like(rng, nsym, scale):
    # 1,2,3,5,8,...: with the pseudo-symbol (count 1) every Huffman merge joins the running
    # subtree with the next symbol, so the untruncated depth equals the number of symbols
    a, b, out = 1, 2, []
    for _ in range(nsym):
        out.append(a * scale)
        a, b = b, a + b
    return out


def gen_hist(rng, kind):
    """returns 256 counts"""
    f = [0] * 256
    if kind == "sparse":
        n = rng.range(1, 40)
        for _ in range(n):
            f[rng.below(256)] = rng.range(1, 1 << rng.range(1, 20))
    elif kind == "dense":
        n = rng.range(100, 254)
        for s in rng.shuffle(range(256))[:n]:
            f[s] = rng.range(1, 1 << rng.range(1, 16))
    elif kind == "equal":
        n = rng.range(1, 254)
        c = rng.range(1, 1000)
        for s in rng.shuffle(range(256))[:n]:
            f[s] = c
    elif kind == "single":
        f[rng.below(256)] = rng.range(1, 10 ** 8)
    elif kind == "fib":
        n = rng.range(2, 32)   # untruncated depth up to 32 (= MAX_CLEN): the K.2 limiting loop does real work
        vals = fib_like(rng, n, 1)
        for s, v in zip(rng.shuffle(range(256))[:n], vals):
            f[s] = v
    elif kind == "fibmix":
        n = rng.range(10, 28)
        vals = fib_like(rng, n, 1)
        syms = rng.shuffle(range(256))
        for s, v in zip(syms[:n], vals):
            f[s] = v
        for s in syms[n:n + rng.range(0, 150)]:
            f[s] = rng.range(1, 5)
    elif kind == "near1e9":
        n = rng.range(2, 200)
        syms = rng.shuffle(range(256))[:n]
        rest = 999999998 - n
        for s in syms:
            f[s] = 1
        f[syms[0]] += rest if rng.chance(1, 2) else rest // 2
        if f[syms[0]] - 1 < rest:
            f[syms[1]] += rest - (f[syms[0]] - 1)
    elif kind == "ties":
        n = rng.range(2, 254)
        for s in rng.shuffle(range(256))[:n]:
            f[s] = rng.range(1, 4)
    elif kind == "image":   # symbols an 8/12-bit AC/DC gather pass can produce
        for r in range(16):
            for sz in range(1, rng.choice([11, 15])):
                if rng.chance(2, 3):
                    f[(r << 4) + sz] = rng.range(1, 1 << rng.range(1, 22))
        f[0] = rng.range(0, 100000)
        f[0xF0] = rng.range(0, 1000)
    elif kind == "full":    # 253/254 symbols: just below the UINT8 bits[] boundary (255/256 real
        # symbols make bits[k] wrap to 0 and the C index below bits[0]: model-only, see DESIGN 7)
        n = rng.choice([253, 254])
        syms = rng.shuffle(range(256))[:n]
        for s in syms:
            f[s] = 1
        if rng.chance(1, 2):
            f[syms[0]] = 1 << 20
    elif kind == "deep":    # untruncated depth 33..41 (the deepest the 10^9 limit admits): F15 regression
        n = rng.range(33, 41)
        vals = fib_like(rng, n, 1)
        for s, v in zip(rng.shuffle(range(256))[:n], vals):
            f[s] = v
    return f


def table_valid_for(freq, line):
    """property-level oracle on the implementation's output line"""
    if not line.startswith("ok "):
        return "generator did not return a table: " + line[:40]
    bits_s, vals_s = line[3:].split("|")
    bits = [int(x) for x in bits_s.split()]
    vals = [int(x) for x in vals_s.split()]
    nz = [i for i in range(256) if freq[i] != 0]
    if len(bits) != 17:
        return "bits length"
    if bits[0] != 0 and nz:
        return "bits[0] != 0"
    if sum(bits[1:]) != len(nz):
        return "sum(bits)=%d but %d symbols have non-zero frequency" % (sum(bits[1:]), len(nz))
    if sorted(vals) != nz:
        return "huffval is not exactly the set of non-zero symbols"
    if not nz:
        return None
    lmax = max(l for l in range(1, 17) if bits[l])
    kraft = sum(bits[l] << (16 - l) for l in range(1, 17))
    if kraft + (1 << (16 - lmax)) > (1 << 16):
        return "Kraft sum leaves no unused code point of the longest length (all-ones code)"
    # canonical lengths are non-decreasing along huffval by construction; check that
    # more frequent symbols never get longer codes only when no length limiting happened
    return None


def random_valid_bits(rng, nsym):
    """bits[1..16] with Kraft slack for nsym symbols (<=256)"""
    while True:
        lens = []
        budget = (1 << 16) - 1  # leave one code point
        for _ in range(nsym):
            l = rng.range(1, 16)
            c = 1 << (16 - l)
            tries = 0
            while c > budget and l < 16:
                l += 1
                c = 1 << (16 - l)
            if c > budget:
                break
            budget -= c
            lens.append(l)
        if lens:
            bits = [0] * 17
            for l in lens:
                bits[l] += 1
            # unused code point of the *longest* length must exist
            lmax = max(lens)
            if sum(bits[l] << (16 - l) for l in range(1, 17)) + (1 << (16 - lmax)) <= (1 << 16):
                return bits, len(lens)


def run(ctx):
    rng = ctx.rng
    ctx.regen(["Nbits", "StdHuff", "HuffGen", "HuffSym"])
    ctx.prove()
    drv = ctx.model_driver()
    flavours = ["simd", "plain"] if not ctx.thorough() else ["simd", "plain", "asan"]
    exes = {fl: ctx.cc("c19", ["c19.c"], fl, libs=("jpeg",)) for fl in flavours}

    cases = []   # (line, kind, meta)
    if ctx.replay:          # re-execute exactly the recorded case
        import json
        r = json.load(open(ctx.replay))
        l = r.get("case", "")
        if l:
            kind = "corpus-" + l.split()[0]
            meta = [int(x) for x in l.split()[1:257]] if l.startswith("gen ") else None
            if l.startswith("nbits "):
                kind, meta = "nbits", tuple(int(x) for x in l.split()[1:3])
            cases.append((l, kind, meta))
        return run_cases(ctx, cases, exes, drv, flavours)
    # corpus first
    cdir = os.path.join(core.VERIF, "corpus", "C19")
    if os.path.isdir(cdir):
        for fn in sorted(os.listdir(cdir)):
            for l in open(os.path.join(cdir, fn)):
                l = l.strip()
                if l:
                    kind = "corpus-" + l.split()[0]
                    meta = [int(x) for x in l.split()[1:257]] if l.startswith("gen ") else None
                    cases.append((l, kind, meta))
    nh = ctx.n(3000, 60000)
    kinds = ["sparse", "dense", "equal", "single", "fib", "fibmix", "near1e9", "ties", "image", "full", "deep"]
    for i in range(nh):
        k = kinds[i % len(kinds)] if i < 4 * len(kinds) else rng.choice(kinds)
        f = gen_hist(rng, k)
        cases.append(("gen " + " ".join(map(str, f)), "gen-" + k, f))
    # tables: valid (random Kraft-feasible), std-like, and malformed
    nt = ctx.n(1500, 30000)
    for i in range(nt):
        isdc = rng.chance(1, 3)
        lossless = rng.chance(1, 4)
        mode = rng.choice(["valid", "valid", "valid", "overfull", "dup", "dcrange", "kraft", "allones", "overlong"])
        nsym = rng.range(1, 17 if isdc else 256)
        bits, n = random_valid_bits(rng, nsym)
        pool = list(range(17 if (isdc and lossless) else 16)) if isdc else list(range(256))
        vals = rng.shuffle(pool)[:n]
        if len(vals) < n:
            bits, n = random_valid_bits(rng, len(vals))
            vals = vals[:n]
        if mode == "overfull":
            bits[rng.range(1, 16)] = rng.range(200, 255)
            vals = (vals + rng.shuffle(range(256)))[:256]
        elif mode == "dup" and n >= 2:
            vals[rng.below(n)] = vals[rng.below(n)]
        elif mode == "dcrange":
            isdc = True
            vals[rng.below(n)] = rng.range(15, 40)
        elif mode == "kraft":
            l = rng.range(1, 8)
            bits[l] = min(255, bits[l] + (1 << l))
            vals = (vals + [v for v in rng.shuffle(range(256)) if v not in vals])[:sum(bits[1:])]
        elif mode == "allones":
            # complete code: fill the remaining Kraft budget at the longest length
            lmax = max(l for l in range(1, 17) if bits[l])
            rem = (1 << 16) - sum(bits[l] << (16 - l) for l in range(1, 17))
            add = rem >> (16 - lmax)
            if sum(bits[1:]) + add <= 256 and bits[lmax] + add <= 255:
                bits[lmax] += add
                vals = (vals + [v for v in rng.shuffle(pool) if v not in vals])[:sum(bits[1:])]
        elif mode == "overlong":
            # over-subscribed ONLY at the longest length: complete the code there, then 1..3 codes more
            lmax = max(l for l in range(1, 17) if bits[l])
            rem = (1 << 16) - sum(bits[l] << (16 - l) for l in range(1, 17))
            add = (rem >> (16 - lmax)) + rng.range(1, 3)
            if sum(bits[1:]) + add <= 256 and bits[lmax] + add <= 255:
                bits[lmax] += add
                vals = (vals + [v for v in rng.shuffle(pool) if v not in vals])[:sum(bits[1:])]
        head = "%d %d %s | %s" % (1 if isdc else 0, 1 if lossless else 0, " ".join(map(str, bits[1:])), " ".join(map(str, vals)))
        if rng.chance(1, 2):
            cases.append(("tbl " + head, "tbl-" + mode, None))
        else:
            ns = rng.range(1, 300)
            src = vals if (vals and rng.chance(9, 10)) else list(range(256))
            syms = [rng.choice(src) for _ in range(ns)]
            cases.append(("rt " + head + " | " + " ".join(map(str, syms)), "rt-" + mode, syms))
    # decoder tables across a DHT that redefines a slot between scans (real codec, oracle only)
    for i in range(ctx.n(40, 600)):
        cases.append(("ms %d %d %d" % (rng.range(1, 1 << 30), rng.range(8, 40), rng.range(8, 40)), "ms", None))
    # nbits: exhaustive, in 64 slices
    for k in range(64):
        cases.append(("nbits %d %d" % (k * 1024, k * 1024 + 1023), "nbits", (k * 1024, k * 1024 + 1023)))

    return run_cases(ctx, cases, exes, drv, flavours)


def run_cases(ctx, cases, exes, drv, flavours):
    inp = ("\n".join(c[0] for c in cases) + "\n").encode()
    outs = {}
    for fl, exe in exes.items():
        rc, out, err = sh2([exe], input=inp, timeout=1800)
        lines = out.decode().split("\n")
        if rc != 0 or len(lines) < len(cases):
            idx = max(0, len(lines) - 1)
            ctx.violation("implementation crashed/aborted (%s build, rc=%d) on case %d: %s" % (fl, rc, idx, err[-300:]),
                          {"case": cases[min(idx, len(cases) - 1)][0], "flavour": fl, "stderr": err[-2000:]},
                          signature="crash:" + cases[min(idx, len(cases) - 1)][1])
            lines += ["<no output>"] * (len(cases) - len(lines))
        outs[fl] = lines
    mlines = None
    if drv:
        rc, out, err = sh2([drv], input=inp, timeout=1800)
        mlines = out.decode().split("\n")
        if rc != 0 or len(mlines) < len(cases):
            ctx.broken_tie("model-driver", "extracted model failed: rc=%d %s" % (rc, err[-200:]))
            mlines = None

    ref = outs[flavours[0]]
    disagree = 0
    for i, (line, kind, meta) in enumerate(cases):
        impl = ref[i]
        nontriv = None
        if impl == "<no output>":      # the harness died earlier in the stream (already reported as a crash)
            continue
        # ---- property-level oracle on the implementation ----
        if kind.startswith("gen-") or kind == "corpus-gen":
            nzc = sum(1 for x in meta if x)
            if nzc <= 254 and sum(meta) < 10 ** 9:
                bad = table_valid_for(meta, impl)
                if bad:
                    ctx.violation("generated table invalid: " + bad, {"case": line, "impl": impl}, signature="gen-invalid:" + kind)
            nontriv = ("gen", impl)
        elif kind.startswith("rt-") or kind == "corpus-rt":
            if " ; dec " in impl:
                dec = [int(x) for x in impl.split(" ; dec ")[1].split()]
                syms = meta if meta is not None else [int(x) for x in line.split("|")[2].split()]
                if dec != syms:
                    ctx.violation("derived tables are not inverse: decode(encode(s)) != s",
                                  {"case": line, "impl": impl}, signature="rt-mismatch:" + kind)
            nontriv = ("rt", impl[:200])
        elif kind == "ms":
            if not impl.startswith("ms same"):
                ctx.violation("decoder tables do not follow a DHT that redefines a slot between scans: multi-scan and single-scan encodings of one image read back different coefficients (%s)" % impl,
                              {"case": line, "impl": impl}, signature="ms-slot-redefinition")
            nontriv = ("ms", line)
        elif kind == "nbits":
            lo, hi = meta
            exp = "nb " + " ".join(str(x.bit_length()) for x in range(lo, hi + 1))
            if impl != exp:
                got = impl.split()[1:]
                bad = [lo + j for j in range(len(got)) if int(got[j]) != (lo + j).bit_length()][:3]
                ctx.violation("JPEG_NBITS wrong at %s" % bad, {"case": line, "first_bad": bad}, signature="nbits")
            nontriv = ("nbits", lo)
        else:
            nontriv = ("tbl", impl[:300])
        # ---- all builds agree ----
        for fl in flavours[1:]:
            if outs[fl][i] != impl:
                ctx.violation("builds disagree (%s vs %s)" % (flavours[0], fl), {"case": line, flavours[0]: impl, fl: outs[fl][i]},
                              signature="build-disagree:" + kind)
        # ---- model correspondence ----
        if mlines is not None and kind != "ms" and mlines[i] != impl:
            disagree += 1
            if disagree <= 3:
                ctx.log("model/impl disagree on", kind, "\n  case :", line[:160], "\n  model:", mlines[i][:160], "\n  impl :", impl[:160])
                ctx.broken_tie("correspondence:" + kind.split("-")[0],
                               "model and implementation differ on: %s || model=%s || impl=%s" % (line[:300], mlines[i][:200], impl[:200]))
        ctx.count(kind, 1, nontriv)
        if i % 997 == 0:
            ctx.sample({"case": line[:400], "impl": impl[:300]})
    if mlines is not None:
        ctx.cov["traces_validated_against_impl"] = len(cases)
    ctx.cov["model_impl_disagreements"] = disagree
    ctx.cov["rule"] = ("histograms (11 families incl. Fibonacci-like, ties, near 10^9, 255/256-symbol and depth>32 boundary families), "
                       "valid and malformed (bits,huffval) tables, encode/decode round trips through the real HUFF_DECODE, exhaustive nbits 0..65535; "
                       "a case is distinct/non-trivial when its implementation output line is distinct")
    ctx.assume += ["correspondence is differential testing of the hand model against the real functions; it supports the tie, not the theorem",
                   "property-level oracle for generated tables applied to histograms with <= 254 non-zero symbols and untruncated depth <= 32 "
                   "(255/256 symbols: UINT8 bits[] boundary; depth>32: JERR_HUFF_CLEN_OVERFLOW boundary -- model-vs-code only)"]
