"""C13 -- JPEG destination buffer contract: never overrun, sized results, worst-case size.

1. translator : tools/gen_Dest.py (constants + the statements of jdatadst-tj.c / jdatadst.c /
                jchuff.c STORE_BUFFER / jcicc.c / tj3JPEGBufSize the model mirrors), gen_StdHuff
2. proofs     : coq/props/C13.v over coq/model/Dest.v (+ model/WorstCase.v)
3. correspondence: the extracted model (ml/C13_driver) vs harness/c13.c on the same histories:
     D  the harness is the producer (arbitrary chunkings) on the REAL jpeg_mem_dest_tj /
        empty_mem_output_buffer / term_mem_destination of the working tree, traced heap
     I  the same on jdatadst.c jpeg_mem_dest
     T  real tj3Compress8 / tj3Transform on a persistent handle with capacities at every
        boundary, NOREALLOC on/off, reuse sequences
   compared: heap trace of the destination manager (malloc/free order, sizes, who), status,
   returned pointer (block id), size, contents checksum.
4. property-level oracle on the implementation's own output: no write outside the live block
   (checked before each write / guard page / canary / ASan), no free of a dead, foreign or
   handed-over block, NOREALLOC never moves the buffer, returned bytes = reference JPEG that
   decodes, worst-case probes fit in tj3JPEGBufSize (+ICC).
The model also classifies histories: caller misuse (cb) and hazards (hz: address recycling,
with the code before the zero-size fix also *jpegSize = 0 on reuse) are outside the proved
theorem; the address-recycling history is the known finding and is replayed in separate
processes; the F2 and zero-size histories are regression cases of the corpus.
"""
import json
import os
import re
from vlib import core
from vlib.core import sh2

GRAY, RGB, CMYK = 6, 0, 11
ADV = ("0 3 250 255 255 255 13 4 255 255 255 0 255 250 0 0 15 1 252 255 255 0 4 0 0 246 0 0 0 3 251 255 "
       "255 0 0 0 2 255 6 0 223 255 9 14 255 247 0 255 250 4 0 255 10 252 0 0 255 255 0 255 0 0 15 255")


# ------------------------------------------------------------------ generators
def chunking(rng, n):
    """a producer of exactly n bytes: mixture of single bytes and chunks < 512"""
    out = []
    left = n
    style = rng.below(5)
    while left > 0:
        if style == 0:
            c = -min(left, rng.range(1, 700))
        elif style == 1:
            c = min(left, rng.range(1, 511))
        elif style == 2:
            c = min(left, 511)
        elif style == 3:
            c = min(left, rng.choice([1, 2, 255, 256, 400, 510, 511])) * (1 if rng.chance(2, 3) else -1)
        else:
            c = min(left, rng.range(1, 511)) * (1 if rng.chance(1, 2) else -1)
        out.append(c)
        left -= abs(c)
    return out


def pick_n(rng):
    k = rng.below(10)
    if k == 0:
        return rng.range(1, 40)
    if k == 1:
        return rng.choice([4095, 4096, 4097, 8191, 8192, 8193, 16383, 16384, 16385])
    if k == 2:
        return rng.range(1, 9) * (1 << rng.range(0, 11)) + rng.range(-1, 1)
    if k == 3:
        return rng.range(3000, 20000)
    return rng.range(1, 6000)


def pick_cap(rng, n):
    k = rng.below(12)
    if k == 0:
        return rng.choice([0, 1, 2, 3])
    if k == 1:
        return max(0, n + rng.range(-2, 2))
    if k == 2:
        return max(0, (n + rng.range(-1, 1)) // 2 + rng.range(-1, 1))
    if k == 3:          # a doubling step lands exactly on / next to the end of data
        c = n
        for _ in range(rng.range(1, 6)):
            if c % 2 == 0 and c > 1:
                c //= 2
        return max(0, c + rng.range(-1, 1))
    if k == 4:
        return rng.choice([4095, 4096, 4097, 511, 512, 513])
    if k == 5:
        return 2 * n + rng.range(0, 3)
    return rng.range(1, max(2, 2 * n))


def gen_history(rng, mgr, ncalls, call_maker):
    """call_maker(rng) -> (n, fn(alloc) -> op string).  Returns the history line."""
    ops = []
    have_buf = False        # caller variable non-NULL
    last_ok_alloc = False
    held = 0
    last_cap = 1
    for _ in range(ncalls):
        n, mk = call_maker(rng)
        alloc = 1 if (mgr == "ijg" or rng.chance(2, 3)) else 0
        choice = rng.below(10)
        if not have_buf:
            choice = rng.choice([0, 1, 1, 1])
        if choice == 0:                                   # NULL buffer
            if have_buf:
                d = rng.below(3)
                if d == 0:
                    ops.append("F")
                elif d == 1:
                    ops += ["S", "N"]
                    held += 1
                else:
                    ops.append("N")
            if rng.chance(1, 4):
                ops.append("Z %d" % rng.choice([0, 1, n, 100000]))
            have_buf = False
        elif choice <= 5:                                 # fresh caller buffer
            if have_buf:
                d = rng.below(3)
                if d == 0:
                    ops.append("F")
                elif d == 1:
                    ops.append("S")
                    held += 1
            last_cap = pick_cap(rng, n)
            ops.append("A %d 0" % last_cap)
            if rng.chance(1, 3):
                ops.append("S")
                held += 1
            if rng.chance(1, 8):                          # under-report the capacity (allowed)
                ops.append("Z %d" % rng.range(0, 8))
            have_buf = True
        else:                                             # pass the previous pointer again
            if rng.chance(2, 5):                          # ... through another (pointer, size) record
                ops.append("V %d" % rng.below(8))
            elif rng.chance(1, 12):
                ops.append("P %d" % rng.below(8))
            if mgr == "ijg" and rng.chance(1, 2):         # jpeg_mem_dest re-armed with a smaller / larger granted size
                ops.append("Z %d" % rng.choice([1, 2, max(1, n // 2), max(1, n - 1), n, n + 1, rng.range(1, max(2, last_cap))]))
            if last_ok_alloc and alloc and mgr != "ijg" and rng.chance(1, 3):
                ops.append("Z %d" % rng.choice([0, 0, 1, 7, n, 10 * n + 5, 1 << 40]))   # "ignored" when reusing
        ops.append(mk(alloc))
        have_buf = True if alloc else have_buf
        last_ok_alloc = bool(alloc)
        if held and rng.chance(1, 3):
            k = rng.below(held)
            ops.append(("G %d" if rng.chance(2, 3) else "T %d") % k)
            held -= 1
    if rng.chance(1, 2):
        ops.append("F")
    return "hist %s ; %s" % (mgr, " ; ".join(ops))


def d_call_maker(rng):
    n = pick_n(rng)
    cs = chunking(rng, n)
    if rng.chance(1, 25):
        cs.insert(rng.below(len(cs) + 1), 0)              # error exit of the compressor
    seed = rng.below(1000)
    return n, (lambda alloc: "C %d %d %s" % (alloc, seed, " ".join(map(str, cs))))


def i_call_maker(rng):
    n = pick_n(rng)
    cs = chunking(rng, n)
    seed = rng.below(1000)
    return n, (lambda alloc: "C 1 %d %s" % (seed, " ".join(map(str, cs))))


def make_specs(rng, count):
    specs = []
    fixed = [(1, 16, 16, RGB, 2, 75, 1, 0, -1, 0), (5, 33, 17, RGB, 0, 90, 2, 0, -1, 0),
             (2, 64, 64, GRAY, 3, 100, 3, 0, -1, 0), (2, 48, 48, CMYK, 0, 95, 4, 0, -1, 0),
             (1, 40, 24, RGB, 1, 50, 5, 300, -1, 0), (5, 64, 48, RGB, 2, 85, 6, 0, 5, 0),
             (2, 32, 32, RGB, 0, 100, 7, 0, -1, 1), (5, 37, 29, RGB, 2, 80, 8, 0, -1, 4),
             (2, 24, 24, RGB, 0, 75, 9, 0, -1, 8), (0, 8, 8, GRAY, 3, 75, 10, 0, -1, 0),
             (5, 96, 64, RGB, 2, 92, 11, 70000, -1, 2), (2, 128, 96, RGB, 0, 98, 12, 0, -1, 16)]
    specs += fixed
    while len(specs) < count:
        pf = rng.choice([RGB, RGB, GRAY, CMYK])
        sub = 3 if pf == GRAY else rng.choice([0, 1, 2, 4, 5, 6] if pf == RGB else [0, 1, 2])
        xop = rng.choice([-1, -1, -1] + list(range(8)))
        if xop >= 0:
            mode = rng.choice([0, 1, 2, 4, 16, 32, 64, 3, 18, 65])
            if pf == CMYK:
                mode &= ~32
        else:
            mode = rng.choice([0, 0, 1, 2, 4, 8, 16, 3, 17, 5, 18])
        specs.append((rng.choice([0, 1, 2, 3, 5, 5]), rng.range(1, 80), rng.range(1, 80), pf, sub,
                      rng.choice([1, 30, 75, 90, 100]), rng.below(1000),
                      rng.choice([0, 0, 0, 1, 500, 65519, 65520]), xop, mode))
    return specs


def spec_str(s):
    return " ".join(map(str, s))


# ---------------------------------------------------------------------- running
BAD_TOKENS = re.compile(r"(![a-z]+|\?[a-z]+|STOP|SEGV[-A-Z]*|DIFF|unreadable|rerr\[[^\]]*\]|rother|rfuel|norecycle|refsize=\d+)")


def run_lines(exe, lines, env=None, timeout=900):
    inp = ("\n".join(lines) + "\n").encode()
    rc, out, err = sh2([exe], input=inp, timeout=timeout, env=env)
    return rc, out.decode("utf-8", "replace").split("\n"), err


def model_lines(ctx, drv, lines):
    if not drv:
        return None
    rc, out, err = run_lines(drv, lines)
    if rc != 0 or len(out) < len(lines):
        ctx.broken_tie("model-driver", "extracted model failed: rc=%d %s" % (rc, err[-200:]))
        return None
    return out


def classify(tok):
    if tok.startswith("!df") or tok.startswith("!fh"):
        return "library-frees-buffer-it-no-longer-owns"
    if tok.startswith("!ff"):
        return "library-frees-caller-buffer"
    if tok.startswith("!ov") or tok.startswith("!or") or tok.startswith("SEGV") or tok == "STOP":
        return "write-outside-destination-buffer"
    if tok.startswith("!pair"):
        return "result-stored-through-another-call's-variables"
    if tok.startswith("!moved"):
        return "norealloc-moved-buffer"
    if tok == "DIFF" or tok == "unreadable":
        return "result-not-the-complete-jpeg"
    return "unexpected:" + tok[:20]


def judge(ctx, stream, line, impl, model, flavour):
    """oracle on the implementation's line first, then correspondence"""
    toks = BAD_TOKENS.findall(impl)
    if toks and all(t.startswith("refsize") for t in toks):
        ctx.broken_tie("harness:reference-size", "reference size changed between passes: %s :: %s" % (line[:200], impl[:200]))
        return False
    toks = [t for t in toks if not t.startswith("refsize")]
    if toks:
        ctx.violation("%s [%s build]: %s on history: %s" % (classify(toks[0]), flavour, impl[:200], line[:300]),
                      {"lines": [line], "impl": impl, "model": model, "flavour": flavour, "stream": stream},
                      signature="%s:%s" % (stream, classify(toks[0])))
        return False
    if model is not None and impl.strip() != model.strip():
        ctx.log("model/impl disagree (%s, %s)\n  case : %s\n  model: %s\n  impl : %s" % (stream, flavour, line[:300], model[:300], impl[:300]))
        ctx.broken_tie("correspondence:" + stream, "model and implementation differ on: %s || model=%s || impl=%s" % (line[:300], model[:200], impl[:200]))
        return False
    return True


def run_stream(ctx, stream, lines, drv, exes, asan_every, ncorpus=0, keep_hazard=False):
    """filter by the model's classification, run on the implementation(s), compare"""
    if not lines:
        return 0
    ml = model_lines(ctx, drv, lines)
    keep, exp = [], []
    dropped = 0
    for i, l in enumerate(lines):
        if ml is None:
            # no model to classify caller misuse: run only histories that cannot contain any
            # (every pointer is freed at most once, sizes are never overstated)
            if not re.search(r"; (S|G|T|Z|P)\b", l):
                keep.append(l)
                exp.append(None)
            continue
        body, _, tail = ml[i].partition(" | ")
        m = re.search(r"ok=(\d) cb=(\d+) hz=(\d+) bad=(\d+)", tail)
        if not m:
            ctx.broken_tie("model-driver", "unparsable model line: " + ml[i][:100])
            continue
        if m.group(1) != "1" and not (keep_hazard and m.group(2) == "0"):
            dropped += 1            # caller misuse / hazard: outside the theorem, not run
            if i < ncorpus:
                # a regression history of the corpus became a hazard under the current source
                # (a fix was reverted): replay it alone, it may crash
                rc, o, err = finding_run(ctx, exes["simd"], l)
                if rc != 0 or BAD_TOKENS.search(o):
                    toks = BAD_TOKENS.findall(o) or ["STOP"]
                    ctx.violation("regression history fails again: %s -> %s (model: %s)" % (l[:300], o[-160:], ml[i][-80:]),
                                  {"lines": [l], "impl": o, "model": ml[i], "flavour": "simd", "stream": stream},
                                  signature="%s:regression:%s" % (stream, classify(toks[0])))
            continue
        keep.append(l)
        exp.append(body)
    ctx.cov["streams"][stream + "-dropped-by-model-classification"] = dropped
    for flavour, exe in exes.items():
        sub = list(range(len(keep))) if flavour != "asan" else [i for i in range(len(keep)) if i % asan_every == 0]
        if not sub:
            continue
        rc, out, err = run_lines(exe, [keep[i] for i in sub])
        if rc != 0 or len(out) < len(sub):
            idx = max(0, min(len(sub) - 1, len([o for o in out if o]) - (1 if rc in (3, 4) else 0)))
            bad_line = keep[sub[idx]]
            last = out[idx] if idx < len(out) else ""
            what = "sanitizer report" if "Sanitizer" in err else "crash"
            ctx.violation("%s in the %s build (rc=%d) on history: %s :: %s :: %s" % (what, flavour, rc, bad_line[:300], last[:200], err[-400:]),
                          {"lines": [bad_line], "flavour": flavour, "stderr": err[-3000:], "stream": stream},
                          signature="%s:%s" % (stream, "write-outside-destination-buffer" if ("overflow" in err or rc == 3) else "crash"))
            out = out + [""] * (len(sub) - len(out))
            sub = sub[:idx]
        for j, i in enumerate(sub):
            ok = judge(ctx, stream, keep[i], out[j].rstrip(), exp[i], flavour)
            if flavour != "asan":
                dist = ctx.cov.setdefault("distribution", {})
                o, l = out[j], keep[i]
                for key, n in (("calls-ok", o.count("rok:")), ("calls-buffer-size-error", o.count("rbufsize:")),
                               ("calls-producer-abort", o.count("rabort:")), ("growth-steps", len(re.findall(r"m\d+:\d+:L", o))),
                               ("calls-norealloc", len(re.findall(r"; [CJ] 0 ", l))), ("calls-realloc", len(re.findall(r"; [CJ] 1 ", l))),
                               ("record-switch-copy(V)", l.count("; V ")), ("record-switch(P)", l.count("; P ")),
                               ("size-set-to-0", l.count("; Z 0 ")), ("null-buffer-calls", len(re.findall(r"; N ; (?:Z \d+ ; )?[CJ]", l))),
                               ("fresh-buffer-size-0-or-1", len(re.findall(r"; A [01] 0", l))), ("caller-frees", l.count("; F") + l.count("; G ")),
                               ("direct-chunk-path(free>=512)", len(re.findall(r" 51[01]\b", l))), ("single-byte-runs", len(re.findall(r" -\d+", l)))):
                    if n:
                        dist[stream + ":" + key] = dist.get(stream + ":" + key, 0) + n
                ctx.count(stream, 1, (stream, re.sub(r":\d+ ", ": ", out[j])[:160]))
                if (i % 701) == 0:
                    ctx.sample({"case": keep[i][:300], "impl": out[j][:300]})
    return len(keep)


def finding_run(ctx, exe, line, env=None):
    rc, out, err = run_lines(exe, [line], env=env, timeout=300)
    return rc, (out[0] if out else ""), err


# ------------------------------------------------------------------------- main
def run(ctx):
    rng = ctx.rng
    ctx.regen(["Dest", "StdHuff", "WorstCase", "XformIcc", "Encoders", "Nbits"])
    ctx.prove()
    drv = ctx.model_driver()
    srcs = ["c13.c", "c13_ijg.c"]
    exes = {"simd": ctx.cc("c13", srcs, "simd"), "asan": ctx.cc("c13", srcs, "asan")}
    asan_env = {"ASAN_OPTIONS": "quarantine_size_mb=0:thread_local_quarantine_size_kb=0:detect_leaks=0:abort_on_error=0"}

    if ctx.replay:
        r = json.load(open(ctx.replay))
        fl = r.get("flavour", "simd")
        for l in r.get("lines", []):
            if l.startswith("hist"):
                ml = model_lines(ctx, drv, [l])
                rc, o, err = finding_run(ctx, exes.get(fl, exes["simd"]), l, env=asan_env if fl == "asan" else None)
                ctx.log("replay", fl, "rc=%d" % rc, "\n  impl :", o[:400], "\n  model:", (ml[0] if ml else "-")[:400], "\n ", err[-600:])
                if rc != 0 or BAD_TOKENS.search(o):
                    ctx.violation("replayed: " + r.get("what", "")[:200], r, signature=r.get("signature"))
            elif l.startswith("hk "):
                rc, o, err = finding_run(ctx, exes.get(fl, exes["simd"]), l, env=asan_env if fl == "asan" else None)
                ctx.log("replay rc=%d %s %s" % (rc, o[:300], err[-300:]))
                if rc != 0 or " other " in o or "DIFF" in o:
                    ctx.violation("replayed: " + r.get("what", "")[:200], r, signature=r.get("signature"))
            elif l.startswith("xcrop"):
                rc, o, err = finding_run(ctx, exes["simd"], l)
                ctx.log("replay rc=%d %s" % (rc, o[:300]))
                m = re.match(r"xcrop cap=(\d+) sizefn=(\w+) transform=(\w+) total=(\d+) norealloc=(\w+)", o)
                if rc != 0 or not m or m.group(2) != m.group(3) or (m.group(2) == "accept" and (int(m.group(4)) > int(m.group(1)) or m.group(5) != "ok")):
                    ctx.violation("replayed: " + r.get("what", "")[:200], r, signature=r.get("signature"))
            elif l.startswith("xicc") or l.startswith("xmk"):
                rc, o, err = finding_run(ctx, exes["simd"], l)
                ctx.log("replay rc=%d %s" % (rc, o[:300]))
                if rc != 0 or "norealloc=ok" not in o:
                    ctx.violation("replayed: " + r.get("what", "")[:200], r, signature=r.get("signature"))
            else:
                rc, o, err = finding_run(ctx, exes["simd"], l)
                ctx.log("replay rc=%d %s" % (rc, o[:300]))
                if worst_case_bad(o):
                    ctx.violation("replayed: " + r.get("what", "")[:200], r, signature=r.get("signature"))
        return

    # ---- corpus (regression histories, run through the same streams)
    corpus = []
    cdir = os.path.join(core.VERIF, "corpus", "C13")
    if os.path.isdir(cdir):
        for fn in sorted(os.listdir(cdir)):
            for l in open(os.path.join(cdir, fn)):
                l = l.strip()
                if l and not l.startswith("#"):
                    corpus.append(l)

    # ---- pass 1: sizes of the real-encoder operations
    specs = make_specs(rng, ctx.n(40, 160))
    hostile = [(0, 8, 8, GRAY, 3, 90, pat, 0, 0, 128 | 64) for pat in range(8)] + \
              [(0, 16, 8, GRAY, 3, 90, pat, 0, 0, 128 | 64) for pat in (0, 3, 4)] + \
              [(0, 8, 8, RGB, 0, 90, pat, 0, 0, 128 | 64) for pat in (0, 3)] + \
              [(0, 8, 8, GRAY, 3, 90, 0, 0, 0, 128 | 64 | 2), (0, 8, 8, GRAY, 3, 90, 3, 500, 0, 128)] + \
              [(0, 8, 8, GRAY, 3, 90, pat, 0, 0, 128 | 64 | 2 | 256) for pat in (0, 2, 3, 7)] + \
              [(0, 16, 8, GRAY, 3, 90, 3, 0, 0, 128 | 64 | 2 | 256)]     # 12-bit source: |coef| up to 16383, optimised tables
    # operations WITH restart markers in every entropy mode (sequential, optimised, progressive, arithmetic, lossless, transform)
    restart_specs = [(2, 40, 24, RGB, 0, 90, 21, 0, -1, 16), (5, 48, 32, RGB, 2, 85, 22, 0, -1, 16 | 2), (2, 32, 32, GRAY, 3, 95, 23, 0, -1, 512),
                     (2, 40, 24, RGB, 0, 90, 24, 0, -1, 16 | 1), (2, 40, 24, RGB, 0, 90, 25, 0, -1, 16 | 4), (2, 32, 24, RGB, 0, 90, 26, 0, -1, 8 | 512),
                     (2, 40, 32, RGB, 1, 90, 27, 0, 5, 16), (2, 48, 16, GRAY, 3, 100, 28, 300, -1, 16)]
    # operations with ICC profiles (one chunk, chunk boundary 65519/65520, two chunks) for the marker-boundary stream
    icc_specs = [(1, 40, 24, RGB, 1, 50, 5, 300, -1, 0), (5, 24, 16, GRAY, 3, 80, 31, 1, -1, 0), (1, 16, 16, RGB, 2, 75, 32, 65519, -1, 0),
                 (1, 16, 16, RGB, 2, 75, 33, 65520, -1, 0), (5, 32, 16, RGB, 0, 90, 34, 3000, 0, 64), (5, 32, 16, RGB, 0, 90, 35, 2000, 5, 0)]
    specs = specs + hostile + restart_specs + [x for x in icc_specs if x not in specs]
    rc, out, err = run_lines(exes["simd"], ["size " + spec_str(s) for s in specs])
    sized = []
    sos_of = {}
    rst_of = {}
    seg_of = {}
    for s, o in zip(specs, out):
        m = re.match(r"size (\d+) dec=(\w+)(?: sos=(\d+))?(?: rst=([\d,]*))?", o)
        if m and m.group(3):
            sos_of[s] = int(m.group(3))
        if m and m.group(4):
            rst_of[s] = [int(x) for x in m.group(4).split(",") if x]
        mseg = re.search(r" seg=([\d,]+)", o)
        if mseg:
            seg_of[s] = [int(x) for x in mseg.group(1).split(",") if x]
        if m and int(m.group(1)) > 0:
            if m.group(2) != "ok":
                ctx.violation("library output does not decode: " + spec_str(s), {"lines": ["size " + spec_str(s)], "impl": o},
                              signature="T:result-not-the-complete-jpeg")
            sized.append((s, int(m.group(1))))
    if rc != 0 or len(sized) < len(specs) // 2:
        ctx.broken_tie("harness:size-pass", "size pass failed rc=%d %s" % (rc, err[-300:]))
    ctx.log("size pass: %d/%d operations usable" % (len(sized), len(specs)))

    def t_call_maker(r):
        s, n = r.choice(sized)
        return n, (lambda alloc: "J %d %d %s" % (alloc, n, spec_str(s)))

    # ---- histories
    d_lines = [l for l in corpus if l.startswith("hist tj ")]
    i_lines = [l for l in corpus if l.startswith("hist ijg ")]
    ncd, nci = len(d_lines), len(i_lines)
    for _ in range(ctx.n(2500, 30000)):
        d_lines.append(gen_history(rng, "tj", rng.range(1, 5), d_call_maker))
    for _ in range(ctx.n(600, 6000)):
        i_lines.append(gen_history(rng, "ijg", rng.range(1, 4), i_call_maker))
    t_lines = []
    nct = 0
    if sized:
        # corpus lines of the T stream name the operation by index into the fixed specs
        for l in corpus:
            if l.startswith("histT "):
                def sub(m):
                    s, n = sized[int(m.group(2)) % len(sized)]
                    return "J %s %d %s" % (m.group(1), n, spec_str(s))
                t_lines.append("hist tjx " + re.sub(r"J (\d) #(\d+)", sub, l[6:]))
        nct = len(t_lines)
        for _ in range(ctx.n(900, 10000)):
            t_lines.append(gen_history(rng, "tjx", rng.range(1, 4), t_call_maker))
    # ---- H: maximal-magnitude coefficients (tj3Transform custom filter) through the real encoder with capacities
    #         leaving 200..520 bytes at a hostile block: the window in which a block longer than the jchuff.c
    #         staging threshold would be written past the buffer (guard page behind every block, ASan subset)
    h_lines = []
    sizes = dict(sized)
    step = ctx.n(3, 1)
    for hs in hostile:
        if hs not in sizes or hs not in sos_of:
            continue
        n, sos = sizes[hs], sos_of[hs]
        nblocks = (hs[1] // 8) * (hs[2] // 8) * (3 if hs[3] == RGB else 1)
        blen = max(1, (n - sos - 2) // nblocks)
        for k in range(nblocks if hs[1] > 8 or hs[3] == RGB else 1):
            off = rng.below(step)
            for leave in range(200 + off, 521, step):
                cap = sos + k * blen + leave
                h_lines.append("hist tjx ; A %d 0 ; J %d %d %s ; F" % (cap, (leave + k) & 1, n, spec_str(hs)))
    nh = run_stream(ctx, "H", h_lines, drv, exes, 2)
    # ---- R: outputs WITH restart markers: the returned bytes must be the reference JPEG at every initial capacity; the
    #         capacities are derived from the reference: every c with c*2^k - 1 or c*2^k (+-1) on a marker offset, so that
    #         a marker starts on / just before / just after a growth boundary; thorough adds the full sweep 1..size+2
    r_lines = []
    for rs in restart_specs:
        if rs not in sizes or rs not in rst_of:
            continue
        n = sizes[rs]
        caps = set()
        for mo in rst_of[rs] + [n - 2]:
            for target in (mo - 1, mo, mo + 1, mo + 2):
                t = target
                while t >= 1:
                    caps.add(t)
                    if t % 2:
                        break
                    t //= 2
        caps = sorted(c for c in caps if 1 <= c <= n + 2)
        if ctx.thorough():
            caps = list(range(1, n + 3)) if n <= 6000 else caps
        elif len(caps) > 90:
            caps = rng.shuffle(caps)[:90]
        for c in caps:
            r_lines.append("hist tjx ; A %d 0 ; J 1 %d %s ; F" % (c, n, spec_str(rs)))
        r_lines.append("hist tjx ; J 1 %d %s ; F" % (n, spec_str(rs)))
    nr = run_stream(ctx, "R", r_lines, drv, exes, 3)
    # ---- M: a growth boundary / the end of the caller's buffer exactly on, just before and just behind the end of every
    #         header segment (SOI, JFIF, every ICC APP2 chunk, DQT, SOF, DHT, SOS header) and the end of the file: every c
    #         with c*2^k in {e-1, e, e+1}, NOREALLOC and realloc -- a writer that fills the buffer exactly must still empty it
    m_lines = []
    for ms in icc_specs + restart_specs[:2] + [specs[0], specs[2]]:
        if ms not in sizes or ms not in seg_of:
            continue
        n = sizes[ms]
        caps = set()
        for e in seg_of[ms] + [n - 2, n]:
            for t in (e - 1, e, e + 1):
                while t >= 1:
                    caps.add(t)
                    if t % 2:
                        break
                    t //= 2
        caps = sorted(c for c in caps if 1 <= c <= n + 2)
        if not ctx.thorough() and len(caps) > 70:
            # keep the exact hits (c*2^k == e) and sample the neighbours
            exact = set()
            for e in seg_of[ms]:
                t = e
                while t >= 1:
                    exact.add(t)
                    if t % 2:
                        break
                    t //= 2
            rest = [c for c in caps if c not in exact]
            caps = sorted(exact | set(rng.shuffle(rest)[:max(0, 70 - len(exact))]))
        for c in caps:
            m_lines.append("hist tjx ; A %d 0 ; J %d %d %s ; F" % (c, c & 1, n, spec_str(ms)))
            if c in seg_of[ms] or (2 * c) in seg_of[ms]:
                m_lines.append("hist tjx ; A %d 0 ; J %d %d %s ; F" % (c, 1 - (c & 1), n, spec_str(ms)))
    nm = run_stream(ctx, "M", m_lines, drv, exes, 3)
    ctx.cov["marker_boundary_capacities"] = len(m_lines)
    ctx.cov["restart_marker_capacities"] = len(r_lines)
    # ---- S: jpeg_mem_dest re-armed on the same object with the SAME pointer value after the caller shrank the block
    #         in place (free + smaller allocation at the same address: canary / poisoned tail behind it): the granted
    #         size must be honoured.  Outside the w_ok theorems (address recycling) but inside C13_ijg_safe_any_allocator; model compared.
    s_lines = [l for l in corpus if l.startswith("histS ")]
    s_lines = ["hist" + l[5:] for l in s_lines]
    for _ in range(ctx.n(300, 3000)):
        n1, n2 = pick_n(rng), pick_n(rng)
        c1 = max(n1 + 1, pick_cap(rng, n1))
        c2 = rng.choice([1, 2, max(1, n1), max(1, n2 // 2), max(1, n2 - 1), n2, n2 + 1, rng.range(1, c1)])
        c2 = min(c2, c1)
        s_lines.append("hist ijg ; A %d 0 ; C 1 %d %s ; F ; A %d 1 ; C 1 %d %s%s" % (
            c1, rng.below(1000), " ".join(map(str, chunking(rng, n1))), c2, rng.below(1000), " ".join(map(str, chunking(rng, n2))),
            rng.choice(["", " ; F", " ; V 3 ; Z %d ; C 1 7 -%d" % (max(1, c2 // 2), rng.range(1, 300))])))
    ns = run_stream(ctx, "S", s_lines, drv, exes, 2, keep_hazard=True)
    nd = run_stream(ctx, "D", d_lines, drv, exes, 3, ncorpus=ncd)
    ni = run_stream(ctx, "I", i_lines, drv, exes, 3, ncorpus=nci)
    nt = run_stream(ctx, "T", t_lines, drv, exes, 4, ncorpus=nct)
    ctx.cov["traces_validated_against_impl"] = nd + ni + nt + nh + ns + nr + nm if drv else 0

    # ---- K: the longest codes a table can have (lengths 1..16, code 1111111111111110 for the top category) on
    #         coefficients of maximal magnitude at 8- and 12-bit precision through jpeg_write_coefficients: the block
    #         must stay below the model's bound (< BUFSIZE) and capacities around it must never be overrun
    kl = []
    for prec in (8, 12):
        for pat in range(8):
            for nbw in (1, 2):
                off = rng.below(ctx.n(9, 2))
                for leave in range(200 + off, 521, ctx.n(9, 2)):
                    kl.append("hk %d %d %d %d %d" % (prec, pat, nbw, leave + (410 if nbw == 2 and leave & 1 else 0), (leave >> 1) & 1))
    cm = {}
    mlk = model_lines(ctx, drv, ["chunkmax 8", "chunkmax 12"])
    if mlk:
        for l in mlk[:2]:
            m = re.match(r"chunkmax (\d+)", l)
            if m:
                cm[8 if not cm else 12] = int(m.group(1))
    for fl, env in (("simd", None), ("asan", asan_env)):
        sub = kl if fl == "simd" else kl[::5]
        rc, out, err = run_lines(exes[fl], sub, env=env)
        if rc != 0:
            idx = max(0, min(len(sub) - 1, len([o for o in out if o])))
            ctx.violation("maximal-code block overruns the destination buffer (%s build, rc=%d): %s :: %s" % (fl, rc, sub[idx], err[-300:]),
                          {"lines": [sub[idx]], "flavour": fl, "stderr": err[-2000:]}, signature="K:write-outside-destination-buffer")
        worst = {}
        for l, o in zip(sub, out):
            m = re.match(r"hk n=(\d+) sos=(\d+) blk=(\d+) cap=(\d+) (\w+) (\S+) same=(\d)", o)
            if not m:
                continue
            n, blk, cap, st, ref, same = int(m.group(1)), int(m.group(3)), int(m.group(4)), m.group(5), m.group(6), m.group(7)
            prec, alloc = int(l.split()[1]), int(l.split()[5])
            worst[prec] = max(worst.get(prec, 0), blk)
            bad = None
            if st == "other" or ref == "DIFF":
                bad = "unexpected outcome"
            elif alloc == 0 and ((st == "ok") != (cap > n) or same != "1"):
                bad = "NOREALLOC outcome does not match the capacity"
            elif alloc == 1 and st != "ok":
                bad = "reallocation enabled but the call failed"
            if bad:
                ctx.violation("%s: %s -> %s" % (bad, l, o), {"lines": [l], "impl": o, "flavour": fl}, signature="K:" + bad.replace(" ", "-"))
            if fl == "simd":
                ctx.count("K", 1, ("K", prec, st, cap - n))
        for prec, b in worst.items():
            if prec in cm and b > cm[prec]:
                ctx.broken_tie("bound:block-chunk", "a %d-bit block stored %d bytes, more than the proved bound %d" % (prec, b, cm[prec]))
        if fl == "simd":
            ctx.cov["largest_block_bytes_vs_bound"] = {str(p): [worst.get(p), cm.get(p)] for p in (8, 12)}

    # ---- worst-case size + ICC of lossless transforms: NOREALLOC into exactly tj3TransformBufSize() bytes over
    #      {source ICC} x {instance ICC} x TJPARAM_SAVEMARKERS x TJXOPT_COPYNONE x {tj3GetICCProfile before}
    xl = [l for l in corpus if l.startswith("xicc ")]
    for src in (0, 3000):
        for inst in (0, 100, 3000, 70000):
            for save in range(5):
                for cn in (0, 1):
                    for getb in (0, 1):
                        xl.append("xicc %d %d %d %d %d %d %d" % (src, inst, save, cn, getb, rng.below(8), rng.below(1000)))
    for _ in range(ctx.n(20, 300)):
        xl.append("xicc %d %d %d %d %d %d %d" % (rng.choice([0, 1, 2500, 65519, 70000]), rng.choice([0, 1, 2500, 65520, 140000]),
                                                 rng.below(5), rng.below(2), rng.below(2), rng.below(8), rng.below(1000)))
    ml = model_lines(ctx, drv, xl)
    rc, out, err = run_lines(exes["simd"], xl)
    if rc != 0:
        ctx.violation("crash in the transform/ICC stream rc=%d: %s" % (rc, err[-300:]), {"lines": xl[max(0, len(out) - 2):][:1], "stderr": err[-2000:]},
                      signature="xicc:crash")
    under = 0
    for i, l in enumerate(xl):
        o = out[i].strip() if i < len(out) else ""
        m = re.match(r"xicc term=(-?\d+) written=(-?\d+) total=(\d+) cap=(\d+) norealloc=(\w+)", o)
        if not m:
            ctx.broken_tie("harness:xicc", "unexpected output %s for %s" % (o[:80], l))
            continue
        term, written, ok = int(m.group(1)), int(m.group(2)), m.group(5)
        src, inst, save, cn, getb = [int(x) for x in l.split()[1:6]]
        ctx.count("xicc", 1, ("xicc", src > 0, inst, save, cn, getb, ok))
        under += term < written
        if ok != "ok":
            if getb and src > 0 and save in (2, 4) and not cn:
                cls = "after-get-icc-profile"
            elif src == 0 and inst > 0 and save in (2, 4) and not cn:
                cls = "no-source-profile"
            else:
                cls = "save%d-copynone%d-src%d-inst%d" % (save, cn, min(src, 1), min(inst, 1))
            ctx.violation("a buffer of exactly tj3TransformBufSize() bytes is refused/overrun (%s): %s -> %s  [source ICC %d, instance ICC %d, "
                          "SAVEMARKERS %d, COPYNONE %d, tj3GetICCProfile before %d]" % (ok, l, o, src, inst, save, cn, getb),
                          {"lines": [l], "impl": o, "model": ml[i] if ml else None}, signature="xform-icc-undersized:" + cls)
        if ml is not None and ml[i].strip() != "xicc term=%d written=%d" % (term, written):
            ctx.log("transform/ICC model and implementation disagree: %s\n  model: %s\n  impl : %s" % (l, ml[i], o))
            ctx.broken_tie("correspondence:xicc", "ICC term/payload differ on %s: model %s impl %s" % (l, ml[i][:60], o[:80]))
    ctx.cov["xicc_term_below_payload"] = under

    # ---- cropped transforms: every op x crop with w/h in {0 = to the edge, explicit, too large} x non-square high-entropy
    #      images x subsamplings: tj3TransformBufSize accepts iff tj3Transform accepts, and the bound covers the output
    MCU = {0: (8, 8), 1: (16, 8), 2: (16, 16), 3: (8, 8), 4: (8, 16)}
    xc = [l for l in corpus if l.startswith("xcrop ")]
    dims = [(240, 16), (16, 240), (48, 80), (80, 48), (33, 17), (64, 64)]
    for op in range(8):
        for (w, h) in dims:
            for _ in range(ctx.n(2, 12)):
                ss = rng.choice([0, 1, 2, 3, 4])
                swap = op in (3, 4, 5, 7)
                dss = {1: 4, 4: 1}.get(ss, ss) if swap else ss
                mw, mh = MCU[dss]
                dw, dh = (h, w) if swap else (w, h)
                rx = mw * rng.below(max(1, dw // mw)) if rng.chance(2, 3) else 0
                ry = mh * rng.below(max(1, dh // mh)) if rng.chance(2, 3) else 0
                rw = rng.choice([0, 0, max(1, dw - rx), max(1, (dw - rx) // 2), dw - rx + rng.range(1, 40), 1])
                rh = rng.choice([0, 0, max(1, dh - ry), max(1, (dh - ry) // 2), dh - ry + rng.range(1, 40), 1])
                xc.append("xcrop %d %d %d %d %d %d %d %d %d %d" % (op, w, h, ss, rx, ry, rw, rh, rng.choice([75, 90]), rng.below(1000)))
    rc, out, err = run_lines(exes["simd"], xc)
    if rc != 0:
        ctx.violation("crash in the cropped-transform stream rc=%d: %s" % (rc, err[-300:]), {"lines": xc[max(0, len(out) - 2):][:1]}, signature="xcrop:crash")
    agree = {"accept": 0, "reject": 0}
    for l, o in zip(xc, out):
        m = re.match(r"xcrop cap=(\d+) sizefn=(\w+) transform=(\w+) total=(\d+) norealloc=(\w+)", o)
        if not m:
            ctx.broken_tie("harness:xcrop", "unexpected output %s for %s" % (o[:80], l))
            continue
        cap, sf, tf, total, nr_ = int(m.group(1)), m.group(2), m.group(3), int(m.group(4)), m.group(5)
        ctx.count("xcrop", 1, ("xcrop", l.split()[1], sf, tf, nr_, l.split()[7] == "0", l.split()[8] == "0"))
        bad = None
        f = [int(v) for v in l.split()[1:9]]
        dw_, dh_ = (f[2], f[1]) if f[0] in (3, 4, 5, 7) else (f[1], f[2])
        exceeds = (f[6] != 0 and f[4] + f[6] > dw_) or (f[7] != 0 and f[5] + f[7] > dh_)
        if sf != tf and exceeds and sf == "reject":
            agree["lenient"] = agree.get("lenient", 0) + 1     # tj3Transform clamps an explicit extent beyond the edge; the size function refuses it
        elif sf != tf:
            bad = "tj3TransformBufSize %ss a cropped transform that tj3Transform %ss" % (sf, tf)
        elif sf == "accept" and (total > cap or nr_ != "ok"):
            bad = "tj3TransformBufSize() = %d does not cover the %d-byte output (NOREALLOC: %s)" % (cap, total, nr_)
        else:
            agree[sf] += 1
        if bad:
            ctx.violation("%s: %s -> %s" % (bad, l, o), {"lines": [l], "impl": o}, signature="xform-crop-size:" + ("disagree" if sf != tf else "undersized"))
    ctx.cov["xcrop_agreements"] = agree

    # ---- transform of a source that carries markers: ICC profile in k chunks (any chunking is legal; every chunk costs
    #      18 bytes that tj3TransformBufSize does not count), COM / APP1 markers copied by the default TJPARAM_SAVEMARKERS
    ml_ = [l for l in corpus if l.startswith("xmk ")]
    for k, payload in ((1, 2550), (2, 2550), (10, 3000), (79, 2550), (114, 2550), (255, 2550), (255, 70000), (3, 140000)):
        for save in range(5):
            for cn in (0, 1):
                ml_.append("xmk 0 %d %d %d %d %d %d" % (k, payload, save, cn, rng.choice([8, 8, 16, 64]), rng.below(1000)))
    for kind in (1, 2):
        for payload in (100, 3000, 60000):
            for save in range(5):
                ml_.append("xmk %d 0 %d %d %d %d %d" % (kind, payload, save, rng.below(2), rng.choice([8, 64]), rng.below(1000)))
    mm = model_lines(ctx, drv, ml_)
    rc, out, err = run_lines(exes["simd"], ml_)
    if rc != 0:
        ctx.violation("crash in the marker-carrying transform stream rc=%d: %s" % (rc, err[-300:]), {"lines": ml_[max(0, len(out) - 2):][:1]}, signature="xmk:crash")
    other_refused = 0
    for i, l in enumerate(ml_):
        o = out[i].strip() if i < len(out) else ""
        m = re.match(r"xmk term=(-?\d+) total=(\d+) cap=(\d+) norealloc=(\w+)", o)
        if not m:
            ctx.broken_tie("harness:xmk", "unexpected output %s for %s" % (o[:80], l))
            continue
        kind = int(l.split()[1])
        ctx.count("xmk", 1, ("xmk", " ".join(l.split()[1:6]), m.group(4)))
        if mm is not None:
            mt = re.match(r"xmk term=(-?\d+) iccbytes=(\d+) budget=(\d+)", mm[i])
            if not mt or int(mt.group(1)) != int(m.group(1)):
                ctx.broken_tie("correspondence:xmk", "ICC term differs on %s: model %s impl %s" % (l, mm[i][:60], o[:80]))
        if m.group(4) != "ok":
            if kind == 0:
                ctx.violation("a buffer of exactly tj3TransformBufSize() bytes is refused although only an ICC profile is copied: the %s chunks of the "
                              "source profile cost 18 bytes each beyond the payload: %s -> %s" % (l.split()[2], l, o),
                              {"lines": [l], "impl": o, "model": mm[i] if mm else None}, signature="xform-icc-undersized:chunk-overhead")
            else:
                other_refused += 1     # COM/APPn markers: "other extra markers", outside the property text
    ctx.cov["xmk_refused_with_copied_COM_or_APPn_markers(outside_property_text)"] = other_refused

    # ---- arithmetic: ICC overhead and tj3JPEGBufSize, model vs implementation vs closed form
    ar = ["icc %d" % n for n in [1, 2, 100, 65518, 65519, 65520, 131037, 131038, 131039, 200000] + [rng.range(1, 400000) for _ in range(ctx.n(6, 40))]]
    for _ in range(ctx.n(300, 3000)):
        ar.append("bufsize %d %d %d" % (rng.choice([1, 7, 8, 9, 15, 16, 17, 31, 32, 33, rng.range(1, 20000)]),
                                        rng.choice([1, 7, 8, 9, 15, 16, 17, 31, 32, 33, rng.range(1, 20000)]), rng.range(-1, 6)))
    ml = model_lines(ctx, drv, ar)
    rc, out, err = run_lines(exes["simd"], ar)
    for i, l in enumerate(ar):
        impl = out[i].strip() if i < len(out) else "<none>"
        if l.startswith("icc "):
            n = int(l.split()[1])
            want = "icc %d" % (n + 18 * ((n + 65518) // 65519))
            if impl != want:
                ctx.violation("ICC profile of %d bytes adds %s bytes, expected %s" % (n, impl, want), {"lines": [l], "impl": impl}, signature="icc-overhead")
        if ml is not None and ml[i].strip() != impl:
            ctx.broken_tie("correspondence:arith", "model %s vs implementation %s on %s" % (ml[i][:60], impl[:60], l))
        ctx.count("arith", 1, ("arith", impl))

    # ---- forward path of the worst-case model (DCT, quantiser 1, standard tables, stuffing) vs the real encoder
    bl = ["blk " + ADV]
    for i in range(ctx.n(250, 3000)):
        k = rng.below(5)
        if k == 0:
            px = [rng.choice([0, 255]) for _ in range(64)]
        elif k == 1:
            px = [rng.below(256) for _ in range(64)]
        elif k == 2:
            base = rng.below(256)
            px = [max(0, min(255, base + rng.range(-3, 3))) for _ in range(64)]
        elif k == 3:
            px = [int(x) for x in ADV.split()]
            for _ in range(rng.range(1, 6)):
                px[rng.below(64)] = rng.below(256)
        else:
            px = [(x * rng.range(0, 40) + y * rng.range(0, 40) + rng.below(8)) & 255 for y in range(8) for x in range(8)]
        bl.append("blk " + " ".join(map(str, px)))
    ml = model_lines(ctx, drv, bl)
    rc, out, err = run_lines(exes["simd"], bl)
    for i, l in enumerate(bl):
        impl = out[i].strip() if i < len(out) else "<none>"
        if ml is not None and ml[i].strip() != impl:
            ctx.log("worst-case model/impl disagree\n  case : %s\n  model: %s\n  impl : %s" % (l[:200], ml[i][:200], impl[:200]))
            ctx.broken_tie("correspondence:blk", "worst-case forward model differs from the encoder on %s" % l[:200])
        ctx.count("blk", 1, ("blk", impl[-40:]))

    # ---- worst-case size probes
    wc = []
    for _ in range(ctx.n(60, 600)):      # believed-safe region: natural-ish content or quality <= 95
        pf = rng.choice([RGB, GRAY, CMYK])
        sub = 3 if pf == GRAY else rng.choice([0, 1, 2, 4, 5, 6] if pf == RGB else [0])
        kind = rng.choice([0, 1, 5, 5, 2])
        q = rng.choice([1, 50, 75, 90, 95]) if kind == 2 or pf == CMYK else rng.choice([50, 90, 100])
        wc.append(("safe", "wc %d %d %d %d %d %d %d %d 8" % (kind, rng.range(1, 150), rng.range(1, 150), pf, sub, q, rng.below(1000),
                                                             rng.choice([0, 0, 1000, 70000]))))
    # adversarial content (finding F6)
    wc.append(("gray-adversarial-block", "wc 4 128 128 %d 3 100 1 0 8" % GRAY))
    wc.append(("cmyk-noise", "wc 3 64 64 %d 0 100 %d 0 8" % (CMYK, rng.below(1000))))
    wc.append(("cmyk-noise", "wc 2 96 96 %d 2 100 %d 0 8" % (CMYK, rng.below(1000))))
    wc.append(("lossless16-noise", "wc 2 1024 1024 %d 3 100 %d 0 16" % (GRAY, rng.below(1000))))
    rc, out, err = run_lines(exes["simd"], [l for _, l in wc])
    for (cls, l), o in zip(wc, out + [""] * len(wc)):
        ctx.count("worstcase-" + ("safe" if cls == "safe" else "adversarial"), 1, ("wc", o[:80]))
        if worst_case_bad(o):
            ctx.violation("tj3JPEGBufSize(+ICC) is not sufficient (%s): %s -> %s" % (cls, l, o[:200]),
                          {"lines": [l], "impl": o}, signature="worstcase-insufficient:" + cls)
    if rc != 0:
        ctx.broken_tie("harness:wc", "worst-case probe run failed rc=%d %s" % (rc, err[-300:]))

    # ---- hazard histories (outside the theorem; model predicts the failure): separate processes
    if sized:
        small = min(sized, key=lambda x: x[1])
        mid = [x for x in sized if 3900 < x[1] < 4090] or [x for x in sized if x[1] > 5000]
        big = max(sized, key=lambda x: x[1])
        hz = [
            ("aba-buffer-reuse-overflow", "hist tj ; C 1 5 -10 ; F ; A 100 1 ; C 1 6 300"),
            # same size class as the freed 4096-byte result: the sanitizer allocator recycles the address too
            ("aba-buffer-reuse-overflow", "hist tj ; C 1 5 -10 ; F ; A 4000 1 ; C 1 6 " + " ".join(["500"] * 8) + " 60"),
            ("aba-buffer-reuse-overflow", "hist tjx ; J 1 %d %s ; F ; A 64 1 ; J 1 %d %s" % (small[1], spec_str(small[0]), small[1], spec_str(small[0]))),
        ]
        if big[1] > 4000 and small[1] < 4096:
            hz.append(("aba-buffer-reuse-overflow", "hist tjx ; J 1 %d %s ; F ; A 4000 1 ; J 1 %d %s" % (small[1], spec_str(small[0]), big[1], spec_str(big[0]))))
        for sig, l in hz:
            ml = model_lines(ctx, drv, [l])
            predicted = bool(ml and re.search(r"ok=0 cb=0 hz=[1-9]", ml[0]) and re.search(r"bad=[1-9]", ml[0]))
            rc, o, err = finding_run(ctx, exes["simd"], l)
            rca, oa, erra = finding_run(ctx, exes["asan"], l, env=asan_env)
            hit = rc != 0 or bool(BAD_TOKENS.search(o.replace("norecycle", "")))
            hit_asan = "AddressSanitizer" in erra
            ctx.count("hazard-history", 1, ("hz", l[:60]))
            ctx.log("hazard history %s: model predicts failure=%s, guard build fails=%s (%s), ASan build reports=%s%s" % (
                sig, predicted, hit, o[-60:].strip(), hit_asan, " (address not recycled by the sanitizer allocator)" if "norecycle" in oa else ""))
            if hit or hit_asan:
                ctx.violation("%s: documented API use overruns the JPEG buffer: %s -> %s %s" % (sig, l[:200], o[-120:], erra[:300] if hit_asan else ""),
                              {"lines": [l], "impl": o, "model": ml[0] if ml else None, "asan": erra[:1500], "flavour": "simd"}, signature=sig)
            if predicted != hit and ml is not None:
                ctx.broken_tie("correspondence:hazard", "model predicts %s, implementation %s on %s" % (predicted, hit, l[:200]))

    ctx.cov["rule"] = ("histories = caller actions (NULL / fresh buffer of boundary capacity / previous pointer, save, free) around calls; "
                       "D,I: arbitrary producers (single bytes and chunks < 512 through the jchuff.c store protocol, error exits) on the real "
                       "destination managers; T: real tj3Compress8/tj3Transform (baseline, progressive, optimised, arithmetic, lossless, restart, ICC) "
                       "with capacities around the true size; a case is distinct when its canonical heap trace/result line is distinct")
    ctx.assume += ["malloc never fails (allocation failure is property C14); sizes stay below 2^63 (bufsize*2 does not wrap)",
                   "every chunk a real entropy encoder stores through LOAD_BUFFER/STORE_BUFFER is shorter than BUFSIZE=512 bytes (jchuff.c comment: <= 256 bytes before stuffing); "
                   "the model shows that a chunk of exactly 512 bytes would leave free_in_buffer = 0 without a dump",
                   "theorems exclude address recycling by malloc (a smaller caller block at the address of the previous result): replayed as a known finding on the implementation",
                   "correspondence is differential testing of the hand model against the real functions; it supports the tie, not the theorem"]
    ctx.trusted += ["harness/c13.c traced heap (guard pages, canaries, block table) and its re-implementation of the emit_byte / STORE_BUFFER producer protocol",
                    "tools/gen_Dest.py (regex translator)"]


def worst_case_bad(o):
    m = re.match(r"wc bufsize=(\d+) rc=(-?\d+) size=(\d+) norealloc=(\w+) canary=(\w+)", o)
    if not m:
        return True
    return int(m.group(2)) != 0 or int(m.group(3)) > int(m.group(1)) or m.group(4) != "ok" or m.group(5) != "ok"
