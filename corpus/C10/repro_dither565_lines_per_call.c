/* dithered RGB565 output depends on (a) scanlines per jpeg_read_scanlines() call, (b) row-pointer alignment */
#include <stdio.h>
#include <stdlib.h>
#include <string.h>
#include <jpeglib.h>
static unsigned char *jpg; static unsigned long jl;
static void decode(int lines, int mis, int fancy, unsigned char *out /* 8 rows x 16 bytes */) {
  struct jpeg_decompress_struct d; struct jpeg_error_mgr e; JSAMPROW rows[8]; int y;
  unsigned char *buf = aligned_alloc(16, 1024); memset(buf, 0, 1024);
  for (y = 0; y < 8; y++) rows[y] = buf + mis + 32 * y;
  d.err = jpeg_std_error(&e); jpeg_create_decompress(&d); jpeg_mem_src(&d, jpg, jl); jpeg_read_header(&d, TRUE);
  d.out_color_space = JCS_RGB565; d.dither_mode = JDITHER_ORDERED; d.do_fancy_upsampling = fancy;
  jpeg_start_decompress(&d);
  while (d.output_scanline < d.output_height) jpeg_read_scanlines(&d, rows + d.output_scanline, lines);
  jpeg_finish_decompress(&d); jpeg_destroy_decompress(&d);
  for (y = 0; y < 8; y++) memcpy(out + 16 * y, rows[y], 16);
  free(buf);
}
int main(void) {
  struct jpeg_compress_struct c; struct jpeg_error_mgr e; unsigned char row[24], a[128], b[128]; int x, y, s, rc = 0;
  for (s = 0; s < 2; s++) {               /* s=0: 4:4:4 (separate converter), s=1: 4:2:0 */
    jpg = NULL; jl = 0;
    c.err = jpeg_std_error(&e); jpeg_create_compress(&c); jpeg_mem_dest(&c, &jpg, &jl);
    c.image_width = 8; c.image_height = 8; c.input_components = 3; c.in_color_space = JCS_RGB; jpeg_set_defaults(&c);
    if (s) { c.comp_info[0].h_samp_factor = 2; c.comp_info[0].v_samp_factor = 2; }
    jpeg_set_quality(&c, 95, TRUE); jpeg_start_compress(&c, TRUE);
    for (y = 0; y < 8; y++) { for (x = 0; x < 24; x++) row[x] = 100 + 3 * x + 5 * y; JSAMPROW r = row; jpeg_write_scanlines(&c, &r, 1); }
    jpeg_finish_compress(&c); jpeg_destroy_compress(&c);
    for (int fancy = 1; fancy >= 0; fancy--) {
      decode(1, 0, fancy, a);
      decode(2, 0, fancy, b); if (memcmp(a, b, 128)) { printf("%s fancy=%d: 1 line/call != 2 lines/call\n", s ? "4:2:0" : "4:4:4", fancy); rc = 1; }
      decode(8, 0, fancy, b); if (memcmp(a, b, 128)) { printf("%s fancy=%d: 1 line/call != 8 lines/call\n", s ? "4:2:0" : "4:4:4", fancy); rc = 1; }
      decode(1, 2, fancy, b); if (memcmp(a, b, 128)) { printf("%s fancy=%d: rows at 0 mod 4 != rows at 2 mod 4 (1 line/call)\n", s ? "4:2:0" : "4:4:4", fancy); rc = 1; }
    }
    free(jpg);
  }
  if (!rc) printf("OK\n");
  return rc;
}
